#!/venv/bin/python
"""C01 - backend simulation matches the documented gate semantics.

S: TLC model-checks spec/C01Sim.tla (exact statevector machine over R_M; unit norm, sum p = 1).
G: every transition TLC explored (source state, gate, target state) is replayed on every installed backend
   with the source as initial statevector; whole behaviours from `tlc -simulate` are replayed as circuits.
Verdict predicate (property level): statevector (indexed in the advertised order) and outcome distribution
(bitstrings list qubit 0 first) equal the exact ones of the spec to 1e-9.
"""
import math
import os
import random
import sys

sys.path.insert(0, os.path.join(os.path.dirname(os.path.abspath(__file__)), "..", "harness"))
import check  # noqa: E402
import tlc  # noqa: E402
from ring import to_complex  # noqa: E402
from enc import json_to_gate  # noqa: E402

import numpy as np  # noqa: E402

TOL = 1e-9

CFG = """CONSTANTS M = %(M)d
N = %(N)d
MaxDepth = %(D)d
RotK <- %(rot)s
PhaseK <- %(ph)s
MaxCtrl = %(mc)d
MinCtrl = %(minc)d
Export = %(exp)s
INIT Init
NEXT Next
INVARIANT UnitNorm
INVARIANT ProbSumOne
INVARIANT ProbsReal
INVARIANT AlphabetOK
%(extra)s
"""


def cfg(M, N, D, full=True, mc=2, export=True, extra="VIEW View", minc=0):
    return CFG % dict(minc=minc, M=M, N=N, D=D, rot="RotKFull" if full else "RotKSmall", ph="PhaseKFull" if full else "PhaseKSmall",
                      mc=mc, exp="TRUE" if export else "FALSE", extra=extra)


def reorder(vec, n):
    """index with qubit 0 most significant  <->  qubit 0 least significant."""
    out = [0] * len(vec)
    for i, a in enumerate(vec):
        j = int(format(i, "0%db" % n)[::-1], 2) if n else 0
        out[j] = a
    return out


def bitstr(i, n):
    return format(i, "0%db" % n) if n else ""


_backends = {}


def backend(name, **kw):
    from tangelo.linq import get_backend
    key = (name, tuple(sorted(kw.items())))
    if key not in _backends:
        _backends[key] = get_backend(name, **kw)
    return _backends[key]


SYMPY_REFUSAL_OK = {"XX", "CSWAP"}    # gates the sympy translator documents as unsupported


def gate_class(g):
    return "%s/c%d" % (g["name"], len(g["c"]))


def run_on_backend(bname, n, gates_json, M, init=None, width=None):
    """Simulate on the real backend. Returns (frequencies, statevector in spec order) or raises."""
    from tangelo.linq import Circuit
    sim = backend(bname)
    order = sim.statevector_order
    width = n if width is None else width
    c = Circuit([json_to_gate(g, M) for g in gates_json], n_qubits=width)
    iv = None
    if init is not None:
        v = list(init) + [0j] * 0
        if width > n:       # extra idle qubits appended in |0>
            w = [0j] * (2 ** width)
            for i, a in enumerate(v):
                w[i << (width - n)] = a
            v = w
        if order != "lsq_first":
            v = reorder(v, width)
        iv = np.array(v, dtype=complex)
        if bname == "sympy":
            iv = iv.reshape((-1, 1))
    freqs, sv = sim.simulate(c, return_statevector=True, initial_statevector=iv)
    sv = [complex(x) for x in np.array(sv).astype(complex).ravel()]
    if order != "lsq_first":
        sv = reorder(sv, width)
    fz = {k: complex(v) for k, v in freqs.items()}
    if any(abs(z.imag) > TOL for z in fz.values()):
        raise AssertionError("complex outcome probability %r" % fz)
    freqs = {k: z.real for k, z in fz.items()}
    return freqs, sv


def judge_result(expected, n, freqs, sv, width=None):
    """Compare backend output with the exact target state. Returns None or a failing-clause string."""
    width = n if width is None else width
    exp = list(expected)
    if width > n:
        w = [0j] * (2 ** width)
        for i, a in enumerate(exp):
            w[i << (width - n)] = a
        exp = w
    if len(sv) != len(exp):
        return "statevector-length %d != %d" % (len(sv), len(exp))
    err = max(abs(a - b) for a, b in zip(sv, exp))
    if err > TOL:
        return "statevector differs from documented semantics (max err %.3g)" % err
    probs = {bitstr(i, width): abs(a) ** 2 for i, a in enumerate(exp) if abs(a) ** 2 > 1e-12}
    if any(len(k) != width or set(k) - {"0", "1"} for k in freqs):
        return "malformed outcome keys %s" % sorted(freqs)
    err = max(abs(freqs.get(k, 0.0) - probs.get(k, 0.0)) for k in set(probs) | set(freqs))
    if err > TOL:
        return "outcome distribution differs (max err %.3g)" % err
    return None


def replay_transition(bname, tr, M):
    """Returns (status, clause): status in ok / refused / fail."""
    n = tr["n"]
    s = [to_complex(e, M) for e in tr["s"]]
    t = [to_complex(e, M) for e in tr["t"]]
    try:
        freqs, sv = run_on_backend(bname, n, [tr["g"]], M, init=s)
    except (ValueError, NotImplementedError) as e:
        return "refused", "%s: %s" % (type(e).__name__, str(e)[:100])
    except Exception as e:
        return "fail", "exception %s: %s" % (type(e).__name__, str(e)[:200])
    bad = judge_result(t, n, freqs, sv)
    return ("ok", None) if bad is None else ("fail", bad)


def sampled_mode(chk, bh, M, rng):
    """n_shots: support within exact support, multiples of 1/n, sum 1, 6 sigma band."""
    from tangelo.linq import Circuit
    n = bh["n"]
    t = [to_complex(e, M) for e in bh["t"]]
    s0 = [to_complex(e, M) for e in bh["s0"]]
    probs = {bitstr(i, n): abs(a) ** 2 for i, a in enumerate(t)}
    for shots in (1, 100, 10000):
        sim = backend("cirq", n_shots=shots)
        np.random.seed(rng.randrange(2 ** 31))
        c = Circuit([json_to_gate(g, M) for g in bh["gates"]], n_qubits=n)
        iv = np.array(s0, dtype=complex) if bh["src"] != "zero" else None
        freqs, _ = sim.simulate(c, initial_statevector=iv)
        bad = None
        if abs(sum(freqs.values()) - 1) > 1e-9:
            bad = "frequencies sum to %r" % sum(freqs.values())
        for k, f in freqs.items():
            p = probs.get(k, 0.0)
            if len(k) != n or p < 1e-12:
                bad = "sampled outcome %r outside exact support" % k
            elif abs(f * shots - round(f * shots)) > 1e-6:
                bad = "frequency %r not a multiple of 1/%d" % (f, shots)
            elif abs(f - p) > 6 * math.sqrt(p * (1 - p) / shots) + 1.0 / shots:
                bad = "frequency %.4f for %s outside 6 sigma of p=%.4f (n=%d)" % (f, k, p, shots)
        for k, p in probs.items():
            f = freqs.get(k, 0.0)
            if abs(f - p) > 6 * math.sqrt(p * (1 - p) / shots) + 1.0 / shots:
                bad = "frequency %.4f for %s outside 6 sigma of p=%.4f (n=%d)" % (f, k, p, shots)
        chk.add_traces(1, "sampled")
        if bad:
            chk.violation("cirq:sampled", bad, {"kind": "sampled", "bh": bh, "M": M, "shots": shots})


def inplace_update(chk, trs, M, bname, part, rng, limit):
    """History on ONE Circuit object and ONE backend instance: simulate, update the gate parameter in place (which Tangelo
    allows), simulate again; the second result must be the spec's successor for the NEW parameter."""
    from tangelo.linq import Circuit
    groups = {}
    for tr in trs:
        g = tr["g"]
        if g["name"] in ("RX", "RY", "RZ", "PHASE", "CRX", "CRY", "CRZ", "CPHASE", "XX"):
            groups.setdefault((tr["n"], tr["gen"], g["name"], tuple(g["t"]), tuple(g["c"])), []).append(tr)
    keys = sorted(k for k, v in groups.items() if len(v) >= 2 and k[1])
    rng.shuffle(keys)
    sim = backend(bname)
    for key in keys[:limit]:
        a, b = rng.sample(groups[key], 2)
        n = a["n"]
        s = [to_complex(e, M) for e in a["s"]]
        iv = s if sim.statevector_order == "lsq_first" else reorder(s, n)
        iv = np.array(iv, dtype=complex)
        if bname == "sympy":
            iv = iv.reshape((-1, 1))
        c = Circuit([json_to_gate(a["g"], M)], n_qubits=n)
        try:
            sim.simulate(c, return_statevector=True, initial_statevector=iv)
            c._gates[0].parameter = json_to_gate(b["g"], M).parameter
            freqs, sv = sim.simulate(c, return_statevector=True, initial_statevector=iv)
        except (ValueError, NotImplementedError):
            continue
        sv = [complex(x) for x in np.array(sv).astype(complex).ravel()]
        if sim.statevector_order != "lsq_first":
            sv = reorder(sv, n)
        fz = {k: complex(v).real for k, v in freqs.items()}
        bad = judge_result([to_complex(e, M) for e in b["t"]], n, fz, sv)
        chk.add_traces(1, part)
        if bad:
            chk.violation("%s:inplace-parameter-update" % bname, "after updating the gate parameter in place and simulating the same "
                          "Circuit object again: " + bad, {"kind": "inplace", "backend": bname, "first": a, "second": b, "M": M})


def many_shots(chk, bh, M, rng):
    """n_shots above the backend's internal sampling slice (10^7): frequencies must still be a normalised sample."""
    from tangelo.linq import Circuit
    n = bh["n"]
    t = [to_complex(e, M) for e in bh["t"]]
    s0 = [to_complex(e, M) for e in bh["s0"]]
    probs = {bitstr(i, n): abs(a) ** 2 for i, a in enumerate(t)}
    shots = 12 * 10 ** 6
    sim = backend("cirq", n_shots=shots)
    np.random.seed(rng.randrange(2 ** 31))
    c = Circuit([json_to_gate(g, M) for g in bh["gates"]], n_qubits=n)
    iv = np.array(s0, dtype=complex) if bh["src"] != "zero" else None
    freqs, _ = sim.simulate(c, initial_statevector=iv)
    bad = None
    if abs(sum(freqs.values()) - 1) > 1e-9:
        bad = "frequencies sum to %r with n_shots=%d" % (sum(freqs.values()), shots)
    else:
        for k, p in probs.items():
            if abs(freqs.get(k, 0.0) - p) > 6 * math.sqrt(p * (1 - p) / shots) + 1.0 / shots:
                bad = "frequency %.6f for %s outside 6 sigma of p=%.6f (n=%d)" % (freqs.get(k, 0.0), k, p, shots)
    chk.add_traces(1, "sampled_many_shots")
    if bad:
        chk.violation("cirq:sampled:many-shots", bad, {"kind": "sampled", "bh": bh, "M": M, "shots": shots})


def empty_circuit_initial_state(chk, bh, M, bname):
    """A circuit without gates and a user-supplied initial state: the outcome distribution is |psi_i|^2 with bitstrings
    listing qubit 0 first, and the returned statevector is the supplied one (in the advertised index order)."""
    from tangelo.linq import Circuit
    n = bh["n"]
    t = [to_complex(e, M) for e in bh["t"]]          # any exact state of the spec serves as the user's initial state
    sim = backend(bname)
    v = t if sim.statevector_order == "lsq_first" else reorder(t, n)
    try:
        freqs, sv = sim.simulate(Circuit(n_qubits=n), return_statevector=True, initial_statevector=np.array(v, dtype=complex))
    except Exception as e:
        chk.violation("%s:empty-circuit+initial-state:exception" % bname, "%s: %s" % (type(e).__name__, str(e)[:200]),
                      {"kind": "empty", "backend": bname, "bh": bh, "M": M})
        return
    sv = [complex(x) for x in np.array(sv).astype(complex).ravel()]
    if sim.statevector_order != "lsq_first":
        sv = reorder(sv, n)
    fz = {k: complex(f).real for k, f in freqs.items()}
    bad = judge_result(t, n, fz, sv)
    chk.add_traces(1, "empty_circuit_initial_state_%s" % bname)
    if bad:
        chk.violation("%s:empty-circuit+initial-state" % bname, bad, {"kind": "empty", "backend": bname, "bh": bh, "M": M})


def symbolic_parameters(chk, trs, M, rng, limit):
    """sympy is a SYMBOLIC backend: a string parameter is a variable. The same transition is simulated with the angle given
    as a variable name (including names that sympy itself knows as constants) and the variable substituted afterwards."""
    import sympy
    from tangelo.linq import Circuit, Gate
    names = ["theta", "E", "I", "pi", "alpha_1", "oo", "S", "beta"]
    cand = [tr for tr in trs if tr["g"]["name"] in ("RX", "RY", "RZ", "PHASE", "CRX", "CRY", "CRZ", "CPHASE") and tr["gen"] and tr["n"] <= 2
            and tr["g"]["k"] % 8 != 0]
    rng.shuffle(cand)
    sim = backend("sympy")
    for j, tr in enumerate(cand[:limit]):
        n, g = tr["n"], tr["g"]
        name = names[j % len(names)]
        val = 2 * math.pi * g["k"] / M
        s = [to_complex(e, M) for e in tr["s"]]
        iv = np.array(s if sim.statevector_order == "lsq_first" else reorder(s, n), dtype=complex).reshape((-1, 1))
        c = Circuit([Gate(g["name"], list(g["t"]), list(g["c"]) or None, parameter=name)], n_qubits=n)
        case = {"kind": "symbolic", "tr": tr, "M": M, "name": name}
        try:
            freqs, sv = sim.simulate(c, return_statevector=True, initial_statevector=iv)
            syms = {x for x in sympy.Matrix(sv).free_symbols}
            sub = {x: val for x in syms}
            svn = [complex(sympy.N(sympy.sympify(x).subs(sub))) for x in sympy.Matrix(sv)]
            fz = {k: complex(sympy.N(sympy.sympify(f).subs(sub))).real for k, f in freqs.items()}
        except Exception as e:
            chk.violation("sympy:symbolic-parameter:exception", "variable %r: %s: %s" % (name, type(e).__name__, str(e)[:150]), case)
            continue
        if sim.statevector_order != "lsq_first":
            svn = reorder(svn, n)
        chk.add_traces(1, "sympy_symbolic_parameters")
        if len(syms) != 1:
            chk.violation("sympy:symbolic-parameter:not-a-variable", "parameter name %r: the symbolic statevector has free symbols %s "
                          "(the name was not kept as one real variable)" % (name, sorted(map(str, syms))), case)
            continue
        bad = judge_result([to_complex(e, M) for e in tr["t"]], n, fz, svn)
        if bad:
            chk.violation("sympy:symbolic-parameter", "variable %r substituted by the grid angle: %s" % (name, bad), case)


def wide_product_circuit(chk, bhs1, M, rng):
    """A 12-qubit circuit of single-qubit gates: qubit q carries one of TLC's 1-qubit behaviours, so the exact joint
    distribution is the product of the exact 1-qubit distributions. Sampled with and without save_mid_circuit_meas
    (more than 10 measurement keys): every bit position must follow its own marginal."""
    from tangelo.linq import Circuit
    W = 12
    picks = [bhs1[rng.randrange(len(bhs1))] for _ in range(W)]
    picks = [b for b in picks]
    gates, p1 = [], []
    for q, bh in enumerate(picks):
        if bh["src"] != "zero":
            bh = [b for b in bhs1 if b["src"] == "zero"][q % max(1, len([b for b in bhs1 if b["src"] == "zero"]))]
        for g in bh["gates"]:
            gg = dict(g, t=[q])
            gates.append(json_to_gate(gg, M))
        t = [to_complex(e, M) for e in bh["t"]]
        p1.append(abs(t[1]) ** 2)
    shots = 4000
    for save in (False, True):
        sim = backend("cirq", n_shots=shots)
        np.random.seed(rng.randrange(2 ** 31))
        c = Circuit(gates, n_qubits=W)
        freqs, _ = sim.simulate(c, save_mid_circuit_meas=save)
        bad = None
        if abs(sum(freqs.values()) - 1) > 1e-9 or any(len(k) != W for k in freqs):
            bad = "malformed frequencies (sum %r, key lengths %s)" % (sum(freqs.values()), sorted({len(k) for k in freqs}))
        else:
            for q in range(W):
                f = sum(v for k, v in freqs.items() if k[q] == "1")
                p = p1[q]
                if abs(f - p) > 6 * math.sqrt(max(p * (1 - p), 0) / shots) + (1e-9 if p in (0.0, 1.0) or p < 1e-12 or p > 1 - 1e-12 else 1.0 / shots):
                    bad = "bit position %d: P(1) = %.4f sampled, exact %.4f (save_mid_circuit_meas=%s)" % (q, f, p, save)
                    break
        chk.add_traces(1, "wide_product_circuit")
        if bad:
            chk.violation("cirq:sampled:wide-register:save_mid=%s" % save, bad, {"kind": "wide", "save": save, "p1": p1})


def small_angle_tail(chk):
    """NUMERIC TAIL (not model-checked): rotation angles far below the grid produce outcomes of small probability
    (1e-10 < p < 1e-4) that must not be dropped: both backends against closed-form probabilities written out here."""
    from tangelo.linq import Circuit, Gate
    d1, d2 = 0.015, 0.01
    c = Circuit([Gate("H", 0), Gate("CRY", 1, control=0, parameter=d1), Gate("RX", 2, parameter=d2)], n_qubits=3)
    pa = {0: 0.5, 1: 0.5}
    pb = {(0, 0): 1.0, (0, 1): 0.0, (1, 0): math.cos(d1 / 2) ** 2, (1, 1): math.sin(d1 / 2) ** 2}
    pc = {0: math.cos(d2 / 2) ** 2, 1: math.sin(d2 / 2) ** 2}
    exact = {"%d%d%d" % (a, b, cc): pa[a] * pb[(a, b)] * pc[cc] for a in (0, 1) for b in (0, 1) for cc in (0, 1)}
    exact = {k: v for k, v in exact.items() if v > 0}
    worst = 0.0
    for bname in ("cirq", "sympy"):
        freqs, _ = backend(bname).simulate(c)
        fz = {k: complex(v).real for k, v in freqs.items()}
        err = max(abs(fz.get(k, 0.0) - exact.get(k, 0.0)) for k in set(fz) | set(exact))
        worst = max(worst, err)
        if err > 1e-12 + 0 or abs(sum(fz.values()) - 1) > 1e-9:
            chk.violation("numeric-tail:%s:small-probability-outcomes" % bname, "NUMERIC TAIL: H, CRY(%g), RX(%g): frequencies %s, closed form %s"
                          % (d1, d2, {k: "%.3g" % v for k, v in sorted(fz.items())}, {k: "%.3g" % v for k, v in sorted(exact.items())}),
                          {"kind": "small-angle", "backend": bname})
    chk.part("numeric_tail_small_probabilities_NOT_model_checked", worst_error=worst, oracle="closed-form products of cos^2/sin^2 in the driver")


def check_transitions(chk, trs, M, bname, part):
    n_ok = n_ref = 0
    for tr in trs:
        st, clause = replay_transition(bname, tr, M)
        chk.add_traces(1, part)
        g = tr["g"]
        if st == "ok":
            n_ok += 1
        elif st == "refused":
            n_ref += 1
            if bname == "sympy" and (g["name"] in SYMPY_REFUSAL_OK):
                continue          # documented as unsupported by this backend: refusal is conformant
            chk.violation("%s:refused:%s" % (bname, gate_class(g)),
                          "supported gate refused: %s" % clause, {"kind": "transition", "backend": bname, "tr": tr, "M": M})
        else:
            key = "%s:%s" % (bname, gate_class(g))
            if "statevector differs" in clause and bname == "sympy":
                # distinguish pure index-order failures from wrong matrices: does the reversed vector match?
                try:
                    n = tr["n"]
                    s = [to_complex(e, M) for e in tr["s"]]
                    t = [to_complex(e, M) for e in tr["t"]]
                    freqs, sv = run_on_backend(bname, n, [g], M, init=reorder(s, n))
                    if judge_result(t, n, freqs, reorder(sv, n)) is None:
                        key = "%s:statevector-order" % bname
                except Exception:
                    pass
            chk.violation(key, clause, {"kind": "transition", "backend": bname, "tr": tr, "M": M})
    chk.part(part, ok=n_ok, refused=n_ref)


def check_behaviour(chk, bh, M, bname, part, wider=False):
    n = bh["n"]
    t = [to_complex(e, M) for e in bh["t"]]
    s0 = [to_complex(e, M) for e in bh["s0"]] if bh["src"] != "zero" else None
    width = n + 1 if wider else n
    try:
        freqs, sv = run_on_backend(bname, n, bh["gates"], M, init=s0, width=width)
    except (ValueError, NotImplementedError) as e:
        if bname == "sympy":
            return "refused"
        chk.violation("%s:circuit:refused" % bname, "%s: %s" % (type(e).__name__, str(e)[:200]),
                      {"kind": "behaviour", "backend": bname, "bh": bh, "M": M, "wider": wider})
        return "refused"
    except Exception as e:
        chk.violation("%s:circuit:exception" % bname, "%s: %s" % (type(e).__name__, str(e)[:200]),
                      {"kind": "behaviour", "backend": bname, "bh": bh, "M": M, "wider": wider})
        return "fail"
    bad = judge_result(t, n, freqs, sv, width=width)
    chk.add_traces(1, part)
    if bad:
        key = "%s:circuit" % bname
        if bname == "sympy" and "statevector differs" in bad:
            rs = reorder(s0, n) if s0 is not None else None
            try:
                f2, sv2 = run_on_backend(bname, n, bh["gates"], M, init=rs, width=width)
                if judge_result(t, n, f2, reorder(sv2, width), width=width) is None:
                    key = "sympy:statevector-order"
            except Exception:
                pass
        chk.violation(key, bad, {"kind": "behaviour", "backend": bname, "bh": bh, "M": M, "wider": wider})
        return "fail"
    return "ok"


def sympy_supported(g):
    return g["name"] not in SYMPY_REFUSAL_OK


def run(chk):
    rng = random.Random(chk.seed)
    quick = chk.quick
    # ---------------- S + G: exhaustive one-step exploration ------------------------------------
    jobs = []
    # (M, N, depth, full angle sets, MaxCtrl, MinCtrl)
    plan = [(8, 1, 1, True, 2, 0), (8, 2, 1, True, 2, 0), (8, 3, 1, True, 2, 0), (8, 4, 1, False, 3, 2)]
    if not quick:
        plan += [(8, 2, 2, False, 2, 0), (8, 3, 2, False, 2, 0), (16, 1, 1, True, 1, 0), (16, 2, 1, True, 1, 0), (8, 4, 1, False, 3, 0),
                 (8, 5, 1, False, 3, 3)]
    for (M, N, D, full, mc, minc) in plan:
        jobs.append(dict(module="C01Sim", cfg=cfg(M, N, D, full, mc, minc=minc), name="c01/bfs_M%d_N%d_D%d_c%d" % (M, N, D, minc),
                         workers=2 if quick else 4, coverage=False, heap="6g", timeout=7200))
    # ---------------- behaviours for whole-circuit replay (tlc -simulate) ----------------------
    sims = []
    for N in (1, 2, 3):
        num = 60 if quick else 600
        sims.append(dict(module="C01Sim",
                         cfg=cfg(8, N, 5, True, 2, export=False, extra="INVARIANT EndOfBehaviour"),
                         name="c01/sim_N%d" % N, workers=1, simulate="num=%d" % num, depth=6,
                         seed=chk.seed + 17 * N, timeout=3600))
    results = tlc.run_many(jobs + sims)
    bfs, simres = results[:len(jobs)], results[len(jobs):]
    all_tr = []
    for (M, N, D, full, mc, minc), r in zip(plan, bfs):
        if not r.ok:
            raise tlc.TLCError("C01Sim invariant violated in the specification itself: %s\n%s" % (r.violated, r.out[-2000:]))
        chk.add_tlc(r, "bfs_M%d_N%d_D%d_minctrl%d" % (M, N, D, minc))
        trs = r.prints("TR")
        for tr in trs:
            tr["M"] = M
        all_tr += trs
    chk.sample({"transition": {k: all_tr[len(all_tr) // 2][k] for k in ("n", "g", "t")}})
    # cirq: every transition
    by_m = {}
    for tr in all_tr:
        by_m.setdefault(tr["M"], []).append(tr)
    for M, trs in by_m.items():
        check_transitions(chk, trs, M, "cirq", "cirq_transitions_M%d" % M)
    symbolic_parameters(chk, by_m[8], 8, rng, 16 if quick else 120)
    small_angle_tail(chk)
    inplace_update(chk, by_m[8], 8, "cirq", "inplace_update_cirq", rng, 40 if quick else 400)
    inplace_update(chk, [t for t in by_m[8] if t["n"] <= 2], 8, "sympy", "inplace_update_sympy", rng, 8 if quick else 60)
    # sympy: slow (symbolic) -> seeded sample stratified by gate class
    classes = {}
    for tr in all_tr:
        classes.setdefault((tr["M"], tr["n"], gate_class(tr["g"]), tr["gen"]), []).append(tr)
    per = 1 if quick else 6
    samp = []
    for key in sorted(classes):
        lst = classes[key]
        if key[1] > 2 and quick and not key[2].endswith("c2"):
            continue
        samp += rng.sample(lst, min(per, len(lst)))
    for M in sorted(set(tr["M"] for tr in samp)):
        check_transitions(chk, [tr for tr in samp if tr["M"] == M], M, "sympy", "sympy_transitions_M%d" % M)
    # behaviours
    n_bh = 0
    for r in simres:
        chk.add_tlc(r, r.name)
        bhs = r.prints("BH")
        for i, bh in enumerate(bhs):
            n_bh += 1
            check_behaviour(chk, bh, 8, "cirq", "cirq_behaviours")
            check_behaviour(chk, bh, 8, "cirq", "cirq_behaviours_wider", wider=True)
            if i % (6 if quick else 3) == 0 and all(sympy_supported(g) for g in bh["gates"]):
                check_behaviour(chk, bh, 8, "sympy", "sympy_behaviours")
            if i % (10 if quick else 4) == 0:
                sampled_mode(chk, bh, 8, rng)
            if i == 1 and bh["n"] <= 2:
                many_shots(chk, bh, 8, rng)
            if i % (4 if quick else 2) == 0:
                empty_circuit_initial_state(chk, bh, 8, "cirq")
                empty_circuit_initial_state(chk, bh, 8, "sympy")
        if bhs:
            chk.sample({"behaviour": {"n": bhs[0]["n"], "src": bhs[0]["src"], "gates": bhs[0]["gates"]}})
    bhs1 = [bh for r in simres for bh in r.prints("BH") if bh["n"] == 1 and bh["src"] == "zero"]
    if bhs1:
        for _ in range(1 if quick else 6):
            wide_product_circuit(chk, bhs1, 8, rng)
    chk.part("behaviours", count=n_bh)
    chk.cov["rule"] = ("TLC explores C01Sim (every gate x placement x control subset x grid angle from |0..0> and from a "
                       "generic entangled state; -simulate for depth-5 behaviours); each transition/behaviour is replayed "
                       "on cirq (all) and sympy (stratified sample)")
    chk.assumptions += ["angles restricted to multiples of 2pi/M (M=8; 16 in thorough): gate entries are degree<=1 "
                        "trigonometric polynomials in theta/2, so agreement on >=3 grid angles per gate fixes them",
                        "float comparison tolerance 1e-9 between TLC's exact value and the backend's complex128"]


def replay(chk, rec):
    case = rec["case"]
    M = case["M"]
    if case["kind"] == "transition":
        st, clause = replay_transition(case["backend"], case["tr"], M)
        print(case["backend"], case["tr"]["g"], "->", st, clause)
        return st == "ok"
    if case["kind"] == "behaviour":
        c2 = check.Check("C01", ["quick"])
        c2.known = []
        st = check_behaviour(c2, case["bh"], M, case["backend"], "replay", wider=case.get("wider", False))
        print(case["backend"], case["bh"]["gates"], "->", st, [v[:2] for v in c2.violations])
        return st == "ok"
    print(rec)
    return False


if __name__ == "__main__":
    check.main("C01", run, replay)
