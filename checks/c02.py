#!/venv/bin/python
"""C02 - expectation values equal <psi|H|psi> on every evaluation path.

S: TLC model-checks spec/C02Expect.tla (exact statevector machine with post-selected mid-circuit measurement and an
   operator built term by term): in EVERY reachable state and for EVERY Pauli word the algorithm models of the
   frequency route (X -> RY(-pi/2), Y -> RX(+pi/2), parity mask), of the variance-from-frequencies formula and of the
   generic statevector route (Pauli circuit overlap) equal the exact <psi|P|psi>; for the operator of each behaviour:
   linearity (duplicates summed), <psi|(H psi)>, Re/Im split of value and variance.
G: TLC exports (a) every distinct reachable state with the exact expectation of every word ("ST") and (b) complete
   behaviours: circuit (+ selected mid-circuit outcomes), operator with ring coefficients incl. identity term, exact
   <psi_b|H|psi_b>, p_b and variance numerator ("BH").  The driver evaluates the SAME pair through every route of the
   real code (cirq native, generic Pauli-overlap route, frequency route with exact frequencies, underscore routes,
   empty circuit + statevector, initial_statevector vs prefix circuit, sympy, desired_meas_result, complex operators,
   get_variance / get_standard_error, finite shots in a Bernstein 6-sigma band) and compares with TLC's exact numbers.
V: measurement_basis_gates(term) is judged by TLC (spec/C02Trace.tla) - structural / semantic, SPEC-DRIFT only.
"""
import copy
import itertools
import json
import math
import os
import random
import sys

sys.path.insert(0, os.path.join(os.path.dirname(os.path.abspath(__file__)), "..", "harness"))
import check  # noqa: E402
import tlc  # noqa: E402
from ring import to_complex  # noqa: E402
from enc import json_to_gate, json_to_qubit_op, gates_to_json, OffGrid, LETTER_INV  # noqa: E402

import numpy as np  # noqa: E402

TOL = 1e-9
PID = "C02"

CFG = """CONSTANTS M = %(M)d
N = %(N)d
MaxDepth = %(D)d
MaxTerms = %(T)d
MaxMeas = %(MM)d
DepthChoices <- %(dc)s
TermChoices <- %(tc)s
CplxChoices <- %(cc)s
Sources <- %(src)s
Export = TRUE
INIT Init
NEXT Next
%(extra)s
"""

BFS_INV = "VIEW View\nINVARIANT NormOK\nINVARIANT AlphabetOK\nINVARIANT AllWordsCorrectAndExport\n"
SIM_INV = ("INVARIANT NormAtEnd\nINVARIANT OpWordsCorrect\nINVARIANT OpRouteCorrect\nINVARIANT Linearity\nINVARIANT ViaApply\n"
           "INVARIANT ComplexSplit\nINVARIANT VarSplit\nINVARIANT BranchesOK\nINVARIANT HistoryOK\n")


def bfs_cfg(M, N, D, MM, src="SrcBoth"):
    return CFG % dict(M=M, N=N, D=D, T=1, MM=MM, dc="DepthOnlyMax", tc="TermsNone", cc="BoolF", src=src, extra=BFS_INV)


def sim_cfg(M, N, D, T, MM, src, dc="DepthAll"):
    return CFG % dict(M=M, N=N, D=D, T=T, MM=MM, dc=dc, tc="TermsAll", cc="BoolBoth", src=src, extra=SIM_INV)


# ------------------------------------------------------------------------------------------------
# the implementation under test
# ------------------------------------------------------------------------------------------------
_sims = {}


def cirq_sim(n_shots=None, generic=False):
    """CirqSimulator; generic=True: a subclass WITHOUT expectation_value_from_prepared_state, so that
    Backend._get_expectation_value_from_statevector takes its generic (any-backend) route."""
    key = ("cirq", n_shots, generic)
    if key not in _sims:
        from tangelo.linq.target.target_cirq import CirqSimulator

        class GenericCirq(CirqSimulator):
            def __getattribute__(self, name):
                if name == "expectation_value_from_prepared_state":
                    raise AttributeError(name)
                return super().__getattribute__(name)

        _sims[key] = (GenericCirq if generic else CirqSimulator)(n_shots=n_shots)
    return _sims[key]


def user_msq_sim(n_shots=None):
    """A USER-DEFINED backend (documented extension point of tangelo.linq, cf. test_user_provided_simulator): a thin
    Backend subclass that simulates with cirq but exchanges statevectors in msq_first order (qubit 0 = least significant
    bit of the amplitude index) and advertises that.  Everything else (frequencies, sampling, expectation values,
    variance) is the code of the Backend base class under test; it has no expectation_value_from_prepared_state."""
    key = ("usermsq", n_shots)
    if key not in _sims:
        from tangelo.linq import get_backend
        from tangelo.linq.target.backend import Backend
        from tangelo.linq.translator import translate_circuit

        class UserMsqBackend(Backend):
            def simulate_circuit(self, source_circuit, return_statevector=False, initial_statevector=None):
                import cirq
                n = source_circuit.width
                if source_circuit.is_mixed_state:
                    raise NotImplementedError("no mid-circuit measurement on this backend")
                init = 0
                if initial_statevector is not None:
                    init = np.array(reorder(list(np.asarray(initial_statevector).ravel()), n), dtype=complex)
                sv = cirq.Simulator(dtype=np.complex128).simulate(translate_circuit(source_circuit, "cirq"),
                                                                   initial_state=init).final_state_vector
                sv = np.array(reorder(list(sv), n), dtype=complex)
                self._current_state = sv
                frequencies = self._statevector_to_frequencies(sv)
                return (frequencies, sv) if return_statevector else (frequencies, None)

            @staticmethod
            def backend_info():
                return {"statevector_available": True, "statevector_order": "msq_first", "noisy_simulation": False}

        _sims[key] = get_backend(UserMsqBackend, n_shots=n_shots, noise_model=None)
    return _sims[key]


def sims_for(backend, n_shots=None):
    """(backend object, backend object taking the generic statevector route)."""
    if backend == "usermsq":
        return user_msq_sim(n_shots), user_msq_sim(n_shots)
    return cirq_sim(n_shots), cirq_sim(n_shots, generic=True)


def sympy_sim():
    if "sympy" not in _sims:
        from tangelo.linq import get_backend
        _sims["sympy"] = get_backend("sympy")
    return _sims["sympy"]


def reorder(vec, n):
    out = [0] * len(vec)
    for i, a in enumerate(vec):
        out[int(format(i, "0%db" % n)[::-1], 2) if n else 0] = a
    return out


def to_num(x):
    """whatever a backend returned (float, numpy scalar, sympy expression) -> complex."""
    if isinstance(x, (np.ndarray, list, tuple)) or type(x).__name__.endswith("Matrix"):
        a = np.asarray(x, dtype=object).ravel()      # a 1-element container is still "the value"
        if a.size != 1:
            raise TypeError("result is a container with %d elements" % a.size)
        x = a[0]
    try:
        return complex(x)
    except TypeError:
        return complex(x.evalf())


class Case:
    """One exported record, converted for the implementation.  rec: the TLC record + 'M' + 'prep' (PREP record)."""

    def __init__(self, rec):
        from tangelo.linq import Circuit
        self.rec = rec
        self.M = M = rec["M"]
        self.n = n = rec["n"]
        self.src = rec["src"]
        gates = [json_to_gate(g, M) for g in rec["gates"]]
        self.des = "".join(str(g["k"]) for g in rec["gates"] if g["name"] == "MEASURE") if rec["nmeas"] else None
        self.p = to_complex(rec["p"], M).real
        psi = np.array([to_complex(e, M) for e in rec["psi"]], dtype=complex)
        self.final = psi / math.sqrt(self.p)            # normalised post-selected state (floats, for one route only)
        if self.src in ("generic", "one0"):
            prep = [json_to_gate(g, M) for g in rec["prep"]["prep"]]
            s0 = np.array([to_complex(e, M) for e in rec["prep"]["s0"]], dtype=complex)
        else:
            prep = []
            s0 = np.zeros(2 ** n, dtype=complex)
            s0[0] = 1.
        self.s0 = s0
        # ("plain": state prepared by a prefix circuit from |0..0>;  "init": initial_statevector supplied)
        self.variants = {"plain": (Circuit(prep + gates, n_qubits=n), None),
                         "init": (Circuit(gates, n_qubits=n), s0)}

    def iv_for(self, sim, iv):
        if iv is None:
            return None
        if sim.statevector_order != "lsq_first":
            iv = np.array(reorder(list(iv), self.n), dtype=complex)
        if sim.__class__.__name__ == "SympySimulator":
            iv = iv.reshape((-1, 1))
        return iv


def op_of(terms, M):
    return json_to_qubit_op(terms, M)


def is_complex_op(terms, M):
    return any(abs(to_complex(t["c"], M).imag) > 0 for t in terms)


def term_of_word(w):
    return tuple((q, LETTER_INV[l]) for q, l in enumerate(w) if l)


# ------------------------------------------------------------------------------------------------
# judging
# ------------------------------------------------------------------------------------------------
class Judge:
    def __init__(self, chk, rec, kind):
        self.chk, self.rec, self.kind = chk, rec, kind
        self.case = Case(rec)
        self.n_eval = 0
        self.fails = []

    def key(self, backend, api, tag, cplx, sel=None):
        """<backend>:<family>:<meas|nomeas|mixed>:<api>:<variant>:<real|complex> - known findings match on a prefix.
        meas = post-selected on mid-circuit outcomes, mixed = circuit with MEASURE gates, not post-selected."""
        fam = "variance" if ("variance" in api or "standard_error" in api) else "expectation"
        if sel is None:
            sel = "meas" if self.case.des is not None else "nomeas"
        return ":".join([backend, fam, sel, api, tag, "complex" if cplx else "real"])

    def report(self, key, detail, extra):
        self.fails.append(key)
        chk = self.chk
        if chk.match_known(key) is None:
            # the harness writes replay files for the first 50 violations only: keep at most 2 cases per key and
            # stay below that limit, so that every printed VIOLATION line names an existing replay file
            cnt = chk.cov["parts"].setdefault("violations_by_key", {})
            cnt[key] = cnt.get(key, 0) + 1
            if cnt[key] > 2 or len(chk.violations) >= 48:
                return
        case = {"kind": self.kind, "rec": self.rec}
        case.update(extra)
        self.chk.violation(key, detail, case)

    def call(self, key, fn, expected, what, extra, tol=TOL, band=None):
        """Run one route; compare with the exact value. band: (lo, hi) admissible interval for statistical routes."""
        self.n_eval += 1
        self.chk.add_traces(1, self.kind + ":" + key.split(":")[3])
        try:
            got = to_num(fn())
        except Exception as e:  # an enabled operation must succeed
            k2 = key + ":exception"
            if extra.get("sympy_frequency_route"):
                # the symbolic backend refuses / breaks on the frequency route in several ways; one finding
                k2 = "sympy:frequency-route:exception:" + key[len("sympy:"):]
            self.report(k2, "%s raised %s: %s" % (what, type(e).__name__, str(e)[:200]), extra)
            return None
        if band is not None:
            lo, hi = band
            if abs(got.imag) > 1e-9 or not (lo - 1e-9 <= got.real <= hi + 1e-9):
                self.report(key, "%s = %r outside the 6-sigma band [%.6g, %.6g] of the exact distribution" % (what, got, lo, hi), extra)
            return got
        if not (abs(got - expected) <= tol):
            self.report(key, "%s = %r, exact %r (|diff| %.3g)" % (what, got, expected, abs(got - expected)), extra)
        return got


def exact_of(rec):
    M = rec["M"]
    p = to_complex(rec["p"], M).real
    val = to_complex(rec["num"], M) / p
    var = to_complex(rec["varnum"], M).real / (p * p)
    return p, val, var


def judge_behaviour(chk, rec, sympy_too=False, variants=("plain", "init"), backend="cirq"):
    """All exact (n_shots=None) routes for one behaviour record."""
    from tangelo.linq import Circuit
    J = Judge(chk, rec, "BH")
    c = J.case
    M = rec["M"]
    terms = rec["terms"]
    op = op_of(terms, M)
    cplx = is_complex_op(terms, M)
    p, val, var = exact_of(rec)
    des = c.des
    sim, gen = sims_for(backend)
    B = backend
    for tag in variants:
        circ, iv = c.variants[tag]
        ex = {"variant": tag}
        kw = dict(initial_statevector=c.iv_for(sim, iv), desired_meas_result=des)
        if B != "cirq":
            kw.pop("desired_meas_result")
        J.call(J.key(B, "get_expectation_value", tag, cplx),
               lambda: sim.get_expectation_value(op, circ, **kw), val, "get_expectation_value", ex)
        if gen is not sim:
            J.call(J.key(B, "generic.get_expectation_value", tag, cplx),
                   lambda: gen.get_expectation_value(op, circ, **kw), val, "generic-route get_expectation_value", ex)
        J.call(J.key(B, "get_variance", tag, cplx),
               lambda: sim.get_variance(op, circ, **kw), var, "get_variance (n_shots=None)", ex)
        J.call(J.key(B, "get_standard_error", tag, cplx),
               lambda: sim.get_standard_error(op, circ, **kw), 0., "get_standard_error (n_shots=None)", ex)
        if not cplx:
            J.call(J.key(B, "_get_expectation_value_from_frequencies", tag, cplx),
                   lambda: sim._get_expectation_value_from_frequencies(op, circ, **kw), val,
                   "_get_expectation_value_from_frequencies", ex)
            if circ.size > 0:    # get_expectation_value never sends an empty circuit down the statevector route
                J.call(J.key(B, "_get_expectation_value_from_statevector", tag, cplx),
                       lambda: sim._get_expectation_value_from_statevector(op, circ, **kw), val,
                       "_get_expectation_value_from_statevector", ex)
                if gen is not sim:
                    J.call(J.key(B, "generic._get_expectation_value_from_statevector", tag, cplx),
                           lambda: gen._get_expectation_value_from_statevector(op, circ, **kw), val,
                           "generic-route _get_expectation_value_from_statevector", ex)
            J.call(J.key(B, "_get_variance_from_frequencies", tag, cplx),
                   lambda: sim._get_variance_from_frequencies(op, circ, **kw), var, "_get_variance_from_frequencies", ex)
    # empty circuit + the (normalised) final state supplied as initial statevector -> frequency route
    empty = Circuit(n_qubits=c.n)
    J.call(J.key(B, "get_expectation_value", "empty-circuit", cplx, "nomeas"),
           lambda: sim.get_expectation_value(op, empty, initial_statevector=c.iv_for(sim, c.final)), val,
           "get_expectation_value(empty circuit, initial_statevector=final state)", {"variant": "empty"})
    J.call(J.key(B, "get_variance", "empty-circuit", cplx, "nomeas"),
           lambda: sim.get_variance(op, empty, initial_statevector=c.iv_for(sim, c.final)), var,
           "get_variance(empty circuit, initial_statevector=final state)", {"variant": "empty"})
    if sympy_too and des is None:
        sym = sympy_sim()
        for tag in variants:
            circ, iv = c.variants[tag]
            ivs = c.iv_for(sym, iv)
            J.call(J.key("sympy", "get_expectation_value", tag, cplx),
                   lambda: sym.get_expectation_value(op, circ, initial_statevector=ivs), val,
                   "sympy get_expectation_value", {"variant": tag, "sympy_frequency_route": circ.size == 0})
        fin = c.iv_for(sym, c.final)
        J.call(J.key("sympy", "get_expectation_value", "empty-circuit", cplx, "nomeas"),
               lambda: sym.get_expectation_value(op, empty, initial_statevector=fin), val,
               "sympy get_expectation_value(empty circuit, initial_statevector) [frequency route]",
               {"variant": "empty", "sympy_frequency_route": True})
        circ, iv = c.variants["init"]
        ivs = c.iv_for(sym, iv)
        J.call(J.key("sympy", "get_variance", "init", cplx),
               lambda: sym.get_variance(op, circ, initial_statevector=ivs), var, "sympy get_variance",
               {"variant": "init", "sympy_frequency_route": True})
    chk.add_eval(1, 1 if (rec["gates"] and any(any(t["w"]) for t in terms)) else 0)
    return J


def bernstein(sigma2, n, bound):
    """Deviation t with P(|mean - E| > t) <= 2 exp(-18) for the mean of n independent variables with variance
    sigma2 and |X - E| <= bound (Bernstein): t = 6 sqrt(sigma2/n) + 12 bound / n."""
    return 6. * math.sqrt(max(sigma2, 0.) / n) + 12. * bound / n


def judge_shots(chk, rec, n_shots, seed, variants=("plain", "init"), backend="cirq"):
    """Finite shots: estimate within the band of the exact value; reported variance / standard error within the band
    implied by the exact per-term expectations.  Fixed numpy seed.  Records with mid-circuit measurements are
    evaluated twice: post-selected on the recorded outcomes (desired_meas_result) and un-selected (the dephased
    mixture, exact per-term expectations SUM_b <psi_b|P|psi_b> from TLC)."""
    J = Judge(chk, rec, "SHOTS")
    c = J.case
    M = rec["M"]
    terms = rec["terms"]
    op = op_of(terms, M)
    cplx = is_complex_op(terms, M)
    p, val, var = exact_of(rec)
    sim, gen = sims_for(backend, n_shots)
    B = backend
    coefs = [to_complex(t["c"], M) for t in terms]
    cmax = max([abs(z) for z in coefs] + [0.])

    def seeded(f):
        def g():
            np.random.seed(seed)
            return f()
        return g

    def block(sel, des, val, es, n_eff):
        var = sum(abs(z) ** 2 * (1. - e * e) for z, e in zip(coefs, es)) if sel == "mixed" else exact_of(rec)[2]
        t_val = bernstein(var, n_eff, 2. * cmax)
        # reported variance: SUM |c|^2 (1 - Ehat^2) with every Ehat inside its own band
        vlo = vhi = 0.
        for z, e in zip(coefs, es):
            t = bernstein(1. - e * e, n_eff, 2.)
            a, b = max(-1., e - t), min(1., e + t)
            m2_max = max(a * a, b * b)
            m2_min = 0. if a <= 0. <= b else min(a * a, b * b)
            vlo += abs(z) ** 2 * (1. - m2_max)
            vhi += abs(z) ** 2 * (1. - m2_min)
        for tag in variants:
            circ, iv = c.variants[tag]
            kw = dict(initial_statevector=c.iv_for(sim, iv), desired_meas_result=des)
            if B != "cirq":
                kw.pop("desired_meas_result")
            exx = {"n_shots": n_shots, "seed": seed, "variant": tag, "variants": [tag], "selection": sel, "backend": B}
            if cplx:
                # complex estimate: both components inside the band
                key = J.key(B, "shots.get_expectation_value", tag, cplx, sel)
                J.n_eval += 1
                chk.add_traces(1, "SHOTS:shots.get_expectation_value")
                try:
                    np.random.seed(seed)
                    got = to_num(sim.get_expectation_value(op, circ, **kw))
                    if abs(got - val) > math.sqrt(2.) * t_val + 1e-9:
                        J.report(key, "sampled estimate %r outside the 6-sigma band (%.4g) around the exact %r" % (got, t_val, val), exx)
                except Exception as e:
                    J.report(key + ":exception", "%s: %s" % (type(e).__name__, str(e)[:200]), exx)
            else:
                J.call(J.key(B, "shots.get_expectation_value", tag, cplx, sel),
                       seeded(lambda: sim.get_expectation_value(op, circ, **kw)), None, "sampled get_expectation_value", exx,
                       band=(val.real - t_val, val.real + t_val))
                if sel == "nomeas" and circ.size > 0:
                    J.call(J.key(B, "shots.generic._get_expectation_value_from_statevector", tag, cplx, sel),
                           seeded(lambda: gen._get_expectation_value_from_statevector(op, circ, **kw)), None,
                           "sampled generic statevector route", exx, band=(val.real - t_val, val.real + t_val))
            J.call(J.key(B, "shots.get_variance", tag, cplx, sel),
                   seeded(lambda: sim.get_variance(op, circ, **kw)), None, "sampled get_variance", exx, band=(vlo, vhi))
            J.call(J.key(B, "shots.get_standard_error", tag, cplx, sel),
                   seeded(lambda: sim.get_standard_error(op, circ, **kw)), None, "sampled get_standard_error", exx,
                   band=(math.sqrt(max(vlo, 0.) / n_shots), math.sqrt(vhi / n_shots)))

    es = [to_complex(t["e"], M).real / p for t in terms]
    if c.des is None:
        block("nomeas", None, val, es, n_shots)
        # a sampled mean of n_shots outcomes +-1 lies on the lattice { (2k - n)/n }: an exact (unsampled) value does not
        nz = [(t, e) for t, e in zip(terms, es) if any(t["w"]) and abs(e) < 1. - 1e-9 and abs(e) > 1e-9]
        if nz:
            from tangelo.toolboxes.operators import QubitOperator
            t, e = nz[0]
            op1 = QubitOperator(term_of_word(t["w"]), 1.)
            circ, iv = c.variants[variants[0]]
            key = J.key(B, "shots.lattice.get_expectation_value", variants[0], False, "nomeas")
            tb = bernstein(1. - e * e, n_shots, 2.)

            def one():
                np.random.seed(seed)
                return sim.get_expectation_value(op1, circ, initial_statevector=c.iv_for(sim, iv))
            got = J.call(key, one, None, "sampled single-term get_expectation_value", {"n_shots": n_shots, "seed": seed,
                         "variants": list(variants), "backend": B}, band=(e - tb, e + tb))
            if got is not None:
                k = (got.real + 1.) * n_shots / 2.
                if abs(k - round(k)) > 1e-6:
                    J.report(key + ":not-a-sample-mean", "n_shots=%d: estimate %r is not of the form (2k-n)/n: it is not the mean of "
                             "n_shots sampled +-1 outcomes" % (n_shots, got), {"n_shots": n_shots, "seed": seed, "variants": list(variants), "backend": B})
        return J
    # un-selected: the mixture over all outcome strings
    block("mixed", None, to_complex(rec["mixnum"], M), [to_complex(t["mix"], M).real for t in terms], n_shots)
    # post-selected: only a Binomial(n, p_b) share of the shots survives
    n_eff = n_shots * p - (6. * math.sqrt(n_shots * p * (1 - p)) + 12.)
    if n_eff < 50:
        chk.inconclusive += 1
        return J
    block("meas", c.des, val, es, n_eff)
    return J


def judge_bigshots(chk, rec, n_shots, seed, word=None):
    """Very large shot counts around the slice boundary of Backend._statevector_to_frequencies (shots are drawn in
    slices of 10**7 and accumulated): on an exported state (exact amplitudes and exact <P> of every word from TLC)
    (1) simulate(): frequencies sum to 1 (1e-9), every frequency is a multiple of 1/n_shots, lies in the support and in
        the Bernstein band of the exact probability;
    (2) get_expectation_value of a single-term operator through the frequency route: band around the exact value and
        lattice test (the mean of n_shots outcomes +-1 is (2k - n)/n)."""
    from tangelo.toolboxes.operators import QubitOperator
    J = Judge(chk, rec, "BIGSHOTS")
    c = J.case
    M, n, p = rec["M"], rec["n"], c.p
    sim = cirq_sim(n_shots)
    circ, iv = c.variants["plain"]
    es = [to_complex(e, M).real / p for e in rec["ew"]]
    if word is None:
        # prefer a word that needs a basis rotation and has a non-trivial expectation value
        def score(j):
            w = [(j // 4 ** (n - 1 - q)) % 4 for q in range(n)]
            return (any(l in (1, 2) for l in w) and 1e-3 < abs(es[j]) < 1. - 1e-3, 1e-3 < abs(es[j]) < 1. - 1e-3, any(w), -j)
        word = max(range(4 ** n), key=score)
    ex = {"n_shots": n_shots, "seed": seed, "word": word}
    # ---- (1) the sampled histogram itself
    key = J.key("cirq", "bigshots.simulate", "plain", False, "nomeas")
    J.n_eval += 1
    chk.add_traces(1, "BIGSHOTS:bigshots.simulate")
    try:
        np.random.seed(seed)
        freqs, _ = sim.simulate(circ, initial_statevector=iv)
        freqs = {k: float(v) for k, v in freqs.items()}
    except Exception as e:
        J.report(key + ":exception", "simulate with n_shots=%d raised %s: %s" % (n_shots, type(e).__name__, str(e)[:200]), ex)
        freqs = None
    if freqs is not None:
        probs = {format(i, "0%db" % n): abs(to_complex(a, M)) ** 2 / p for i, a in enumerate(rec["psi"])}
        tot = sum(freqs.values())
        if abs(tot - 1.) > 1e-9:
            J.report(key + ":normalisation", "n_shots=%d: sampled frequencies sum to %r, not 1 (shots lost or counted twice)"
                     % (n_shots, tot), ex)
        for k in sorted(set(freqs) | set(probs)):
            f, pr = freqs.get(k, 0.), probs.get(k, 0.)
            if k not in probs or (pr < 1e-12 and f > 0.):
                J.report(key + ":support", "n_shots=%d: sampled outcome %r outside the exact support" % (n_shots, k), ex)
            elif abs(f * n_shots - round(f * n_shots)) > 1e-3:
                J.report(key + ":lattice", "n_shots=%d: frequency %r of %s is not a multiple of 1/n_shots" % (n_shots, f, k), ex)
            elif abs(f - pr) > bernstein(pr * (1. - pr), n_shots, 1.) + 1e-12:
                J.report(key, "n_shots=%d: frequency %r of %s outside the 6-sigma band of the exact probability %r"
                         % (n_shots, f, k, pr), ex)
    # ---- (2) single-term operator through the frequency route
    w = [(word // 4 ** (n - 1 - q)) % 4 for q in range(n)]
    e = es[word]
    op1 = QubitOperator(term_of_word(w), 1.)
    key = J.key("cirq", "bigshots.get_expectation_value", "plain", False, "nomeas")
    tb = bernstein(1. - e * e, n_shots, 2.)

    def one():
        np.random.seed(seed + 1)
        return sim.get_expectation_value(op1, circ, initial_statevector=iv)
    got = J.call(key, one, None, "n_shots=%d get_expectation_value(%s)" % (n_shots, term_of_word(w)), ex, band=(e - tb, e + tb))
    if got is not None and any(w):
        k = (got.real + 1.) * n_shots / 2.
        if abs(k - round(k)) > 1e-3:
            J.report(key + ":not-a-sample-mean", "n_shots=%d: estimate %r is not of the form (2k-n)/n: it is not the mean of "
                     "n_shots sampled +-1 outcomes" % (n_shots, got), ex)
    return J


# ------------------------------------------------------------------------------------------------
# the same spec operator rendered with every numeric coefficient type
# ------------------------------------------------------------------------------------------------
RENDERINGS = ("int", "float", "float32", "float64", "complex", "complex64", "complex128", "mixed-c64-first", "mixed-c64-last")


def render_op(terms, M, how):
    """QubitOperator for the spec operator `terms` with coefficient objects of the requested numeric type.
    Coefficients are Gaussian dyadic rationals: exactly representable in every type used (int only for integers).
    The coefficient objects are stored as they are (op.terms[...] = value): constructors / arithmetic may coerce types.
    Returns (operator, all_real_typed)."""
    from tangelo.toolboxes.operators import QubitOperator
    zs = [to_complex(t["c"], M) for t in terms]
    vals = []
    for i, z in enumerate(zs):
        real = (z.imag == 0.)
        if how in ("complex", "complex64", "complex128"):
            v = {"complex": complex, "complex64": np.complex64, "complex128": np.complex128}[how](z)
        elif how in ("mixed-c64-first", "mixed-c64-last"):
            v = float(z.real) if real else complex(z)
        elif not real:
            v = complex(z)
        elif how == "int":
            v = int(z.real) if float(z.real).is_integer() else float(z.real)
        else:
            v = {"float": float, "float32": np.float32, "float64": np.float64}[how](z.real)
        vals.append(v)
    order = list(range(len(terms)))
    if how.startswith("mixed") and terms:
        # one np.complex64-typed term (a genuinely complex one if there is any), placed first / last
        cand = [i for i, z in enumerate(zs) if z.imag != 0.] or [0]
        i0 = cand[0]
        vals[i0] = np.complex64(zs[i0])
        order.remove(i0)
        order = [i0] + order if how.endswith("first") else order + [i0]
    op = QubitOperator()
    for i in order:
        op.terms[term_of_word(terms[i]["w"])] = vals[i]
    all_real = not any(type(v) in (complex, np.complex64, np.complex128) for v in vals)
    return op, all_real


def judge_types(chk, rec, renderings=RENDERINGS):
    """Every exact route and the variance routes for every coefficient-type rendering of the record's operator."""
    J = Judge(chk, rec, "TYPES")
    c = J.case
    M = rec["M"]
    terms = rec["terms"]
    if not terms:
        return J
    p, val, var = exact_of(rec)
    des = c.des
    sim, gen = cirq_sim(), cirq_sim(generic=True)
    for how in renderings:
        tol = 1e-6 if ("32" in how or "64-" in how or how == "complex64") else TOL
        for tag in ("plain", "init"):
            circ, iv = c.variants[tag]
            kw = dict(initial_statevector=iv, desired_meas_result=des)
            op, all_real = render_op(terms, M, how)
            cplx = not all_real
            ex = {"variant": tag, "rendering": how}
            api = "types[%s]." % how
            J.call(J.key("cirq", api + "get_expectation_value", tag, cplx),
                   lambda: sim.get_expectation_value(op, circ, **kw), val, "get_expectation_value [%s coefficients]" % how, ex, tol=tol)
            J.call(J.key("cirq", api + "generic.get_expectation_value", tag, cplx),
                   lambda: gen.get_expectation_value(op, circ, **kw), val, "generic-route get_expectation_value [%s coefficients]" % how, ex, tol=tol)
            J.call(J.key("cirq", api + "get_variance", tag, cplx),
                   lambda: sim.get_variance(op, circ, **kw), var, "get_variance [%s coefficients]" % how, ex, tol=tol)
            J.call(J.key("cirq", api + "get_standard_error", tag, cplx),
                   lambda: sim.get_standard_error(op, circ, **kw), 0., "get_standard_error [%s coefficients]" % how, ex, tol=tol)
            if all_real:
                J.call(J.key("cirq", api + "_get_expectation_value_from_frequencies", tag, cplx),
                       lambda: sim._get_expectation_value_from_frequencies(op, circ, **kw), val,
                       "_get_expectation_value_from_frequencies [%s coefficients]" % how, ex, tol=tol)
                if circ.size > 0:
                    J.call(J.key("cirq", api + "_get_expectation_value_from_statevector", tag, cplx),
                           lambda: sim._get_expectation_value_from_statevector(op, circ, **kw), val,
                           "_get_expectation_value_from_statevector [%s coefficients]" % how, ex, tol=tol)
                J.call(J.key("cirq", api + "_get_variance_from_frequencies", tag, cplx),
                       lambda: sim._get_variance_from_frequencies(op, circ, **kw), var,
                       "_get_variance_from_frequencies [%s coefficients]" % how, ex, tol=tol)
    return J


# ------------------------------------------------------------------------------------------------
# histories: ONE backend instance, ONE operator object, ONE circuit object, updated in place between evaluations
# ------------------------------------------------------------------------------------------------
def hist_sims():
    """Dedicated instances used by all histories of a run (state kept by a backend object must not leak between calls)."""
    if "hist" not in _sims:
        from tangelo.linq.target.target_cirq import CirqSimulator
        _sims["hist"] = CirqSimulator()
    return _sims["hist"], cirq_sim(generic=True)


def set_terms_in_place(op, terms, M, via_compress=False):
    """Make the operator OBJECT equal to the spec operator `terms` by editing op.terms in place."""
    target = {term_of_word(t["w"]): to_complex(t["c"], M) for t in terms}
    target = {k: (z.real if z.imag == 0. else z) for k, z in target.items()}
    for k in list(op.terms):
        if k not in target:
            if via_compress:
                op.terms[k] = 1e-13          # removed by compress() below
            else:
                del op.terms[k]
    for k, z in target.items():
        op.terms[k] = z
    if via_compress:
        op.compress()


def judge_history(chk, rec, other=None):
    """In-place update histories.  Every step's exact value is the value TLC exported for the NEW spec operator /
    circuit (prefixes H_1..H_k of the AddTerm history, the scaled operators, the circuit with one angle changed);
    the cross-circuit step contracts the operator's coefficients with TLC's exact <P_w> of the other state."""
    from tangelo.toolboxes.operators import QubitOperator
    from ring import k_to_angle
    J = Judge(chk, rec, "HIST")
    c = J.case
    M, n = rec["M"], rec["n"]
    p = c.p
    sim, gen = hist_sims()
    des = c.des
    tag = "plain" if (len(rec["gates"]) + rec["n"]) % 2 else "init"
    circ, iv = c.variants[tag]                    # ONE circuit object
    kw = dict(initial_statevector=iv, desired_meas_result=des)
    op = QubitOperator()                          # ONE operator object
    ident = id(op)
    base_extra = {"variant": tag, "other": other}

    def evaluate(step, spec, pp=None, kwargs=None, circuit=None):
        """spec: {"num","varnum"} of the NEW operator/circuit (TLC); pp: its norm (defaults to the record's)."""
        pp = p if pp is None else pp
        kwargs = kw if kwargs is None else kwargs
        circuit = circ if circuit is None else circuit
        val = to_complex(spec["num"], M) / pp
        var = to_complex(spec["varnum"], M).real / (pp * pp)
        cplx = any(type(v) is complex for v in op.terms.values())
        sel = "meas" if kwargs.get("desired_meas_result") is not None else "nomeas"
        ex = dict(base_extra, step=step)
        J.call(J.key("cirq", "history[%s].get_expectation_value" % step, tag, cplx, sel),
               lambda: sim.get_expectation_value(op, circuit, **kwargs), val,
               "history step '%s': get_expectation_value on the SAME backend/operator objects" % step, ex)
        J.call(J.key("cirq", "history[%s].generic.get_expectation_value" % step, tag, cplx, sel),
               lambda: gen.get_expectation_value(op, circuit, **kwargs), val,
               "history step '%s': generic-route get_expectation_value" % step, ex)
        J.call(J.key("cirq", "history[%s].get_variance" % step, tag, cplx, sel),
               lambda: sim.get_variance(op, circuit, **kwargs), var,
               "history step '%s': get_variance on the SAME backend/operator objects" % step, ex)

    raw, prefixes = rec["raw"], rec["prefixes"]
    # (a) op += term, one AddTerm of the spec history at a time
    for k, t in enumerate(raw, 1):
        z = to_complex(t["c"], M)
        op += QubitOperator(term_of_word(t["w"]), z.real if z.imag == 0. else z)
        evaluate("iadd", prefixes[k - 1])
    # (b) op *= scalar (and back)
    op *= -0.5
    evaluate("imul", rec["half"])
    op *= -2.
    evaluate("imul-back", prefixes[-1])
    if is_complex_op(rec["terms"], M) or len(raw) % 2:
        op *= 1j
        evaluate("imul-i", rec["imag"])
        op *= -1j
        evaluate("imul-i-back", prefixes[-1])
    # (c) editing .terms / deleting terms / compress(): walk back through the spec history
    for k in range(len(raw) - 1, 0, -1):
        set_terms_in_place(op, prefixes[k - 1]["terms"], M, via_compress=(k % 2 == 0))
        evaluate("terms-edit-compress" if k % 2 == 0 else "terms-edit", prefixes[k - 1])
    # (d) the same operator object on a different circuit (state of another exported record), then back
    if other is not None:
        oc = Case(other)
        ocirc, oiv = oc.variants["plain"]
        ew = {tuple((j // 4 ** (n - 1 - q)) % 4 for q in range(n)): to_complex(e, M).real for j, e in enumerate(other["ew"])}
        # spec-structured contraction: coefficients of the current spec operator x TLC's exact <P_w> of the other state
        cur = prefixes[0]["terms"]
        num = sum(to_complex(t["c"], M) * ew[tuple(t["w"])] for t in cur)
        varn = sum(abs(to_complex(t["c"], M)) ** 2 * (oc.p ** 2 - ew[tuple(t["w"])] ** 2) for t in cur)
        val, var = num / oc.p, varn / oc.p ** 2
        okw = dict(initial_statevector=oiv, desired_meas_result=oc.des)
        cplx = any(type(v) is complex for v in op.terms.values())
        ex = dict(base_extra, step="other-circuit")
        J.call(J.key("cirq", "history[other-circuit].get_expectation_value", "plain", cplx, "meas" if oc.des is not None else "nomeas"),
               lambda: sim.get_expectation_value(op, ocirc, **okw), val,
               "history step 'other-circuit': same operator object, different circuit", ex)
        J.call(J.key("cirq", "history[other-circuit].get_variance", "plain", cplx, "meas" if oc.des is not None else "nomeas"),
               lambda: sim.get_variance(op, ocirc, **okw), var,
               "history step 'other-circuit': get_variance, same operator object, different circuit", ex)
        evaluate("back-to-circuit", prefixes[0])
    # (e) the same circuit object with a rotation angle updated in place
    set_terms_in_place(op, rec["terms"], M)
    evaluate("terms-restore", prefixes[-1])
    alt = rec["alt"]
    if alt["pos"] and to_complex(alt["p"], M).real > 1e-12:
        off = (len(rec["prep"]["prep"]) if (tag == "plain" and rec["src"] in ("generic", "one0")) else 0) + alt["pos"] - 1
        g = circ._gates[off]
        if g.name != rec["gates"][alt["pos"] - 1]["name"]:
            raise RuntimeError("history: gate index mismatch")
        old = g.parameter
        g.parameter = k_to_angle(alt["k"], M)
        evaluate("gate-parameter", alt, pp=to_complex(alt["p"], M).real)
        g.parameter = old
        evaluate("gate-parameter-back", prefixes[-1])
    if id(op) != ident:
        raise RuntimeError("history: the operator object was replaced")
    chk.add_eval(1, 1)
    return J


def judge_order_state(chk, rec, n_shots, seed):
    """Qubit-order conventions on msq_first backends, exact and sampled.  rec: an exported state without measurement
    (exact amplitudes and <P_w> of every word from TLC); the states used are NOT symmetric under reversal of the qubit
    order.  Outcome strings list qubit 0 first, whatever the backend's internal amplitude order.
      user-defined msq_first backend, n_shots in {None, finite}: simulate() frequencies (and the statevector, in the
      advertised order), every word through get_expectation_value / get_variance (finite shots: band + lattice);
      sympy (msq_first) with n_shots: the sampled path it supports (empty circuit + initial_statevector; I/Z words)."""
    from tangelo.linq import Circuit
    from tangelo.toolboxes.operators import QubitOperator
    J = Judge(chk, rec, "ORDER")
    c = J.case
    M, n, p = rec["M"], rec["n"], c.p
    probs = {format(i, "0%db" % n): abs(to_complex(a, M)) ** 2 / p for i, a in enumerate(rec["psi"])}
    es = [to_complex(e, M).real / p for e in rec["ew"]]
    words = [[(j // 4 ** (n - 1 - q)) % 4 for q in range(n)] for j in range(4 ** n)]
    ex0 = {"n_shots": n_shots, "seed": seed}

    def check_freqs(key, freqs, shots, ex):
        freqs = {k: float(to_num(v).real) for k, v in freqs.items()}
        tot = sum(freqs.values())
        if abs(tot - 1.) > 1e-9:
            J.report(key + ":normalisation", "frequencies sum to %r" % tot, ex)
        for k in sorted(set(freqs) | set(probs)):
            f, pr = freqs.get(k, 0.), probs.get(k, 0.)
            if k not in probs or (pr < 1e-12 and f > 1e-12):
                J.report(key + ":support", "outcome %r (qubit 0 first) has exact probability 0 but frequency %r" % (k, f), ex)
            elif shots is None and abs(f - pr) > TOL:
                J.report(key, "exact frequency of %s (qubit 0 first) is %r, exact probability %r" % (k, f, pr), ex)
            elif shots is not None and abs(f - pr) > bernstein(pr * (1. - pr), shots, 1.) + 1e-12:
                J.report(key, "n_shots=%d: frequency %r of %s (qubit 0 first) outside the 6-sigma band of %r" % (shots, f, k, pr), ex)

    for shots in (None, n_shots):
        sim = user_msq_sim(shots)
        pre = "order." if shots is None else "shots.order."
        for tag in ("plain", "init"):
            circ, iv = c.variants[tag]
            ivb = c.iv_for(sim, iv)
            ex = dict(ex0, variant=tag, shots=shots)
            key = J.key("usermsq", pre + "simulate", tag, False, "nomeas")
            J.n_eval += 1
            chk.add_traces(1, "ORDER:" + pre + "simulate")
            try:
                np.random.seed(seed)
                freqs, sv = sim.simulate(circ, return_statevector=True, initial_statevector=ivb)
            except Exception as e:
                J.report(key + ":exception", "simulate raised %s: %s" % (type(e).__name__, str(e)[:200]), ex)
            else:
                check_freqs(key, freqs, shots, ex)
                got = reorder([complex(x) for x in np.asarray(sv).ravel()], n)        # advertised msq_first -> spec order
                if max(abs(a - b) for a, b in zip(got, c.final)) > TOL:
                    J.report(key + ":statevector", "statevector (read in the advertised msq_first order) differs from the exact state", ex)
            for j, w in enumerate(words):
                if shots is not None and not (any(w) and (j % 3 == seed % 3 or not any(l in (1, 2) for l in w))):
                    continue                  # finite shots: every I/Z word and a third of the others
                e = es[j]
                op = QubitOperator(term_of_word(w), 1.)
                exw = dict(ex, word=j)
                kw = dict(initial_statevector=ivb)
                if shots is None:
                    J.call(J.key("usermsq", pre + "get_expectation_value", tag, False, "nomeas"),
                           lambda: sim.get_expectation_value(op, circ, **kw), e, "get_expectation_value(%s)" % (term_of_word(w),), exw)
                    J.call(J.key("usermsq", pre + "_get_expectation_value_from_frequencies", tag, False, "nomeas"),
                           lambda: sim._get_expectation_value_from_frequencies(op, circ, **kw), e,
                           "_get_expectation_value_from_frequencies(%s)" % (term_of_word(w),), exw)
                    J.call(J.key("usermsq", pre + "get_variance", tag, False, "nomeas"),
                           lambda: sim.get_variance(op, circ, **kw), 1. - e * e, "get_variance(%s)" % (term_of_word(w),), exw)
                else:
                    tb = bernstein(1. - e * e, shots, 2.)

                    def one():
                        np.random.seed(seed + j)
                        return sim.get_expectation_value(op, circ, **kw)

                    def onev():
                        np.random.seed(seed + j)
                        return sim.get_variance(op, circ, **kw)
                    got = J.call(J.key("usermsq", pre + "get_expectation_value", tag, False, "nomeas"), one, None,
                                 "n_shots=%d get_expectation_value(%s)" % (shots, term_of_word(w)), exw, band=(e - tb, e + tb))
                    if got is not None and abs((got.real + 1.) * shots / 2. - round((got.real + 1.) * shots / 2.)) > 1e-6:
                        J.report(J.key("usermsq", pre + "get_expectation_value", tag, False, "nomeas") + ":not-a-sample-mean",
                                 "estimate %r is not the mean of %d outcomes +-1" % (got, shots), exw)
                    a, b = max(-1., e - tb), min(1., e + tb)
                    vhi = 1. - (0. if a <= 0. <= b else min(a * a, b * b))
                    vlo = 1. - max(a * a, b * b)
                    J.call(J.key("usermsq", pre + "get_variance", tag, False, "nomeas"), onev, None,
                           "n_shots=%d get_variance(%s)" % (shots, term_of_word(w)), exw, band=(vlo, vhi))
    # ---- sympy, sampled: the path it supports (Backend.simulate's empty-circuit shortcut samples the supplied statevector)
    if n <= 2 or rec["src"] == "one0":
        key_s = ("sympy", n_shots)
        if key_s not in _sims:
            from tangelo.linq import get_backend
            _sims[key_s] = get_backend("sympy", n_shots=n_shots)
        sym = _sims[key_s]
        empty = Circuit(n_qubits=n)
        # a flat numpy vector in the advertised msq_first order: the empty-circuit shortcut samples it directly (the column
        # vector that sympy's own simulate_circuit needs breaks the sampler: part of the sympy frequency-route finding)
        fin = np.array(reorder(list(c.final), n), dtype=complex)
        ex = dict(ex0, variant="empty", shots=n_shots, sympy_frequency_route=True)
        key = J.key("sympy", "shots.order.simulate", "empty-circuit", False, "nomeas")
        J.n_eval += 1
        chk.add_traces(1, "ORDER:sympy.shots.order.simulate")
        try:
            np.random.seed(seed)
            freqs, _ = sym.simulate(empty, initial_statevector=fin)
        except Exception as e:
            J.report("sympy:frequency-route:exception:" + key[len("sympy:"):], "simulate raised %s: %s" % (type(e).__name__, str(e)[:200]), ex)
        else:
            check_freqs(key, freqs, n_shots, ex)
        for j, w in enumerate(words):
            if not any(w) or any(l in (1, 2) for l in w):
                continue
            e = es[j]
            op = QubitOperator(term_of_word(w), 1.)
            tb = bernstein(1. - e * e, n_shots, 2.)

            def ones():
                np.random.seed(seed + j)
                return sym.get_expectation_value(op, empty, initial_statevector=fin)
            J.call(J.key("sympy", "shots.order.get_expectation_value", "empty-circuit", False, "nomeas"), ones, None,
                   "sympy n_shots=%d get_expectation_value(%s) on empty circuit + initial_statevector" % (n_shots, term_of_word(w)),
                   dict(ex, word=j), band=(e - tb, e + tb))
    chk.add_eval(1, 1)
    return J


class Collector:
    """Minimal stand-in for check.Check inside a worker process: collects reports, writes nothing."""

    def __init__(self):
        self.violations, self.cov, self.inconclusive, self.traces = [], {"parts": {}}, 0, 0

    def match_known(self, key):
        return None

    def violation(self, key, detail, case):
        self.violations.append((key, detail, case))

    def add_traces(self, n, part=None):
        self.traces += n


def _bigshots_worker(args):
    rec, n_shots, seed = args
    col = Collector()
    judge_bigshots(col, rec, n_shots, seed)
    return col.violations, col.traces


def judge_state(chk, rec, words=None, tag="plain"):
    """ST record: every Pauli word as a single-term operator through the three exact routes."""
    from tangelo.toolboxes.operators import QubitOperator
    J = Judge(chk, rec, "ST")
    c = J.case
    M, n = rec["M"], rec["n"]
    p = c.p
    sim, gen = cirq_sim(), cirq_sim(generic=True)
    circ, iv = c.variants[tag]
    kw = dict(initial_statevector=iv, desired_meas_result=c.des)
    idx = range(4 ** n) if words is None else words
    for j in idx:
        w = [(j // 4 ** (n - 1 - q)) % 4 for q in range(n)]
        e = to_complex(rec["ew"][j], M).real / p
        op = QubitOperator(term_of_word(w), 1.)
        ex = {"variant": tag, "word": j}
        J.call(J.key("cirq", "word.get_expectation_value", tag, False),
               lambda: sim.get_expectation_value(op, circ, **kw), e, "get_expectation_value(%s)" % (term_of_word(w),), ex)
        J.call(J.key("cirq", "word._get_expectation_value_from_frequencies", tag, False),
               lambda: sim._get_expectation_value_from_frequencies(op, circ, **kw), e,
               "_get_expectation_value_from_frequencies(%s)" % (term_of_word(w),), ex)
        J.call(J.key("cirq", "word.generic.get_expectation_value", tag, False),
               lambda: gen.get_expectation_value(op, circ, **kw), e,
               "generic-route get_expectation_value(%s)" % (term_of_word(w),), ex)
        J.call(J.key("cirq", "word.get_variance", tag, False),
               lambda: sim.get_variance(op, circ, **kw), 1. - e * e, "get_variance(%s)" % (term_of_word(w),), ex)
    # the public one-term helpers on the exact outcome distribution of the state itself (I/Z words need no rotation)
    if tag == "plain":
        from tangelo.linq.target.backend import (get_expectation_value_from_frequencies_oneterm as f_exp,
                                                 get_variance_from_frequencies_oneterm as f_var)
        freqs = {format(i, "0%db" % n): abs(to_complex(a, M)) ** 2 / p for i, a in enumerate(rec["psi"])}
        freqs = {k: v for k, v in freqs.items() if v > 0.}
        for j in idx:
            w = [(j // 4 ** (n - 1 - q)) % 4 for q in range(n)]
            if any(l in (1, 2) for l in w):
                continue
            e = to_complex(rec["ew"][j], M).real / p
            ex = {"variant": tag, "word": j}
            J.call(J.key("cirq", "oneterm.get_expectation_value_from_frequencies_oneterm", tag, False, "nomeas"),
                   lambda: f_exp(term_of_word(w), freqs), e, "get_expectation_value_from_frequencies_oneterm(%s)" % (term_of_word(w),), ex)
            J.call(J.key("cirq", "oneterm.get_variance_from_frequencies_oneterm", tag, False, "nomeas"),
                   lambda: f_var(term_of_word(w), freqs), 1. - e * e, "get_variance_from_frequencies_oneterm(%s)" % (term_of_word(w),), ex)
    chk.add_eval(1, 1 if rec["gates"] else 0)
    return J


# ------------------------------------------------------------------------------------------------
# V: measurement_basis_gates
# ------------------------------------------------------------------------------------------------
def basis_gate_jobs(M, nmax):
    from tangelo.linq.helpers.circuits.measurement_basis import measurement_basis_gates
    jobs = []
    for n in range(1, nmax + 1):
        for w in itertools.product(range(4), repeat=n):
            gl = measurement_basis_gates(term_of_word(w))
            jobs.append({"id": len(jobs) + 1, "n": n, "w": list(w), "gates": gates_to_json(gl, M)})
    return jobs


def v_part(chk, M):
    try:
        jobs = basis_gate_jobs(M, 3)
    except OffGrid as e:
        chk.inconclusive += 1
        chk.spec_drift("measurement_basis_gates emits an angle off the 2pi/%d grid: %s" % (M, e))
        return
    # negative / positive controls of the trace spec itself
    ctl = []
    # (built from fixed gate lists, independent of what the code emitted)
    base = {"id": 0, "n": 2, "w": [1, 2], "gates": [{"name": "RY", "t": [0], "c": [], "k": -(M // 4)},
                                                     {"name": "RX", "t": [1], "c": [], "k": M // 4}]}
    c1 = copy.deepcopy(base); c1["id"] = 10 ** 6 + 1; c1["gates"][0]["k"] = -c1["gates"][0]["k"]        # RY(+pi/2): wrong
    c2 = copy.deepcopy(base); c2["id"] = 10 ** 6 + 2; c2["gates"][1]["k"] = -c2["gates"][1]["k"]        # RX(-pi/2): wrong
    c3 = copy.deepcopy(base); c3["id"] = 10 ** 6 + 3; c3["gates"] = c3["gates"][::-1]                    # reordered: equivalent
    c4 = copy.deepcopy(base); c4["id"] = 10 ** 6 + 4                                                    # X via H: equivalent
    c4["gates"][0] = {"name": "H", "t": [0], "c": [], "k": 0}
    c5 = copy.deepcopy(base); c5["id"] = 10 ** 6 + 5; c5["gates"][0]["t"] = [1]; c5["gates"][1]["t"] = [0]  # swapped qubits
    ctl = [c1, c2, c3, c4, c5]
    c6 = copy.deepcopy(base); c6["id"] = 10 ** 6 + 6                                                    # the model itself
    ctl.append(c6)
    want = {c1["id"]: "wrong", c2["id"]: "wrong", c3["id"]: "equivalent", c4["id"]: "equivalent", c5["id"]: "wrong",
            c6["id"]: "same"}
    verdicts, results = tlc.judge("C02Trace", jobs + ctl, "c02/v", {"M": M}, max_parallel=4)
    for r in results:
        chk.add_tlc(r)
    bad = {i: verdicts[i] for i in want if verdicts[i] != want[i]}
    if bad:
        raise tlc.TLCError("binding failure: C02Trace controls judged %s, expected %s" % (bad, want))
    cnt = {}
    for j in jobs:
        v = verdicts[j["id"]]
        cnt[v] = cnt.get(v, 0) + 1
        chk.add_traces(1, "V_basis_gates")
        if v == "model-wrong":
            raise tlc.TLCError("algorithm model BasisGates is not a valid basis change for %s" % j["w"])
        if v != "same":
            chk.spec_drift("measurement_basis_gates(%s) differs from the algorithm model BasisGates: TLC verdict '%s' (gates %s)"
                           % (term_of_word(j["w"]), v, j["gates"]))
    chk.part("V_basis_gates", verdicts=cnt, controls=len(ctl))


# ------------------------------------------------------------------------------------------------
# negative controls of the G binding: seeded in-process faults must be reported
# ------------------------------------------------------------------------------------------------
def negative_controls(chk, bhs, sts):
    import tangelo.linq.target.backend as B
    from tangelo.linq import Gate

    def bad_basis(term):
        gates = []
        for q, pl in term:
            if pl == "X":
                gates.append(Gate("RY", q, parameter=np.pi / 2))
            elif pl == "Y":
                gates.append(Gate("RX", q, parameter=np.pi / 2))
        return gates

    def bad_parity(term, frequencies):
        n_q = len(next(iter(frequencies)))
        tot = 0.
        for bs, f in frequencies.items():
            tot += f * (-1) ** sum(int(bs[n_q - 1 - i]) for i, _ in term)
        return tot
    res = {}
    gen_st = [r for r in sts if r["src"] == "generic" and r["n"] >= 2][:3]
    some_bh = [r for r in bhs if r["src"] == "generic" and r["n"] >= 2 and r["nmeas"] == 0][:6]
    for name, attr, repl in (("basis_sign", "measurement_basis_gates", bad_basis),
                             ("parity_mask_reversed", "get_expectation_value_from_frequencies_oneterm", bad_parity)):
        c2 = check.Check(PID + "ctl", ["quick"])
        c2.known = []
        orig = getattr(B, attr)
        setattr(B, attr, repl)
        try:
            for r in gen_st:
                judge_state(c2, r)
            for r in some_bh:
                judge_behaviour(c2, r)
        finally:
            setattr(B, attr, orig)
        res[name] = len(c2.violations)
    # a corrupted expected value must be reported as well (comparison is live)
    c3 = check.Check(PID + "ctl", ["quick"])
    c3.known = []
    for r in some_bh[:2]:
        r2 = copy.deepcopy(r)
        r2["num"] = copy.deepcopy(r2["num"])
        r2["num"]["c"][0] += 1
        judge_behaviour(c3, r2)
    res["corrupted_exact_value"] = len(c3.violations)
    # clean up replay files written by the scratch checks (they share the numbering of the real check)
    chk.part("negative_controls", **res)
    if not all(v > 0 for v in res.values()):
        raise tlc.TLCError("binding failure: seeded faults not reported: %s" % res)


# ------------------------------------------------------------------------------------------------
def attach(recs, r, M):
    preps = r.prints("PREP")
    for rec in recs:
        rec["M"] = M
        rec["prep"] = ({"prep": preps[0]["prep"], "s0": preps[0]["s0"]} if rec["src"] == "generic" else
                       {"prep": preps[0]["prep1"], "s0": preps[0]["s1"]} if rec["src"] == "one0" else None)
    return recs


def tlc_phase(chk):
    """S (model checking) and generation.  Returns (ST records, BH records)."""
    quick = chk.quick
    # ---------------- S + G(ST): exhaustive exploration ------------------------------------------------
    #           (M, N, depth, max measurements, workers)
    bfs_plan = [(8, 1, 3, 2, 1, "SrcBoth"), (8, 2, 3, 1, 6, "SrcBoth"), (8, 3, 1, 1, 2, "SrcBoth")]
    if not quick:
        bfs_plan = [(8, 3, 2, 1, 8, "SrcBoth"), (8, 2, 4, 1, 8, "SrcBoth"), (8, 2, 3, 2, 6, "SrcBoth"), (8, 1, 4, 2, 1, "SrcBoth"),
                    (16, 1, 3, 1, 1, "SrcBoth"), (16, 2, 2, 1, 4, "SrcBoth")]
    # |10..0>: not symmetric under reversal of the qubit order
    bfs_plan += [(8, 3, 1, 0, 1, "SrcOne"), (8, 2, 1, 0, 1, "SrcOne")]
    jobs = []
    cov_idx = next(i for i, pl in enumerate(bfs_plan) if pl[0] == 8 and pl[1] == 1)     # -coverage on the cheapest run
    for i, (m, N, D, MM, wk, src) in enumerate(bfs_plan):
        jobs.append(dict(module="C02Expect", cfg=bfs_cfg(m, N, D, MM, src), name="c02/bfs_M%d_N%d_D%d_%s" % (m, N, D, src),
                         workers=wk, coverage=(i == cov_idx), heap="6g", timeout=7200))
    # ---------------- G(BH): behaviours with operators (tlc -simulate) ------------------------------------
    #           (M, N, depth, terms, max meas, sources, depth choices, num)
    nb = 1 if quick else 8
    sim_plan = [(8, 1, 3, 3, 1, "SrcBoth", "DepthAll", 30 * nb),
                (8, 2, 3, 4, 2, "SrcGeneric", "DepthAll", 60 * nb),
                (8, 2, 4, 4, 2, "SrcZero", "DepthOnlyMax", 40 * nb),
                (8, 3, 3, 4, 2, "SrcGeneric", "DepthAll", 60 * nb),
                (8, 3, 4, 5, 2, "SrcZero", "DepthOnlyMax", 40 * nb),
                (8, 3, 2, 5, 1, "SrcGeneric", "DepthAll", 40 * nb),
                (8, 3, 1, 4, 0, "SrcOne", "DepthAll", 16 * nb),
                (8, 2, 1, 3, 0, "SrcOne", "DepthAll", 8 * nb)]
    if not quick:
        sim_plan += [(16, 1, 3, 3, 1, "SrcBoth", "DepthAll", 100), (16, 2, 3, 4, 1, "SrcBoth", "DepthAll", 200)]
    sims, sim_meta = [], []
    splits = 1 if quick else 4          # several JVMs (different seeds) per entry: -simulate is single threaded here
    for i, (m, N, D, T, MM, src, dc, num) in enumerate(sim_plan):
        for sp in range(splits):
            sims.append(dict(module="C02Expect", cfg=sim_cfg(m, N, D, T, MM, src, dc),
                             name="c02/sim_%d_%d_M%d_N%d" % (i, sp, m, N), workers=1, simulate="num=%d" % (num // splits),
                             depth=D + T + 3, seed=chk.seed + 101 * (i + 1) + 7919 * sp, timeout=7200))
            sim_meta.append((m, N, D, T, MM, src, dc, num // splits))
    results = tlc.run_many(jobs + sims, max_parallel=int(os.environ.get("VERIF_MAXPAR", "16")))
    bfs, simres = results[:len(jobs)], results[len(jobs):]
    sts = []
    for (m, N, D, MM, wk, src), r in zip(bfs_plan, bfs):
        if not r.ok:
            raise tlc.TLCError("C02Expect: an algorithm model disagrees with the exact semantics (spec-level): %s\n%s"
                               % (r.violated, r.out[-2000:]))
        part = "S_bfs_M%d_N%d_D%d%s" % (m, N, D, "" if src == "SrcBoth" else "_" + src)
        chk.add_tlc(r, part)
        recs = attach(r.prints("ST"), r, m)
        chk.part(part, exported_states=len(recs))
        sts += recs
    cov = bfs[cov_idx].coverage_counts()
    acts = {a: cov.get(a, (0, 0))[1] for a in ("GateStep", "MeasStep")}
    chk.part("coverage_actions_bfs", **acts)
    if not all(acts.values()):
        raise tlc.TLCError("vacuity: action never taken in the exhaustive run: %s" % acts)
    bhs = []
    for (m, N, D, T, MM, src, dc, num), r in zip(sim_meta, simres):
        if not r.ok:
            raise tlc.TLCError("C02Expect (simulate): spec-level invariant violated: %s\n%s" % (r.violated, r.out[-2000:]))
        recs = attach(r.prints("BH"), r, m)
        pn = "G_sim_M%d_N%d_%s_D%d" % (m, N, src, D)
        prev = chk.cov["parts"].get(pn, {})
        chk.part(pn, behaviours=prev.get("behaviours", 0) + len(recs), tlc_wall_s=round(max(prev.get("tlc_wall_s", 0), r.wall), 1))
        if len(recs) < num:
            raise tlc.TLCError("simulate run exported %d < %d behaviours" % (len(recs), num))
        bhs += recs
    chk.part("G_behaviours", total=len(bhs), with_measurement=sum(1 for b in bhs if b["nmeas"]),
             complex_operator=sum(1 for b in bhs if is_complex_op(b["terms"], b["M"])),
             with_identity_term=sum(1 for b in bhs if any(not any(t["w"]) for t in b["terms"])),
             action_AddTerm=sum(len(b["raw"]) for b in bhs), action_Finish=len(bhs))
    if not any(b["nmeas"] for b in bhs) or not any(is_complex_op(b["terms"], b["M"]) for b in bhs):
        raise tlc.TLCError("vacuity: no behaviour with measurement / complex operator generated")

    return sts, bhs


def run(chk):
    import time
    rng = random.Random(chk.seed)
    quick = chk.quick
    M = 8
    t0 = time.time()
    timing = {}
    # ---------------- S + generation (TLC) ----------------------------------------------------------------
    # VERIF_C02_CACHE: development aid for mutation experiments only (TLC's output does not depend on the
    # implementation); the registered commands never set it.
    cache = os.environ.get("VERIF_C02_CACHE")
    cfile = os.path.join(cache, "tlc_%s_%d.json" % (chk.tier, chk.seed)) if cache else None
    if cfile and os.path.exists(cfile):
        with open(cfile) as f:
            sts, bhs = json.load(f)
        chk.part("dev_cache", used=cfile)
        chk.notes.append("TLC phase taken from the development cache")
    else:
        sts, bhs = tlc_phase(chk)
        if cfile:
            os.makedirs(cache, exist_ok=True)
            with open(cfile, "w") as f:
                json.dump([sts, bhs], f)
    # canonical order (TLC's print order depends on worker scheduling): seeded sampling must not depend on it
    sts.sort(key=lambda r: (r["M"], r["n"], r["src"], r["nmeas"], len(r["gates"]), json.dumps(r["psi"])))
    timing["tlc_S_and_generation_s"] = round(time.time() - t0, 1)
    # very large shot counts around the 10**7 slice boundary of the sampler: ~5-10 s each, run in worker processes
    # next to the V part and the behaviour replay (inputs and seeds are fixed here, results are collected below)
    import concurrent.futures as cf
    import multiprocessing as mp
    big = [10 ** 7, 2 * 10 ** 7] if quick else [10 ** 7 - 1, 10 ** 7, 10 ** 7 + 1, 2 * 10 ** 7, 12 * 10 ** 6]
    cands = [r for r in sts if r["M"] == 8 and r["n"] <= 2 and r["nmeas"] == 0 and r["src"] == "generic" and r["gates"]]
    big_jobs = [(rng.choice(cands), nb, rng.randrange(2 ** 31)) for nb in big]
    big_pool = cf.ProcessPoolExecutor(max_workers=2 if quick else 3, mp_context=mp.get_context("fork"))
    big_futs = [big_pool.submit(_bigshots_worker, j) for j in big_jobs]

    # ---------------- V ---------------------------------------------------------------------------------
    t1 = time.time()
    v_part(chk, M)
    timing["V_s"] = round(time.time() - t1, 1)
    t1 = time.time()

    # ---------------- G: replay ---------------------------------------------------------------------------
    # behaviours: every exact route
    # sympy is symbolic and slow: a seeded sample, mostly two-qubit behaviours (operator qubit order matters there)
    cand2 = [i for i, b in enumerate(bhs) if b["nmeas"] == 0 and b["n"] == 2]
    cand1 = [i for i, b in enumerate(bhs) if b["nmeas"] == 0 and b["n"] == 1]
    n2, n1 = (8, 2) if quick else (50, 10)
    sy_set = set(rng.sample(cand2, min(n2, len(cand2))) + rng.sample(cand1, min(n1, len(cand1))))
    for i, rec in enumerate(bhs):
        judge_behaviour(chk, rec, sympy_too=(i in sy_set))
    chk.part("sympy", behaviours=len(sy_set))
    timing["replay_behaviours_s"] = round(time.time() - t1, 1)
    t1 = time.time()
    # finite shots
    shot_recs = [b for b in bhs if b["terms"] and b["gates"]]
    plain = [b for b in shot_recs if not b["nmeas"]]
    meas = [b for b in shot_recs if b["nmeas"] and b["n"] <= 2]
    n_plain, n_meas = (40, 3) if quick else (400, 25)
    for rec in rng.sample(plain, min(n_plain, len(plain))):
        judge_shots(chk, rec, rng.choice([1000, 20000]), rng.randrange(2 ** 31))
    for rec in rng.sample(meas, min(n_meas, len(meas))):
        judge_shots(chk, rec, 500, rng.randrange(2 ** 31), variants=(rng.choice(["plain", "init"]),))
    timing["replay_shots_s"] = round(time.time() - t1, 1)
    t1 = time.time()
    # the same operator in every numeric coefficient type; in-place update histories
    cx = [b for b in bhs if b["terms"] and is_complex_op(b["terms"], b["M"])]
    rl = [b for b in bhs if b["terms"] and not is_complex_op(b["terms"], b["M"])]
    n_ty = 20 if quick else 120
    ty = rng.sample(cx, min(n_ty, len(cx))) + rng.sample(rl, min(n_ty, len(rl)))
    for rec in ty:
        judge_types(chk, rec)
    chk.part("coefficient_types", behaviours=len(ty), renderings=list(RENDERINGS))
    timing["replay_types_s"] = round(time.time() - t1, 1)
    t1 = time.time()
    by_n = {}
    for r in sts:
        if r["gates"]:
            by_n.setdefault((r["M"], r["n"]), []).append(r)
    hs = rng.sample(bhs, min(120 if quick else 700, len(bhs)))
    for rec in hs:
        pool = by_n.get((rec["M"], rec["n"]))
        judge_history(chk, rec, other=rng.choice(pool) if pool else None)
    chk.part("histories", behaviours=len(hs), with_gate_parameter_update=sum(1 for r in hs if r["alt"]["pos"]),
             note="cross-circuit step: coefficients contracted with TLC's exact <P_w> of the other state (spec-structured contraction)")
    timing["replay_histories_s"] = round(time.time() - t1, 1)
    t1 = time.time()
    # qubit-order conventions: user-defined msq_first backend (exact + sampled) and sympy's sampled path, on states that
    # are not symmetric under reversal of the qubit order
    oc = [r for r in sts if r["nmeas"] == 0 and r["M"] == 8 and r["n"] >= 2]
    one_d0 = [r for r in oc if r["src"] == "one0" and not r["gates"]]
    one_dx = [r for r in oc if r["src"] == "one0" and r["gates"]]
    gen_x = [r for r in oc if r["src"] == "generic"]
    k1, k2 = (3, 5) if quick else (25, 50)
    osel = one_d0 + rng.sample(one_dx, min(k1, len(one_dx))) + rng.sample(gen_x, min(k2, len(gen_x)))
    if not one_d0:
        raise tlc.TLCError("vacuity: the |10..0> states were not exported")
    for rec in osel:
        judge_order_state(chk, rec, 2000, rng.randrange(2 ** 31))
    mb = [b for b in bhs if b["nmeas"] == 0 and b["n"] >= 2 and b["src"] in ("generic", "one0") and b["terms"]]
    mb = rng.sample(mb, min(30 if quick else 300, len(mb)))
    for rec in mb:
        judge_behaviour(chk, rec, backend="usermsq")
        if rec["gates"]:
            judge_shots(chk, rec, rng.choice([1000, 20000]), rng.randrange(2 ** 31), backend="usermsq")
    chk.part("msq_first_backends", states=len(osel), behaviours=len(mb),
             note="user-defined Backend subclass advertising msq_first (cirq under the hood) + sympy sampled path")
    timing["replay_msq_first_s"] = round(time.time() - t1, 1)
    t1 = time.time()
    # collect the large-shot cases started above
    for fut in big_futs:
        viol, ntr = fut.result()
        chk.add_traces(ntr, "BIGSHOTS")
        for key, detail, case in viol:
            if chk.match_known(key) is None:
                cnt = chk.cov["parts"].setdefault("violations_by_key", {})
                cnt[key] = cnt.get(key, 0) + 1
                if cnt[key] > 2 or len(chk.violations) >= 48:
                    continue
            chk.violation(key, detail, case)
    big_pool.shutdown()
    chk.part("bigshots", n_shots=big)
    timing["replay_bigshots_s"] = round(time.time() - t1, 1)
    t1 = time.time()
    # states x every word
    by = {}
    for rec in sts:
        by.setdefault((rec["M"], rec["n"], rec["src"], len(rec["gates"]), rec["nmeas"]), []).append(rec)
    per = {1: 4, 2: 3, 3: 1} if quick else {1: 40, 2: 40, 3: 12}
    n_st = 0
    for key in sorted(by):
        lst = by[key]
        for rec in rng.sample(lst, min(per[key[1]], len(lst))):
            judge_state(chk, rec, tag=("plain", "init")[n_st % 2])
            n_st += 1
    chk.part("G_states", exported=len(sts), replayed_all_words=n_st)
    timing["replay_states_s"] = round(time.time() - t1, 1)
    t1 = time.time()
    # ---------------- negative controls -------------------------------------------------------------------
    negative_controls(chk, bhs, sts)
    timing["negative_controls_s"] = round(time.time() - t1, 1)
    chk.part("timing", **timing)

    b = bhs[len(bhs) // 2]
    chk.sample({"behaviour": {k: b[k] for k in ("n", "src", "gates", "terms", "num", "p", "varnum")}})
    s = sts[len(sts) // 2]
    chk.sample({"state": {k: s[k] for k in ("n", "src", "gates", "p")}, "ew_first4": s["ew"][:4]})
    chk.cov["rule"] = ("TLC explores C02Expect exhaustively (every reachable state x every Pauli word: algorithm models of the "
                       "frequency / variance / overlap routes = exact semantics) and samples behaviours with operators "
                       "(-simulate); each exported state/behaviour is evaluated through every route of the real code and "
                       "compared with TLC's exact value; non-trivial = non-empty circuit and a non-identity term")
    chk.assumptions += ["states on the ring Z[zeta_8][1/2] (thorough: also zeta_16): circuits over {H,T,S,RX,RY(pi/2),CNOT,CRZ(pi/2)} "
                        "from |0..0> and from a fixed generic entangled state; coefficients Gaussian dyadic rationals",
                        "float comparison 1e-9 between TLC's exact numbers (numerator/denominator divided in the driver) and "
                        "the backend's float result",
                        "finite shots: Bernstein band 6 sqrt(Var1/n) + 24 max|c|/n under a fixed numpy seed (a band, not a "
                        "distributional test)"]


def replay(chk, rec):
    case = rec["case"]
    c2 = check.Check(PID + "ctl", ["quick"])
    c2.known = []
    kind = case["kind"]
    bk = "usermsq" if rec["key"].startswith("usermsq") else "cirq"
    if kind == "BH":
        J = judge_behaviour(c2, case["rec"], sympy_too=rec["key"].startswith("sympy"), backend=bk)
    elif kind == "ORDER":
        J = judge_order_state(c2, case["rec"], case["n_shots"], case["seed"])
    elif kind == "ST":
        J = judge_state(c2, case["rec"], words=[case["word"]] if "word" in case else None, tag=case.get("variant", "plain"))
    elif kind == "TYPES":
        J = judge_types(c2, case["rec"], renderings=[case["rendering"]] if "rendering" in case else RENDERINGS)
    elif kind == "HIST":
        J = judge_history(c2, case["rec"], other=case.get("other"))
    elif kind == "BIGSHOTS":
        J = judge_bigshots(c2, case["rec"], case["n_shots"], case["seed"], word=case.get("word"))
    elif kind == "SHOTS":
        J = judge_shots(c2, case["rec"], case["n_shots"], case["seed"], variants=tuple(case.get("variants", ("plain", "init"))),
                        backend=case.get("backend", "cirq"))
    else:
        print(rec)
        return False
    for k, d, _ in c2.violations:
        print("  %s: %s" % (k, d))
    same = [k for k in J.fails if k == rec["key"]]
    print("recorded key %s: %s" % (rec["key"], "reproduced" if same else "not reproduced"))
    return not same


if __name__ == "__main__":
    check.main(PID, run, replay)
