#!/venv/bin/python
"""C03 - fermion-to-qubit encodings are faithful representations.

S: spec/C03Encodings.tla - the law checker (C03Defs: CAR, multiplicative-linear extension, product/adjoint/linearity laws,
   power-trace spectrum test, documented combinatorial index) is validated on the spec's own Jordan-Wigner and Fock model.
V: spec/C03Trace.tla - operators recorded from fermion_to_qubit_mapping / combinatorial are judged by TLC:
   JW, BK, JKMN  : CAR on all ladder images; every product of two ladder operators (exhaustive), sampled 3-4-fold products,
                   integer combinations, the identity, operators away from the highest mode, n_spinorbitals omitted (JW) must be
                   the multiplicative-linear extension of the recorded ladder images; laws on independently recorded triples;
                   direct spectrum test on sampled Hermitian operators; both orderings.
   scBK          : product / adjoint / linearity / unit laws on the same-spin excitation generators, parity operators mapped to
                   (-1)^n_alpha, (-1)^n_beta, (-1)^N; direct spectrum test on the parity sector; all admissible (n_e, spin).
   HCB, combinatorial : spectrum of the code's qubit operator vs the Fock matrix on the paired space / (n_alpha, n_beta) sector
                   for seeded integer-integral molecular Hamiltonians built through SecondQuantizedMolecule.fermionic_hamiltonian.
"""
import copy
import itertools
import os
import random
import sys
import warnings

sys.path.insert(0, os.path.join(os.path.dirname(os.path.abspath(__file__)), "..", "harness"))
import check  # noqa: E402
import tlc  # noqa: E402
from enc import qubit_op_to_json, OffGrid  # noqa: E402
from ring import gauss_dyadic  # noqa: E402

warnings.filterwarnings("ignore")
M = 8
RECS_PER_JOB = 40
JVMS = int(os.environ.get("VERIF_JVMS", "16"))


# =====================================================================================================================
# codecs
# =====================================================================================================================
def ring(z):
    c = gauss_dyadic(z, M)
    if c is None:
        raise OffGrid("coefficient %r not Gaussian dyadic" % (z,))
    return c


def fop_json(op):
    """FermionOperator -> [{"t": [[mode, dag], ...], "c": ring}] (zero coefficients dropped)."""
    out = []
    for t, c in op.terms.items():
        if c == 0:
            continue
        out.append({"t": [[int(p), int(d)] for p, d in t], "c": ring(c)})
    return out


def fop_from_json(js):
    from tangelo.toolboxes.operators import FermionOperator
    from ring import to_complex
    op = FermionOperator()
    for t in js:
        z = to_complex(t["c"], M)
        op += FermionOperator(tuple((p, d) for p, d in t["t"]), z.real if abs(z.imag) < 1e-15 else z)
    return op


def FO(term=(), c=1.0):
    from tangelo.toolboxes.operators import FermionOperator
    return FermionOperator(tuple(term), c)


def fsum(items):
    """sum of (coefficient, term) pairs as a fresh Tangelo FermionOperator (the code's `+` mutates its left operand)."""
    from tangelo.toolboxes.operators import FermionOperator
    op = FermionOperator()
    for c, t in items:
        op += FermionOperator(tuple(t), c)
    return op


def tadj(t):
    return tuple((p, 1 - d) for p, d in reversed(t))


class Cfg:
    def __init__(self, enc, nm, utd, ne=None, spin=0, pass_n=True):
        self.enc, self.nm, self.utd, self.ne, self.spin, self.pass_n = enc, nm, utd, ne, spin, pass_n
        self.n = nm - 2 if enc == "SCBK" else nm
        if enc == "SCBK":
            self.na, self.nb = (ne + spin) // 2, (ne - spin) // 2
        else:
            self.na = self.nb = 0

    def key(self):
        return "%s:utd=%s" % (self.enc, self.utd)

    def info(self):
        return {"enc": self.enc, "nm": self.nm, "utd": self.utd, "ne": self.ne, "spin": self.spin}

    def encode(self, fop, pass_n=True):
        from tangelo.toolboxes.qubit_mappings.mapping_transform import fermion_to_qubit_mapping
        f = copy.deepcopy(fop)
        q = fermion_to_qubit_mapping(f, self.enc, n_spinorbitals=self.nm if pass_n else None, n_electrons=self.ne,
                                     up_then_down=self.utd, spin=self.spin)
        return qubit_op_to_json(q, self.n, M)


class Builder:
    """collects jobs (configuration + <= RECS_PER_JOB records) and the meta data needed to report / replay a record."""

    def __init__(self, chk):
        self.chk = chk
        self.jobs = []
        self.meta = {}
        self.next_id = 1
        self.counts = {}

    def new_id(self):
        self.next_id += 1
        return self.next_id - 1

    def add_config(self, cfg, L, recs):
        for a in range(0, max(1, len(recs)), RECS_PER_JOB):
            jid = self.new_id()
            self.jobs.append({"id": jid, "enc": cfg.enc, "nm": cfg.nm, "n": cfg.n, "utd": cfg.utd, "na": cfg.na, "nb": cfg.nb,
                              "L": L, "recs": recs[a:a + RECS_PER_JOB]})

    def rec(self, recs, cfg, kind, how, **fields):
        rid = self.new_id()
        r = dict(fields, id=rid, k=kind)
        recs.append(r)
        self.meta[rid] = {"cfg": cfg.info(), "kind": kind, "how": how}
        self.counts[(cfg.enc, kind)] = self.counts.get((cfg.enc, kind), 0) + 1
        return r


def guarded(chk, cfg, what, fn):
    """run an encoder call; an exception on an enabled input is a violation of the property."""
    try:
        return fn()
    except OffGrid:
        chk.inconclusive += 1
    except Exception as e:
        cls = what["class"]
        if cls == "constant" or ("f" in what and all(not t["t"] for t in what["f"])) or \
                ("fs" in what and any(all(not t["t"] for t in f) for f in what["fs"])):
            cls = "constant-operator"         # no ladder operator at all: c * identity (or the zero operator)
        chk.violation("exception:%s:utd=%s:%s" % (cls, cfg.utd, cfg.enc), "%s: %s  (%s)" % (type(e).__name__, e, str(what)[:300]),
                      {"cfg": cfg.info(), "kind": "exception", "how": what})
    return None


# =====================================================================================================================
# full-space encodings
# =====================================================================================================================
def ladder_ops(nm):
    return [(p, d) for p in range(nm) for d in (0, 1)]


def rand_term(rng, nm, length, hi=None):
    hi = nm if hi is None else hi
    return tuple((rng.randrange(hi), rng.randrange(2)) for _ in range(length))


def rand_fop(rng, nm, n_terms, max_len, hi=None, const=False):
    items = [(rng.choice([-3, -2, -1, 1, 2, 3]), rand_term(rng, nm, rng.randint(1, max_len), hi)) for _ in range(n_terms)]
    if const:
        items.append((rng.choice([-2, 1, 3]), ()))
    return fsum(items)


def rand_hermitian(rng, nm, n_terms, max_len):
    items = []
    for _ in range(n_terms):
        t = rand_term(rng, nm, rng.randint(1, max_len))
        c = rng.choice([-2, -1, 1, 2])
        if rng.random() < 0.3:
            items += [(1j * c, t), (-1j * c, tadj(t))]
        else:
            items += [(c, t), (c, tadj(t))]
    return fsum(items)


def hole_operators(rng, nm, same_spin_only):
    """Hermitian operators written with annihilators LEFT of creators (hole picture), products that are not normal ordered,
    with and without an explicit constant - as FermionOperators in the alternating numbering (nm modes)."""
    modes = range(nm)
    pairs = [(p, q) for p in modes for q in modes if p <= q and (not same_spin_only or p % 2 == q % 2)]
    if len(pairs) > 4:          # keep the operators small (a handful of words): the spelling matters, not the size
        pairs = rng.sample(pairs, 4)
    out = []
    t = {pq: rng.choice([-2, -1, 1, 2]) for pq in pairs}
    hop = []
    for (p, q), c in t.items():
        hop.append((c, ((p, 0), (q, 1))))
        if p != q:
            hop.append((c, ((q, 0), (p, 1))))
    out.append(("hole-hopping", fsum(hop)))
    out.append(("hole-hopping+constant", fsum(hop + [(rng.choice([-3, 2]), ())])))
    out.append(("holes-as-a.adag", fsum([(rng.randint(1, 3), ((p, 0), (p, 1))) for p in list(modes)[:4]])))
    if nm >= 2:
        nn = []
        pq = [(p, q) for p in modes for q in modes if p < q]
        for p, q in (pq if len(pq) <= 3 else rng.sample(pq, 3)):
            c = rng.randint(1, 2)
            nn += [(c, ((p, 1), (p, 0), (q, 0), (q, 1))), (c, ((q, 0), (q, 1), (p, 1), (p, 0)))]
        out.append(("n(1-n)+constant", fsum(nn + [(1, ())])))
    one = fsum([(c, ((p, 1), (q, 0))) for (p, q), c in t.items()] + [(c, ((q, 1), (p, 0))) for (p, q), c in t.items() if p != q])
    out.append(("one-body-squared", copy.deepcopy(one) * copy.deepcopy(one)))
    return out


def direct_encoder(cfg):
    """the encoding's own function, by-passing the dispatcher fermion_to_qubit_mapping (alternating ordering only)"""
    from tangelo.toolboxes.qubit_mappings import jordan_wigner, bravyi_kitaev, jkmn, symmetry_conserving_bravyi_kitaev
    nm = cfg.nm
    fn = {"JW": lambda f: jordan_wigner(f), "BK": lambda f: bravyi_kitaev(f, n_qubits=nm), "JKMN": lambda f: jkmn(f, n_qubits=nm),
          "SCBK": lambda f: symmetry_conserving_bravyi_kitaev(f, n_spinorbitals=nm, n_electrons=cfg.ne, up_then_down=False,
                                                             spin=cfg.spin)}[cfg.enc]
    return lambda f: qubit_op_to_json(fn(copy.deepcopy(f)), cfg.n, M)


def full_space_config(B, cfg, rng, quick):
    chk = B.chk
    nm = cfg.nm
    L = []
    for p, d in ladder_ops(nm):
        img = guarded(chk, cfg, {"class": "ladder", "term": [(p, d)]}, lambda: cfg.encode(FO(((p, d),))))
        if img is None:
            return
        L.append(img)
    recs = []
    B.rec(recs, cfg, "car", {})
    if cfg.enc == "JW":
        B.rec(recs, cfg, "jwdoc", {})

    def ext(fop, how, pass_n=True):
        img = guarded(chk, cfg, dict(how, f=fop_json(fop)), lambda: cfg.encode(fop, pass_n))
        if img is not None:
            B.rec(recs, cfg, "ext", dict(how, pass_n=pass_n), f=fop_json(fop), img=img)

    # the identity and a multiple of it
    for c in (1.0, -2.0):
        one = guarded(chk, cfg, {"class": "constant", "c": c}, lambda: cfg.encode(FO((), c)))
        if one is not None:
            if c == 1.0:
                B.rec(recs, cfg, "one", {"class": "constant"}, img=one)
            else:
                B.rec(recs, cfg, "ext", {"class": "constant"}, f=fop_json(FO((), c)), img=one)
    # every product of two ladder operators
    pairs = list(itertools.product(ladder_ops(nm), repeat=2))
    if quick and nm >= 6:
        pairs = rng.sample(pairs, 60)
    for a, b in pairs:
        ext(FO((a, b)), {"class": "pair"})
    # sampled 3- and 4-fold products
    for length in (3, 4):
        for _ in range(6 if quick else 20):
            ext(FO(rand_term(rng, nm, length)), {"class": "product%d" % length})
    # integer combinations (with and without a constant term)
    for x in range(6 if quick else 20):
        ext(rand_fop(rng, nm, rng.randint(2, 4), 3, const=bool(x % 2)), {"class": "combination"})
    # operators that do not touch the highest mode (n_spinorbitals passed explicitly)
    if nm >= 2:
        for _ in range(5 if quick else 12):
            ext(rand_fop(rng, nm, rng.randint(1, 3), 3, hi=nm - 1), {"class": "low-modes"})
        if nm >= 3:
            for _ in range(3 if quick else 8):
                ext(rand_fop(rng, nm, rng.randint(1, 2), 2, hi=max(1, nm // 2)), {"class": "low-modes"})
    # n_spinorbitals omitted where the API allows it (JW, no re-ordering)
    if cfg.enc == "JW" and not cfg.utd:
        for _ in range(6 if quick else 16):
            ext(rand_fop(rng, nm, rng.randint(1, 3), 3, hi=rng.randint(1, nm)), {"class": "n-omitted"}, pass_n=False)
    # laws on independently recorded triples
    for _ in range(5 if quick else 15):
        fa, fb = rand_fop(rng, nm, rng.randint(1, 2), 2), rand_fop(rng, nm, rng.randint(1, 2), 2)
        fab = copy.deepcopy(fa) * copy.deepcopy(fb)
        im = guarded(chk, cfg, {"class": "mul", "fs": [fop_json(x) for x in (fa, fb, fab)]}, lambda: [cfg.encode(x) for x in (fa, fb, fab)])
        if im:
            B.rec(recs, cfg, "mul", {"class": "mul"}, fA=fop_json(fa), fB=fop_json(fb), fAB=fop_json(fab), iA=im[0], iB=im[1], iAB=im[2])
    from openfermion.utils import hermitian_conjugated
    for _ in range(5 if quick else 15):
        fa = rand_fop(rng, nm, rng.randint(1, 3), 3, const=True)
        for t in list(fa.terms):
            if rng.random() < 0.5:
                fa.terms[t] = fa.terms[t] * 1j
        fb = hermitian_conjugated(fa)
        im = guarded(chk, cfg, {"class": "adj", "fs": [fop_json(x) for x in (fa, fb)]}, lambda: [cfg.encode(x) for x in (fa, fb)])
        if im:
            B.rec(recs, cfg, "adj", {"class": "adj"}, fA=fop_json(fa), fB=fop_json(fb), iA=im[0], iB=im[1])
    for _ in range(5 if quick else 15):
        fa, fb = rand_fop(rng, nm, 2, 3), rand_fop(rng, nm, 2, 3, const=True)
        al, be = rng.choice([2, -1, 3, 0.5]), rng.choice([-2, 1j, 1, -0.5j])
        fc = fsum([(al * c, t) for t, c in fa.terms.items()] + [(be * c, t) for t, c in fb.terms.items()])
        im = guarded(chk, cfg, {"class": "lin", "fs": [fop_json(x) for x in (fa, fb, fc)]}, lambda: [cfg.encode(x) for x in (fa, fb, fc)])
        if im:
            B.rec(recs, cfg, "lin", {"class": "lin"}, fA=fop_json(fa), fB=fop_json(fb), fC=fop_json(fc), al=ring(al), be=ring(be),
                  iA=im[0], iB=im[1], iC=im[2])
    # operators AS WRITTEN without normal ordering (hole picture, unordered products, explicit constants)
    written = hole_operators(rng, nm, False)
    for label, f in written:
        ext(f, {"class": "as-written", "spelling": label})
    # the encoding's own function (not through the dispatcher) must give the same representation
    if not cfg.utd:
        direct = direct_encoder(cfg)
        for label, f in written[:3] + [("combination", rand_fop(rng, nm, 3, 3, const=True))]:
            img = guarded(chk, cfg, {"class": "direct", "f": fop_json(f)}, lambda: direct(f))
            if img is not None:
                B.rec(recs, cfg, "ext", {"class": "direct", "spelling": label}, f=fop_json(f), img=img)
    # the spectral statement itself on sampled Hermitian operators
    n_spec = {1: 2, 2: 4, 3: 4, 4: 1 if quick else 4}.get(nm, 0)
    spec_ops = [rand_hermitian(rng, nm, rng.randint(1, 3), 3) for _ in range(n_spec)]
    if n_spec:
        spec_ops.append(written[1][1])          # hole hopping + constant, as written
    for f in spec_ops:
        img = guarded(chk, cfg, {"class": "spec", "f": fop_json(f)}, lambda: cfg.encode(f))
        if img is not None:
            B.rec(recs, cfg, "spec", {"class": "spec"}, f=fop_json(f), img=img)
    B.add_config(cfg, L, recs)


# =====================================================================================================================
# symmetry-conserving Bravyi-Kitaev
# =====================================================================================================================
def scbk_admissible(nm):
    out = []
    for ne in range(nm + 1):
        for spin in range(-nm, nm + 1):
            if (ne + spin) % 2:
                continue
            na, nb = (ne + spin) // 2, (ne - spin) // 2
            if 0 <= na <= nm // 2 and 0 <= nb <= nm // 2:
                out.append((ne, spin))
    return out


def scbk_config(B, cfg, rng, quick):
    chk = B.chk
    nm, nmo = cfg.nm, cfg.nm // 2
    recs = []
    one = guarded(chk, cfg, {"class": "constant"}, lambda: cfg.encode(FO((), 1.0)))
    if one is not None:
        B.rec(recs, cfg, "one", {"class": "constant"}, img=one)
    # parity operators PROD_{p in S} (1 - 2 n_p), built through the code's own operator arithmetic
    for which, modes in (("alpha", range(0, nm, 2)), ("beta", range(1, nm, 2)), ("total", range(nm))):
        if which == "total" and nm >= 8:
            continue        # 2^n terms; implied by alpha * beta and the product law
        par = FO((), 1.0)
        for p in modes:
            par = par * fsum([(1.0, ()), (-2.0, ((p, 1), (p, 0)))])
        img = guarded(chk, cfg, {"class": "parity", "which": which, "f": fop_json(par)}, lambda: cfg.encode(par))
        if img is not None:
            B.rec(recs, cfg, "parity", {"class": "parity", "which": which}, f=fop_json(par), which=which, img=img)
    # generators accepted by the implementation's domain check: same-spin excitations a+_p a_q
    gens = [((2 * p + s, 1), (2 * q + s, 0)) for s in (0, 1) for p in range(nmo) for q in range(nmo)]
    gimg = {}
    for g in gens:
        gimg[g] = guarded(chk, cfg, {"class": "generator", "term": g}, lambda: cfg.encode(FO(g)))
        if gimg[g] is None:
            B.add_config(cfg, [], recs)
            return
    for g in gens:
        B.rec(recs, cfg, "adj", {"class": "adj"}, fA=fop_json(FO(g)), fB=fop_json(FO(tadj(g))), iA=gimg[g], iB=gimg[tadj(g)])
    pairs = list(itertools.product(gens, repeat=2))
    if len(pairs) > (40 if quick else 400):
        pairs = rng.sample(pairs, 40 if quick else 400)
    for a, b in pairs:
        fab = FO(a + b)
        img = guarded(chk, cfg, {"class": "mul", "f": fop_json(fab)}, lambda: cfg.encode(fab))
        if img is not None:
            B.rec(recs, cfg, "mul", {"class": "mul"}, fA=fop_json(FO(a)), fB=fop_json(FO(b)), fAB=fop_json(fab),
                  iA=gimg[a], iB=gimg[b], iAB=img)
    for _ in range(3 if quick else 10):
        a, b = rng.sample(gens, 2)
        al, be = rng.choice([2, -1, 3, 0.5]), rng.choice([-2, 1j, 1, -0.5j])
        fc = fsum([(al, a), (be, b)])
        img = guarded(chk, cfg, {"class": "lin", "f": fop_json(fc)}, lambda: cfg.encode(fc))
        if img is not None:
            B.rec(recs, cfg, "lin", {"class": "lin"}, fA=fop_json(FO(a)), fB=fop_json(FO(b)), fC=fop_json(fc), al=ring(al), be=ring(be),
                  iA=gimg[a], iB=gimg[b], iC=img)
    # the same generators AS WRITTEN in the hole picture: a_q a+_p = delta_pq - a+_p a_q  (annihilator left of creator)
    holes = gens if nm <= 4 else rng.sample(gens, 6 if quick else 18)
    for g in holes:
        (p, _), (q, _) = g
        fc = FO(((q, 0), (p, 1)))
        img = guarded(chk, cfg, {"class": "as-written", "f": fop_json(fc)}, lambda: cfg.encode(fc))
        if img is not None and one is not None:
            B.rec(recs, cfg, "lin", {"class": "as-written"}, fA=fop_json(FO((), 1.0)), fB=fop_json(FO(g)), fC=fop_json(fc),
                  al=ring(1 if p == q else 0), be=ring(-1), iA=one, iB=gimg[g], iC=img)
    written = hole_operators(rng, nm, True)
    if not cfg.utd:
        direct = direct_encoder(cfg)
        for label, f in written[:2]:
            im = guarded(chk, cfg, {"class": "direct", "f": fop_json(f)}, lambda: [cfg.encode(f), direct(f)])
            if im:      # iC (direct function) = 1 * iA (dispatcher) + 0 * iB
                B.rec(recs, cfg, "lin", {"class": "direct", "spelling": label}, fA=fop_json(f), fB=fop_json(f), fC=fop_json(f),
                      al=ring(1), be=ring(0), iA=im[0], iB=im[0], iC=im[1])
    # direct spectrum test on the parity sector: Hermitian, N_alpha/N_beta-parity conserving operators
    if nm <= 6:
        for label, f in (written if nm <= 4 else rng.sample(written, 1 if quick else 3)):
            img = guarded(chk, cfg, {"class": "spec", "f": fop_json(f)}, lambda: cfg.encode(f))
            if img is not None:
                B.rec(recs, cfg, "spec", {"class": "as-written", "spelling": label}, f=fop_json(f), img=img)
    n_spec = (2 if quick else 5) if nm <= 4 else ((1 if quick else 3) if nm <= 6 else 0)      # sector dimension 2^(n-2)
    for x in range(n_spec):
        items = []
        for _ in range(rng.randint(2, 4)):
            kind = rng.random()
            c = rng.choice([-2, -1, 1, 2])
            if kind < 0.4:
                t = rng.choice(gens)
            elif kind < 0.8 or nmo < 2:
                t = rng.choice(gens) + rng.choice(gens)
            else:       # two alpha electrons become two beta electrons (changes n_alpha, n_beta by 2: parities are kept)
                p, q = rng.sample(range(nmo), 2)
                r, s = rng.sample(range(nmo), 2)
                t = ((2 * p, 1), (2 * q, 1), (2 * r + 1, 0), (2 * s + 1, 0))
            items += [(c, t), (c, tadj(t))]
        if x % 2:
            items.append((rng.choice([1, -3]), ()))
        f = fsum(items)
        img = guarded(chk, cfg, {"class": "spec", "f": fop_json(f)}, lambda: cfg.encode(f))
        if img is not None:
            B.rec(recs, cfg, "spec", {"class": "spec"}, f=fop_json(f), img=img)
    B.add_config(cfg, [], recs)


# =====================================================================================================================
# HCB / combinatorial on integer-integral molecular Hamiltonians
# =====================================================================================================================
_SOLVER = None


def synth_hamiltonian(nmo, c0, h, g):
    """fermionic_hamiltonian of a SecondQuantizedMolecule served with integer tensors by a synthetic IntegralSolver."""
    global _SOLVER
    import numpy as np
    from tangelo import SecondQuantizedMolecule
    from tangelo.toolboxes.molecular_computation.integral_solver import IntegralSolver
    if _SOLVER is None:
        class SynthSolver(IntegralSolver):
            def __init__(self, nmo, c0, h, g):
                self.nmo, self.c0, self.h, self.g = nmo, c0, h, g

            def set_physical_data(self, mol):
                mol.xyz = [("H", (0., 0., float(i))) for i in range(2)]
                mol.n_atoms = 2
                mol.n_electrons = 2

            def compute_mean_field(self, sqmol):
                sqmol.mf_energy = 0.
                sqmol.mo_energies = None
                sqmol.mo_occ = np.array([2.] + [0.] * (self.nmo - 1))
                sqmol.n_mos = self.nmo
                sqmol.n_sos = 2 * self.nmo
                sqmol.mo_symm_ids = None
                sqmol.mo_symm_labels = None
                self.mo_coeff = np.eye(self.nmo)

            def get_integrals(self, sqmol, mo_coeff=None):
                return float(self.c0), np.array(self.h, dtype=float), np.array(self.g, dtype=float)
        _SOLVER = SynthSolver
    mol = SecondQuantizedMolecule([("H", (0., 0., 0.)), ("H", (0., 0., 1.))], 0, 0, solver=_SOLVER(nmo, c0, h, g), frozen_orbitals=None)
    return mol.fermionic_hamiltonian


def rand_integrals(rng, nmo, lim=2):
    """symmetric h, 8-fold symmetric two-electron integrals in the documented order g[p,q,r,s] = (p s|q r)."""
    h = [[0] * nmo for _ in range(nmo)]
    for p in range(nmo):
        for q in range(p, nmo):
            h[p][q] = h[q][p] = rng.randint(-lim, lim)
    eri = {}
    g = [[[[0] * nmo for _ in range(nmo)] for _ in range(nmo)] for _ in range(nmo)]
    for i, j, k, l in itertools.product(range(nmo), repeat=4):
        key = tuple(sorted([tuple(sorted((i, j))), tuple(sorted((k, l)))]))
        if key not in eri:
            eri[key] = rng.randint(-lim, lim)
        g[i][k][l][j] = eri[key]          # chemist (ij|kl) = physicist-documented g[i, k, l, j]
    return rng.choice([0, 1, -2]), h, g


ROTATIONS = {
    # exact unitary orbital rotations U = W / sqrt(2)^m with Gaussian-integer W: the rotated tensors are Gaussian dyadic.
    # They leave only the general (Hermitian, particle-exchange) 4-fold symmetry g_pqrs = g_qpsr = conj(g_srqp).
    "phase": lambda n: ([[(1, 1j, -1, -1j)[p % 4] if p == q else 0 for q in range(n)] for p in range(n)], 0),
    "hadamard-phase": lambda n: ([[1, 1j], [1, -1j]], 1) if n == 2 else None,
    # sqrt(SWAP)-like mixing of orbitals 0 and 1, U = [[1+i, 1-i], [1-i, 1+i]] / 2 (third orbital: phase i): the rotated
    # pair-hopping amplitudes g'[i,i,j,j] and the one-body part are GENUINELY complex (the two rotations above only give
    # real pair hopping: conj(u_i)^2 u_j^2 = +-1)
    "sqrt-swap": lambda n: ([[1 + 1j, 1 - 1j] + [0] * (n - 2), [1 - 1j, 1 + 1j] + [0] * (n - 2)] +
                            [[0, 0] + [2j if q == p else 0 for q in range(2, n)] for p in range(2, n)], 2),
}


def complex_content(ints):
    """(has complex pair-hopping amplitude, has complex one-body element) of a corpus entry"""
    if not ints.get("rot"):
        return False, False
    h2, g2 = rotated_tensors(ints)
    n = ints["nmo"]
    return (any(abs(complex(g2[i][i][j][j]).imag) > 0 for i in range(n) for j in range(n) if i != j),
            any(abs(complex(h2[i][j]).imag) > 0 for i in range(n) for j in range(n)))


def rotated_tensors(ints):
    """h'_pq = sum conj(U_ap) h_ab U_bq ; g'_pqrs = sum conj(U_ap) conj(U_bq) U_cr U_ds g_abcd  (documented index order:
    p, q belong to the complex-conjugated orbitals).  Exact: integer / Gaussian arithmetic, one division by 2^m, 4^m."""
    from fractions import Fraction
    n, h, g = ints["nmo"], ints["h"], ints["g"]
    W, m = ROTATIONS[ints["rot"]](n)
    R = range(n)
    cj = lambda z: complex(z).conjugate()      # noqa: E731
    h2 = [[sum(cj(W[a][p]) * h[a][b] * W[b][q] for a in R for b in R) / 2 ** m for q in R] for p in R]
    g2 = [[[[sum(cj(W[a][p]) * cj(W[b][q]) * W[c][r] * W[d][s_] * g[a][b][c][d] for a in R for b in R for c in R for d in R) / 4 ** m
             for s_ in R] for r in R] for q in R] for p in R]
    return h2, g2


def hamiltonian_from_ints(ints):
    """the fermionic Hamiltonian of the corpus entry `ints`: through SecondQuantizedMolecule for real 8-fold symmetric
    integrals; for rotated (complex, 4-fold symmetric) tensors directly through the code's FermionOperator class in the
    same term format (a+_p a+_q a_r a_s, coefficient g/2), because openfermion's spinorb_from_spatial is real-only."""
    if "fjson" in ints:
        return fop_from_json(ints["fjson"])          # an operator AS WRITTEN (word order inside every term is kept)
    if not ints.get("rot"):
        return synth_hamiltonian(ints["nmo"], ints["c0"], ints["h"], ints["g"])
    n = ints["nmo"]
    h2, g2 = rotated_tensors(ints)
    items = [(ints["c0"], ())] if ints["c0"] else []
    R = range(n)
    for p in R:
        for q in R:
            for s1 in (0, 1):
                if h2[p][q] != 0:
                    items.append((h2[p][q], ((2 * p + s1, 1), (2 * q + s1, 0))))
                for r in R:
                    for t in R:
                        for s2 in (0, 1):
                            if g2[p][q][r][t] != 0:
                                items.append((g2[p][q][r][t] / 2, ((2 * p + s1, 1), (2 * q + s2, 1), (2 * r + s2, 0), (2 * t + s1, 0))))
    return fsum(items)


def respell(op, rng, mode):
    """the same element of the CAR algebra, spelled differently: adjacent factors x y of a word are rewritten as
    -y x + {x, y} ({a_p, a+_p} = 1, every other anticommutator 0).  mode "hole": every one-body word a+_p a_q becomes
    delta_pq - a_q a+_p (hole picture); mode "swaps": one seeded adjacent swap in about every second word.  The result is
    NOT normal ordered and carries constants / shorter words that only re-ordering brings back."""
    items = []
    for t, c in op.terms.items():
        if len(t) >= 2 and (mode == "hole" and len(t) == 2 or mode == "swaps" and rng.random() < 0.6):
            i = 0 if len(t) == 2 else rng.randrange(len(t) - 1)
            x, y = t[i], t[i + 1]
            items.append((-c, t[:i] + (y, x) + t[i + 2:]))
            if x[0] == y[0] and x[1] != y[1]:
                items.append((c, t[:i] + t[i + 2:]))
        else:
            items.append((c, t))
    return fsum(items)


def written_operators(rng, nmo):
    """Hermitian, number- and spin-conserving operators written WITHOUT normal ordering (annihilators left of creators,
    products of operators), with and without an explicit constant: (label, FermionOperator)."""
    so = [(i, s) for i in range(nmo) for s in (0, 1)]
    m = lambda i, s: 2 * i + s     # noqa: E731
    out = []
    t = [[0] * nmo for _ in range(nmo)]
    for i in range(nmo):
        for j in range(i, nmo):
            t[i][j] = t[j][i] = rng.randint(-2, 2) or 1
    # hole-picture hopping  sum t_pq a_p a+_q
    hop = [(t[i][j], ((m(i, s), 0), (m(j, s), 1))) for i in range(nmo) for j in range(nmo) for s in (0, 1)]
    out.append(("hole-hopping", fsum(hop)))
    out.append(("hole-hopping+constant", fsum(hop + [(rng.choice([-3, 2, 5]), ())])))
    # sum c_p (1 - n_p) written as a_p a+_p, and as c_p - c_p a+_p a_p   (spin-free: one coefficient per spatial orbital)
    cs = [rng.randint(1, 3) for _ in range(nmo)]
    out.append(("holes-as-a.adag", fsum([(cs[i], ((m(i, s), 0), (m(i, s), 1))) for (i, s) in so])))
    out.append(("holes-as-1-n", fsum([(2 * sum(cs), ())] + [(-cs[i], ((m(i, s), 1), (m(i, s), 0))) for (i, s) in so])))
    # sum w_ij n_p (1 - n_q) as a+_p a_p a_q a+_q, w symmetric in the spatial indices
    w = [[0] * nmo for _ in range(nmo)]
    for i in range(nmo):
        for j in range(i, nmo):
            w[i][j] = w[j][i] = rng.randint(1, 2)
    out.append(("n(1-n)", fsum([(w[i][j], ((m(i, s), 1), (m(i, s), 0), (m(j, u), 0), (m(j, u), 1)))
                                for (i, s) in so for (j, u) in so if (i, s) != (j, u)])))
    # a product of two FermionOperators that is not normal ordered: the square of a Hermitian one-body operator
    one = fsum([(t[i][j], ((m(i, s), 1), (m(j, s), 0))) for i in range(nmo) for j in range(nmo) for s in (0, 1)])
    out.append(("one-body-squared", copy.deepcopy(one) * copy.deepcopy(one)))
    hh = fsum(hop)
    out.append(("hole-hopping-squared+constant", copy.deepcopy(hh) * copy.deepcopy(hh) + FO((), -2.0)))
    return out


HCB_STEPS = ("second-encoding", "after-iadd", "after-imul", "after-isub")


def hcb_history(chk, cfg, ints, other, upto=None):
    """one FermionOperator object: encode, encode again, += other Hamiltonian, encode, *= 2, encode, -= other, encode.
    Yields (step, image, operator held by the object at that moment)."""
    from tangelo.toolboxes.qubit_mappings.mapping_transform import fermion_to_qubit_mapping
    nmo = ints["nmo"]
    out = []

    def run():
        H = hamiltonian_from_ints(ints)
        K = hamiltonian_from_ints(other)
        fermion_to_qubit_mapping(H, "HCB")
        for step in HCB_STEPS:
            if step == "after-iadd":
                H += K
            elif step == "after-imul":
                H *= 2
            elif step == "after-isub":
                H -= K
            q = fermion_to_qubit_mapping(H, "HCB")
            out.append((step, qubit_op_to_json(q, nmo, M), fop_json(H)))
        return True
    guarded(chk, cfg, {"class": "hcb-history", "ints": ints, "other": other}, run)
    return out


def compression_config(B, rng, quick):
    from tangelo.toolboxes.qubit_mappings.mapping_transform import fermion_to_qubit_mapping
    from tangelo.toolboxes.qubit_mappings.combinatorial import combinatorial
    chk = B.chk
    plan = [(2, 12 if quick else 40), (3, 3 if quick else 12)]
    prev_ints = None
    for nmo, count in plan:
        entries = []
        for x in range(count):
            c0, h, g = rand_integrals(rng, nmo)
            # every third entry (every second for 2 orbitals) is rotated to complex, only 4-fold symmetric integrals
            rot = None
            if nmo == 2 and x % 2 == 1:
                rot = ("sqrt-swap", "hadamard-phase", "sqrt-swap", "phase")[(x // 2) % 4]
            elif nmo == 3 and x % 3 != 0:
                rot = "sqrt-swap" if x % 3 == 1 else "phase"
            ints = {"nmo": nmo, "c0": c0, "h": h, "g": g, "rot": rot}
            entries.append(ints)
            # the same Hamiltonian AS WRITTEN differently (not normal ordered): hole picture / seeded adjacent swaps
            if x % (2 if nmo == 2 else 3) == 0 or not quick:
                for mode in (("hole", "swaps") if (x % 4 == 0 or not quick) else ("hole",)):
                    Hs = respell(hamiltonian_from_ints(ints), rng, mode)
                    entries.append({"nmo": nmo, "fjson": fop_json(Hs), "spelling": "%s of a molecular Hamiltonian%s" % (mode, " (complex)" if rot else "")})
        # operators that are not molecular Hamiltonians, written without normal ordering
        wr = written_operators(rng, nmo)
        if quick and nmo == 3:
            wr = rng.sample(wr, 3)
        for label, op in wr:
            entries.append({"nmo": nmo, "fjson": fop_json(op), "spelling": label})
        for ints in entries:
            H = hamiltonian_from_ints(ints)
            fj = fop_json(H)
            # --- HCB
            cfg = Cfg("HCB", 2 * nmo, False)
            cfg.n = nmo
            recs = []

            def hcb():
                return qubit_op_to_json(fermion_to_qubit_mapping(copy.deepcopy(H), "HCB"), nmo, M)
            aw = "-as-written" if "fjson" in ints else ""
            if aw:      # the encoding's own functions, not through the dispatcher
                def hcb_direct():
                    from tangelo.toolboxes.qubit_mappings.hcb import hard_core_boson_operator, boson_to_qubit_mapping
                    return qubit_op_to_json(boson_to_qubit_mapping(hard_core_boson_operator(copy.deepcopy(H))), nmo, M)
                imgd = guarded(chk, cfg, {"class": "hcb" + aw, "ints": ints, "direct": True}, hcb_direct)
                if imgd is not None:
                    B.rec(recs, cfg, "hcb", {"class": "hcb" + aw, "ints": ints, "direct": True}, f=fj, img=imgd, nmo=nmo)
            img = guarded(chk, cfg, {"class": "hcb" + aw, "ints": ints}, hcb)
            if img is not None:
                B.rec(recs, cfg, "hcb", {"class": "hcb" + aw, "ints": ints}, f=fj, img=img, nmo=nmo)
            cc = complex_content(ints)
            B.complex_pair_hopping = getattr(B, "complex_pair_hopping", 0) + int(cc[0])
            B.complex_one_body = getattr(B, "complex_one_body", 0) + int(cc[1])
            # operators are objects (with caches): the SAME object encoded again, then changed by in-place arithmetic
            # and encoded again - every image must belong to the operator the object holds at that moment
            if prev_ints is not None and prev_ints["nmo"] == nmo and "fjson" not in ints and "fjson" not in prev_ints:
                for step, img2, fj2 in hcb_history(chk, cfg, ints, prev_ints):
                    B.rec(recs, cfg, "hcb", {"class": "hcb-history", "ints": ints, "other": prev_ints, "step": step}, f=fj2, img=img2, nmo=nmo)
            prev_ints = ints
            B.add_config(cfg, [], recs)
            # --- combinatorial: every sector of dimension >= 2 (thorough) / a seeded selection (quick)
            sectors = [(na, nb) for na in range(nmo + 1) for nb in range(nmo + 1)]
            import math
            sectors = [s for s in sectors if math.comb(nmo, s[0]) * math.comb(nmo, s[1]) >= 2]
            if quick:
                sectors = rng.sample(sectors, 2 if nmo == 2 else 1)
            cfg = Cfg("COMB", 2 * nmo, False)
            recs = []
            for na, nb in sectors:
                d = math.comb(nmo, na) * math.comb(nmo, nb)
                nq = max(1, math.ceil(math.log2(d)))
                args = [(na, nb)] + ([na + nb] if na == nb else [])
                for ne_arg in args:
                    def comb():
                        return qubit_op_to_json(combinatorial(copy.deepcopy(H), nmo, ne_arg), nq, M)
                    how = {"class": "comb" + aw, "ints": ints, "n_electrons": ne_arg}
                    img = guarded(chk, cfg, how, comb)
                    if img is not None:
                        B.rec(recs, cfg, "comb", how, f=fj, img=img, nmo=nmo, na=na, nb=nb, nq=nq)
            cfg.n = 0
            B.add_config(cfg, [], recs)


# =====================================================================================================================
def build_all(chk, rng):
    quick = chk.quick
    B = Builder(chk)
    sizes = [1, 2, 3, 4, 6] if quick else [1, 2, 3, 4, 5, 6, 7, 8, 9]
    for enc in ("JW", "BK", "JKMN"):
        for nm in sizes:
            for utd in ((False, True) if nm % 2 == 0 else (False,)):
                full_space_config(B, Cfg(enc, nm, utd), rng, quick or nm >= 7)
    for nm in ([4, 6] if quick else [2, 4, 6, 8]):
        adm = scbk_admissible(nm)
        for ne, spin in adm:
            for utd in (False, True):
                scbk_config(B, Cfg("SCBK", nm, utd, ne=ne, spin=spin), rng, quick or nm >= 8)
    compression_config(B, rng, quick)
    return B


def negative_controls(B, verdicts):
    """one corrupted field per record kind, derived from records that were ACCEPTED: the trace spec must reject each
    (binding demonstrated)."""
    ctl_jobs, expect = [], {}
    seen = set()
    nid = 10 ** 7

    def neg_first_coeff(terms):
        t = copy.deepcopy(terms)
        if not t:
            return [{"w": [], "c": ring(1)}]
        t[0]["c"]["c"] = [-a for a in t[0]["c"]["c"]]
        return t
    for j in B.jobs:
        for r in j["recs"]:
            key = (j["enc"] if r["k"] in ("spec",) else "", r["k"])
            if key in seen or verdicts.get(r["id"]) not in OK_VERDICTS:
                continue
            c = copy.deepcopy(r)
            jj = {k: copy.deepcopy(v) for k, v in j.items() if k != "recs"}
            if r["k"] == "car":
                if len(jj["L"]) < 4:
                    continue
                jj["L"][0], jj["L"][2] = jj["L"][2], jj["L"][0]       # images of a_0 and a_1 exchanged (daggers kept)
            elif r["k"] == "jwdoc":
                if len(jj["L"]) < 4:
                    continue
                jj["L"] = jj["L"][2:4] + jj["L"][0:2] + jj["L"][4:]   # a valid representation but not the documented one
            elif r["k"] in ("ext", "one", "parity", "spec", "hcb", "comb"):
                if not c["img"] or (r["k"] in ("spec", "hcb", "comb") and not any(any(t["w"]) for t in c["img"])):
                    continue
                if r["k"] in ("spec", "hcb", "comb"):
                    # flip the sign of the identity-free part only when that changes the spectrum: shift by adding identity
                    n = len(c["img"][0]["w"])
                    c["img"] = c["img"] + [{"w": [0] * n, "c": ring(1)}]
                else:
                    c["img"] = neg_first_coeff(c["img"])
            elif r["k"] == "mul":
                if not c["iAB"]:
                    continue
                c["iAB"] = neg_first_coeff(c["iAB"])
            elif r["k"] == "adj":
                if not c["iB"]:
                    continue
                c["iB"] = neg_first_coeff(c["iB"])
            elif r["k"] == "lin":
                if not c["iC"]:
                    continue
                c["iC"] = neg_first_coeff(c["iC"])
            seen.add(key)
            nid += 1
            c["id"] = nid
            jj["id"] = nid + 10 ** 6
            jj["recs"] = [c]
            ctl_jobs.append(jj)
            expect[nid] = r["k"]
    return ctl_jobs, expect


def s_part(chk):
    invs_all = ["SpecCAR", "CARDiscriminates", "JWIsFock", "SpectrumLaw", "AdjLaw", "MulLaw", "Eq14IsLexRank",
                "CombIndexBijective", "SpectraSelfCheck"]
    light = [x for x in invs_all if x != "SpectrumLaw"]
    plan = [("{1, 2}", invs_all), ("{3}", invs_all), ("{4}", light if chk.quick else invs_all)]
    runs = [dict(module="C03Encodings", name="c03/s%d" % k, workers=4 if k == 2 else 2,
                 cfg="CONSTANT M = %d\nSNs = %s\nINIT SInit\nNEXT SNext\n" % (M, s) + "".join("INVARIANT %s\n" % x for x in invs))
            for k, (s, invs) in enumerate(plan)]
    for r in tlc.run_many(runs, max_parallel=3):
        if not r.ok:
            raise tlc.TLCError("C03 law checker failed its self-check: %s\n%s" % (r.violated, r.out[-1500:]))
        chk.add_tlc(r, "S_" + r.name.split("/")[-1])


OK_VERDICTS = ("ok", "ok-entrywise-differs")


def judge(chk, B, name="c03/v"):
    jobs = B.jobs
    verdicts, results = tlc.judge("C03Trace", jobs, name, {"M": M}, chunk=max(1, (len(jobs) + 47) // 48), timeout=7200,
                                  max_parallel=JVMS)
    for r in results:
        chk.add_tlc(r)
    ctl_jobs, expect = negative_controls(B, verdicts)
    if ctl_jobs:
        v2, results = tlc.judge("C03Trace", ctl_jobs, name + "ctl", {"M": M}, chunk=max(1, (len(ctl_jobs) + 3) // 4), timeout=7200,
                                max_parallel=JVMS)
        verdicts.update(v2)
    return verdicts, expect


def run(chk):
    rng = random.Random(chk.seed)
    s_part(chk)
    B = build_all(chk, rng)
    verdicts, expect = judge(chk, B)
    per_key = {}
    bad_by = {}
    drift = 0
    for rid, m in B.meta.items():
        if rid not in verdicts:
            raise tlc.TLCError("no verdict for record %s %s" % (rid, m))
        v = verdicts[rid]
        chk.add_traces(1, "%s:%s" % (m["cfg"]["enc"], m["kind"]))
        if v == "ok-entrywise-differs":
            drift += 1
        if v in OK_VERDICTS:
            continue
        if v.startswith("driver-error") or v == "malformed":
            raise tlc.TLCError("driver/record problem (not a verdict): %s %s" % (v, m))
        if v == "off-carrier":
            chk.inconclusive += 1
            continue
        sub = m["how"].get("class", m["kind"]) if isinstance(m["how"], dict) and str(m["how"].get("class", "")).endswith("-as-written") else m["kind"]
        key = "%s:utd=%s:%s:%s" % (m["cfg"]["enc"], m["cfg"]["utd"], sub, v)
        bad_by[key] = bad_by.get(key, 0) + 1
        per_key[key] = per_key.get(key, 0) + 1
        if (per_key[key] > 2 or len(chk.violations) >= 48) and chk.match_known(key) is None:
            continue        # the harness writes at most 50 replay files: every printed VIOLATION must have one
        chk.violation(key, "%s on %s (%s)" % (v, m["cfg"], str(m["how"])[:300]), {"rid": rid, "meta": m, "record": find_record(B, rid)})
    if drift:
        chk.spec_drift("%d HCB/combinatorial operators have the right spectrum but differ entry-wise from the documented basis "
                       "(diagnostic only)" % drift)
    wrong = [(rid, verdicts.get(rid)) for rid, k in expect.items() if verdicts.get(rid) in OK_VERDICTS or
             str(verdicts.get(rid)).startswith("driver") or verdicts.get(rid) in (None, "malformed", "off-carrier")]
    chk.part("negative_controls", corrupted=len(expect), rejected=len(expect) - len(wrong),
             kinds=sorted(set(expect.values())))
    if wrong:
        raise tlc.TLCError("binding failure: corrupted records accepted: %s" % wrong[:5])
    chk.part("corpus", hamiltonians_with_complex_pair_hopping=getattr(B, "complex_pair_hopping", 0),
             hamiltonians_with_complex_one_body=getattr(B, "complex_one_body", 0))
    if getattr(B, "complex_pair_hopping", 0) == 0 or getattr(B, "complex_one_body", 0) == 0:
        raise tlc.TLCError("the HCB/combinatorial corpus contains no genuinely complex Hamiltonian")
    chk.part("V", jobs=len(B.jobs), records=len(B.meta), failing=bad_by,
             by_kind={"%s:%s" % k: v for k, v in sorted(B.counts.items())})
    some = [B.jobs[0]["recs"][0], B.jobs[len(B.jobs) // 2]["recs"][0], B.jobs[-1]["recs"][0]]
    for r in some:
        chk.sample({"meta": B.meta[r["id"]], "record": {k: (v if len(str(v)) < 400 else str(v)[:400] + "...") for k, v in r.items()},
                    "verdict": verdicts[r["id"]]})
    chk.cov["rule"] = ("JW/BK/JKMN: CAR of all ladder images + extension law on every pair of ladder operators (exhaustive up to n=4 quick / "
                       "9 thorough), sampled higher products, combinations, low-mode operators, both orderings; scBK: every admissible "
                       "(n_e, spin) x ordering, laws on same-spin generators, parity scalars, sector spectra; HCB/combinatorial: seeded "
                       "integer-integral Hamiltonians, spectrum test. A record is one recorded operator (or triple) judged by TLC.")
    chk.assumptions += ["coefficients are Gaussian dyadic rationals (exact carrier); other coefficients are counted inconclusive",
                        "spectrum tests are power-trace / characteristic-polynomial identities modulo the primes 32749 and 32719: "
                        "necessary conditions (no false alarm), a true difference is missed with probability ~1e-9",
                        "uniqueness of the irreducible CAR representation (module header of C03Defs) turns CAR + extension into "
                        "isospectrality for every operator",
                        "scBK generators are restricted to what the implementation's own domain check accepts (a+_p a_q of equal spin); "
                        "pair creation of equal spin is refused by the code (documented domain) and not judged"]


def find_record(B, rid):
    for j in B.jobs:
        for r in j["recs"]:
            if r["id"] == rid:
                return {"job": {k: v for k, v in j.items() if k != "recs"}, "rec": r}
    return None


def replay(chk, rec):
    case = rec["case"]
    m = case["meta"] if "meta" in case else case
    cfgd = m["cfg"]
    cfg = Cfg(cfgd["enc"], cfgd["nm"], cfgd["utd"], ne=cfgd["ne"], spin=cfgd["spin"]) if cfgd["enc"] not in ("HCB", "COMB") else None
    if m["kind"] == "exception":
        how = m["how"]
        if cfg is None:
            print("recorded exception case (compression encoders):", str(how)[:2000])
            ints = how["ints"]
            H = hamiltonian_from_ints(ints)
            try:
                if how["class"] == "hcb-history":
                    c3 = check.Check("C03", ["quick"])
                    c3.known = []
                    hcb_history(c3, Cfg("HCB", 2 * ints["nmo"], False), ints, how["other"])
                    if c3.violations:
                        raise RuntimeError(c3.violations[0][1])
                elif how["class"].startswith("hcb"):
                    from tangelo.toolboxes.qubit_mappings.mapping_transform import fermion_to_qubit_mapping
                    fermion_to_qubit_mapping(H, "HCB")
                else:
                    from tangelo.toolboxes.qubit_mappings.combinatorial import combinatorial
                    ne = how["n_electrons"]
                    combinatorial(H, ints["nmo"], tuple(ne) if isinstance(ne, list) else ne)
            except Exception as e:
                print("exception reproduced: %s: %s" % (type(e).__name__, e))
                return False
            return True
        try:
            if how["class"] == "constant":
                cfg.encode(FO((), how.get("c", 1.0)))
            elif "f" in how or "fs" in how:
                for fj in ([how["f"]] if "f" in how else how["fs"]):
                    cfg.encode(fop_from_json(fj) if fj else FO((), 0.0))
            elif "term" in how:
                cfg.encode(FO(tuple(tuple(x) for x in how["term"])))
            else:
                print("cannot rebuild this exception case; recorded:", how)
                return False
        except Exception as e:
            print("exception reproduced: %s: %s" % (type(e).__name__, e))
            return False
        return True
    r = case["record"]
    job, rr = r["job"], copy.deepcopy(r["rec"])
    # re-record the images from the code for the recorded fermionic operators, then let TLC judge again
    if cfg is not None:
        L = []
        if job["L"]:
            L = [cfg.encode(FO(((p, d),))) for p, d in ladder_ops(cfg.nm)]
        job = dict(job, L=L)
        pn = m["how"].get("pass_n", True) if isinstance(m["how"], dict) else True
        for fk, ik in (("f", "img"), ("fA", "iA"), ("fB", "iB"), ("fAB", "iAB"), ("fC", "iC")):
            if fk in rr:
                rr[ik] = cfg.encode(fop_from_json(rr[fk]), pn)
        if rr["k"] == "one":
            rr["img"] = cfg.encode(FO((), 1.0))
    else:
        from tangelo.toolboxes.qubit_mappings.mapping_transform import fermion_to_qubit_mapping
        from tangelo.toolboxes.qubit_mappings.combinatorial import combinatorial
        ints = m["how"]["ints"]
        H = hamiltonian_from_ints(ints)
        rr["f"] = fop_json(H)
        if m["how"].get("class") == "hcb-history":
            c3 = check.Check("C03", ["quick"])
            c3.known = []
            steps = hcb_history(c3, Cfg("HCB", 2 * ints["nmo"], False), ints, m["how"]["other"])
            got = [x for x in steps if x[0] == m["how"]["step"]]
            if c3.violations or not got:
                print("exception reproduced:", c3.violations[:1])
                return False
            rr["img"], rr["f"] = got[0][1], got[0][2]
        elif rr["k"] == "hcb":
            rr["img"] = qubit_op_to_json(fermion_to_qubit_mapping(H, "HCB"), rr["nmo"], M)
        else:
            ne = m["how"]["n_electrons"]
            rr["img"] = qubit_op_to_json(combinatorial(H, rr["nmo"], tuple(ne) if isinstance(ne, list) else ne), rr["nq"], M)
    rr["id"] = 2
    verdicts, _ = tlc.judge("C03Trace", [dict(job, id=1, recs=[rr])], "c03/replay", {"M": M})
    print("configuration:", cfgd, " record kind:", rr["k"], " how:", str(m["how"])[:300])
    print("TLC verdict on the operators the code returns now:", verdicts[2])
    return verdicts[2] in OK_VERDICTS


if __name__ == "__main__":
    check.main("C03", run, replay)
