#!/venv/bin/python
"""C04 - qubit Hamiltonians reproduce mean-field and full-CI energies.

Part A (G, spec -> code)  spec/C04FrozenOrbitals.tla: TLC explores the freeze_mos state machine (every occupation
        pattern x every request x in place / copy, two calls deep) and checks the partition invariants; every explored
        transition is replayed on SecondQuantizedMolecule objects built on a synthetic IntegralSolver (public extension
        point, no pyscf); the four lists and the derived counts of every live object are compared after every call.
Part B (S)  spec/C04ActiveSpace.tla: the textbook frozen-core folding formula satisfies the SEMANTIC definition
        <x|H_eff|y> = <F u x|H_full|F u y> (first-principles Fock algebra) for a basis of the tensor space (the identity
        is linear in the tensors) and generic tensors.
Part C (V, code -> spec)  spec/C04Trace.tla: integer tensors are served through the synthetic solver; the code's
        fermionic_hamiltonian (RHF/ROHF and UHF paths), its qubit Hamiltonians (JW/BK/scBK/JKMN x both orderings) and its
        reference / basis-state vectors are recorded and judged exactly by TLC: effective operator, <ref|H_q|ref> =
        <HF|H_full|HF>, and the (n_alpha, n_beta) sector block of H_q equals the CAS matrix entry by entry.
Part D (numeric tail, NOT model-checked)  real molecules through PySCF: spec-structured contraction.  TLC supplies the
        exact structure constants (<v|P_j|v>, P_j|enc y> = i^p |enc x>), Python contracts them with the code's float
        coefficients: sum_j c_j e_j = mf_energy (1e-8); LAPACK lowest sector eigenvalue = FCI (1e-7), invariant under
        random active-orbital rotations.
"""
import copy
import itertools
import json
import os
import random
import sys
import warnings

sys.path.insert(0, os.path.join(os.path.dirname(os.path.abspath(__file__)), "..", "harness"))
import check  # noqa: E402
import tlc  # noqa: E402
from ring import dyadic  # noqa: E402

warnings.filterwarnings("ignore")
# tiny molecules: thread pools of BLAS / PySCF only cost (spin-waiting) on a shared machine
for _v in ("OMP_NUM_THREADS", "OPENBLAS_NUM_THREADS", "MKL_NUM_THREADS"):
    os.environ.setdefault(_v, "1")
# PySCF writes an SCF checkpoint (HDF5 temp file) per mean field; with hundreds of live molecules on a shared machine the
# HDF5 advisory lock occasionally fails (BlockingIOError: unable to lock file) - the files are private, locking is not needed
os.environ.setdefault("HDF5_USE_FILE_LOCKING", "FALSE")
import numpy as np  # noqa: E402

M = 4
LETTER = {"I": 0, "X": 1, "Y": 2, "Z": 3}


# =====================================================================================================
# synthetic integral solver (public extension point IntegralSolver): serves fixed occupations and tensors
# =====================================================================================================
def make_solver_class():
    from tangelo.toolboxes.molecular_computation.integral_solver import IntegralSolver

    class SynthSolver(IntegralSolver):
        def __init__(self, n_mos, mo_occ, uhf, c0=0, h=None, g=None, elems=("H", "H")):
            self.n_mos, self.occ, self.uhf, self.c0, self.h, self.g, self.elems = n_mos, mo_occ, uhf, c0, h, g, elems

        def set_physical_data(self, mol):
            mol.xyz = [(e, (0., 0., float(i))) for i, e in enumerate(self.elems)]
            mol.n_atoms = len(self.elems)
            mol.n_electrons = int(np.sum(self.occ))

        def compute_mean_field(self, sqmol):
            sqmol.mf_energy = 0.
            sqmol.mo_energies = None
            sqmol.mo_occ = np.array(self.occ, dtype=float)
            sqmol.n_mos = self.n_mos
            sqmol.n_sos = 2 * self.n_mos
            sqmol.mo_symm_ids = None
            sqmol.mo_symm_labels = None
            eye = np.eye(self.n_mos)
            self.mo_coeff = (eye.copy(), eye.copy()) if self.uhf else eye

        def get_integrals(self, sqmol, mo_coeff=None):
            if self.uhf:
                return float(self.c0), [np.array(x, dtype=float) for x in self.h], [np.array(x, dtype=float) for x in self.g]
            return float(self.c0), np.array(self.h, dtype=float), np.array(self.g, dtype=float)

    return SynthSolver


_SOLVER = None


def synth_molecule(mo, uhf, elems, frozen=None, c0=0, h=None, g=None):
    global _SOLVER
    from tangelo import SecondQuantizedMolecule
    if _SOLVER is None:
        _SOLVER = make_solver_class()
    n = len(mo[0]) if uhf else len(mo)
    if uhf:
        spin = int(sum(mo[0]) - sum(mo[1]))
    else:
        spin = sum(1 for o in mo if o == 1)
    solver = _SOLVER(n, mo, uhf, c0, h, g, tuple(elems))
    return SecondQuantizedMolecule(xyz=None, q=0, spin=spin, solver=solver, uhf=uhf, frozen_orbitals=frozen)


# =====================================================================================================
# Part A: freeze_mos state machine
# =====================================================================================================
def fo_cfg(n, uhf, elems, steps, objs, aufbau, export=True):
    return ("CONSTANTS M = %d\nNMos = %d\nUhf = %s\nElems <- %s\nMaxSteps = %d\nMaxObjs = %d\nAufbau = %s\nExport = %s\n"
            "INIT Init\nNEXT Next\nVIEW View\nINVARIANT PartitionOK\nINVARIANT OccupiedVirtualOK\nINVARIANT CountsOK\n"
            "INVARIANT ObjectsValid\nINVARIANT HistConsistent\nPROPERTY FrameOK\n"
            % (M, n, str(uhf).upper(), elems, steps, objs, str(aufbau).upper(), str(export).upper()))


def req_to_py(req):
    k = req["kind"]
    if k == "none":
        return None
    if k == "core":
        return "frozen_core"
    if k == "int":
        return int(req["n"])
    if k == "list":
        return [int(x) for x in req["a"]]
    return [[int(x) for x in req["a"]], [int(x) for x in req["b"]]]


def observe(mol, uhf):
    """Projection of a SecondQuantizedMolecule on the spec's observation record (conversion only)."""
    def both(x):
        return [list(x[0]), list(x[1])] if uhf else [list(x), list(x)]
    lists = {k: both(getattr(mol, a)) for k, a in (("ao", "active_occupied"), ("fo", "frozen_occupied"),
                                                   ("av", "active_virtual"), ("fv", "frozen_virtual"))}
    dup = any(len(set(l)) != len(l) for v in lists.values() for l in v)
    fm = mol.frozen_mos
    if fm is None:
        fm = [[], []] if uhf else []
    nm = mol.n_active_mos
    ab = mol.n_active_ab_electrons
    am = both(mol.active_mos)
    return {"part": [{k: sorted(lists[k][s]) for k in ("ao", "fo", "av", "fv")} for s in (0, 1)],
            "dup": dup or any(len(set(l)) != len(l) for l in am),
            "active_mos": [sorted(x) for x in am],
            "nel": int(mol.n_active_electrons), "na": int(ab[0]), "nb": int(ab[1]), "spin": int(mol.active_spin),
            "nmos": [int(nm[0]), int(nm[1])] if uhf else [int(nm), int(nm)], "nsos": int(mol.n_active_sos),
            "frozen": [sorted(x) for x in both(fm)], "attr": mol.frozen_orbitals}


def expected_obs(post):
    return {"part": [{k: sorted(p[k]) for k in ("ao", "fo", "av", "fv")} for p in post["part"]],
            "nel": post["nel"], "na": post["na"], "nb": post["nb"], "spin": post["spin"], "nmos": list(post["nmos"]),
            "nsos": post["nsos"], "frozen": [sorted(x) for x in post["frozen"]]}


def compare_obs(got, exp):
    """-> list of differing fields."""
    bad = [k for k in ("part", "nel", "na", "nb", "spin", "nmos", "nsos", "frozen") if got[k] != exp[k]]
    if got["dup"]:
        bad.append("duplicates")
    act = [sorted(exp["part"][s]["ao"] + exp["part"][s]["av"]) for s in (0, 1)]
    if got["active_mos"] != act:
        bad.append("active_mos")
    return bad


def replay_behaviour(tr, construct_route=True):
    """Replays one exported behaviour on real objects. Returns None or (key, detail)."""
    uhf, mo, elems = tr["uhf"], tr["mo"], tr["elems"]
    ref = "uhf" if uhf else "rhf"
    try:
        mols = [synth_molecule(mo, uhf, elems, None)]
    except Exception as e:      # Init guarantees Valid(None): the constructor must succeed
        return ("construct:%s:none:valid-request-raised" % ref, "SecondQuantizedMolecule(mo_occ=%s, frozen_orbitals=None) raised %s: %s" % (mo, type(e).__name__, e))
    for si, st in enumerate(tr["hist"]):
        req = req_to_py(st["req"])
        o = st["o"] - 1
        before = [observe(m, uhf) for m in mols]
        raised = None
        out = None
        try:
            out = mols[o].freeze_mos(copy.deepcopy(req), inplace=bool(st["inplace"]))
        except Exception as e:        # exception types/messages are not constrained
            raised = "%s: %s" % (type(e).__name__, e)
        kind = st["req"]["kind"]
        if st["acc"] and raised:
            return ("freeze:%s:%s:valid-request-raised" % (ref, kind), "step %d: %r raised %s" % (si, req, raised))
        if not st["acc"] and not raised:
            return ("freeze:%s:invalid-request-accepted:%s:%s" % (ref, st["why"], kind),
                    "step %d: request %r (%s) was accepted; spec: must raise" % (si, req, st["why"]))
        if st["acc"]:
            if st["inplace"]:
                if out is not None:
                    return ("freeze:%s:inplace-returned-object" % ref, "step %d" % si)
            else:
                if out is None or any(out is m for m in mols):
                    return ("freeze:%s:copy-not-a-new-object" % ref, "step %d: freeze_mos(%r, inplace=False) returned %s" % (si, req, "None" if out is None else "an existing object"))
                mols.append(out)
        # every live object after the call
        for j, (m, post) in enumerate(zip(mols, st["post"])):
            got = observe(m, uhf)
            bad = compare_obs(got, expected_obs(post))
            if bad:
                what = "target" if j == o and st["inplace"] and st["acc"] else ("copy" if j == len(mols) - 1 and not st["inplace"] and st["acc"] else "bystander")
                return ("freeze:%s:%s:state:%s:%s" % (ref, kind, what, "+".join(bad)),
                        "step %d object %d after freeze_mos(%r, inplace=%s): fields %s differ; got %s expected %s"
                        % (si, j + 1, req, st["inplace"], bad, {k: got[k] for k in bad if k in got}, {k: expected_obs(post).get(k) for k in bad}))
            if raised and got != before[j]:
                return ("freeze:%s:%s:rejected-call-changed-state" % (ref, kind), "step %d object %d" % (si, j + 1))
            if st["acc"] and got["attr"] != req_to_py(post["req"]):
                return ("freeze:%s:%s:frozen_orbitals-attribute" % (ref, kind), "step %d object %d: %r" % (si, j + 1, got["attr"]))
        # the constructor route for the first in-place freeze of object 1
        if construct_route and si == 0 and o == 0 and st["inplace"]:
            try:
                m2 = synth_molecule(mo, uhf, elems, copy.deepcopy(req))
                r2 = None
            except Exception as e:
                m2, r2 = None, "%s: %s" % (type(e).__name__, e)
            if st["acc"] and r2:
                return ("construct:%s:%s:valid-request-raised" % (ref, kind), "frozen_orbitals=%r raised %s" % (req, r2))
            if not st["acc"] and not r2:
                return ("construct:%s:invalid-request-accepted:%s:%s" % (ref, st["why"], kind), "frozen_orbitals=%r" % (req,))
            if m2 is not None:
                bad = compare_obs(observe(m2, uhf), expected_obs(st["post"][0]))
                if bad:
                    return ("construct:%s:%s:state:%s" % (ref, kind, "+".join(bad)), "frozen_orbitals=%r" % (req,))
    return None


def part_a(chk):
    part_a_replay(chk, part_a_tlc(chk))


def part_a_tlc(chk):
    """TLC: explore the state machine, check its invariants, export every transition."""
    quick = chk.quick
    # (n_mos, uhf, elems, steps, objs, aufbau)
    runs = [(2, False, "ElemsLiH", 2, 2, False), (3, False, "ElemsLiH", 2, 2, quick), (2, True, "ElemsLiH", 2, 2, False),
            (3, True, "ElemsH2", 1, 2, False), (4, False, "ElemsC2", 1, 2, False), (5, False, "ElemsLiH", 1, 2, True),
            (4, True, "ElemsLiH", 1, 2, True), (5, False, "ElemsNaH", 1, 2, True)]
    if quick:
        runs.append((3, False, "ElemsH2", 1, 2, False))       # every 3^3 pattern, one call deep
    if not quick:
        runs += [(4, False, "ElemsLiH", 2, 3, True), (3, True, "ElemsLiH", 2, 2, True), (5, True, "ElemsC2", 1, 2, True),
                 (5, False, "ElemsC2", 1, 2, False), (4, True, "ElemsH2", 1, 2, False)]
    jobs = [dict(module="C04FrozenOrbitals", cfg=fo_cfg(*r), name="c04/fo_%d" % i, workers=2, timeout=7200, coverage=(i == 1))
            for i, r in enumerate(runs)]
    if not quick:
        # long call sequences (4 calls, 3 live objects) sampled with -simulate: TLC evaluates (and exports) every successor of
        # every visited state, each is a behaviour of up to 4 calls and is replayed
        sims = [(3, True, "ElemsLiH", 4, 3, False), (4, False, "ElemsC2", 4, 3, False)]
        for k, r in enumerate(sims):
            jobs.append(dict(module="C04FrozenOrbitals", cfg=fo_cfg(*r), name="c04/fo_sim%d" % k, workers=1, timeout=7200,
                             simulate="num=%d" % 40, depth=5, seed=chk.seed + 11 + k))
        runs = runs + sims
    import time
    t0 = time.time()
    res = tlc.run_many(jobs, max_parallel=8)
    return runs, res, time.time() - t0


def part_a_replay(chk, explored):
    """Replay every exported behaviour on the implementation."""
    import time
    runs, res, t_tlc = explored
    t0 = time.time() - t_tlc
    stats = {}
    n_tr = 0
    for r_, res_ in zip(runs, res):
        if not res_.ok:
            raise tlc.TLCError("C04FrozenOrbitals: specification invariant violated %s\n%s" % (res_.violated, res_.out[-1500:]))
        chk.add_tlc(res_, "A_fo_n%d_%s_%s" % (r_[0], "uhf" if r_[1] else "rhf", r_[2]))
        trs = res_.prints("TR")
        if not trs:
            raise tlc.TLCError("C04FrozenOrbitals exported no transitions (%s)" % (r_,))
        for tr in trs:
            n_tr += 1
            last = tr["hist"][-1]
            k = "%s:%s:%s" % ("uhf" if tr["uhf"] else "rhf", "inplace" if last["inplace"] else "copy", last["why"])
            stats[k] = stats.get(k, 0) + 1
            v = replay_behaviour(tr)
            if v:
                chk.violation(v[0], v[1], {"kind": "freeze", "tr": tr})
        chk.add_traces(len(trs), "A_replay")
    cov = res[1].coverage_counts()
    chk.part("A_replay", behaviours=n_tr, tlc_wall_s=round(t_tlc, 1), replay_wall_s=round(time.time() - t0 - t_tlc, 1), last_call_by_outcome=stats,
             tlc_action_coverage={k: v for k, v in cov.items() if k in ("Init", "FreezeInPlace", "FreezeCopy")})
    need = ["%s:%s:%s" % (a, b, c) for a in ("rhf", "uhf") for b in ("inplace", "copy")
            for c in ("ok", "wrong-type", "no-active-electrons", "all-active-occupied")] + ["rhf:inplace:half-filled-frozen", "rhf:copy:half-filled-frozen"]
    missing = [k for k in need if not stats.get(k)]
    if missing or any(cov.get(a, (0, 0))[1] == 0 for a in ("FreezeInPlace", "FreezeCopy")):
        raise tlc.TLCError("vacuity: outcomes never explored %s / action coverage %s" % (missing, cov))


# =====================================================================================================
# Part B: S-check of the folding formula
# =====================================================================================================
def as_cfg(n, restricted, invs):
    return ("CONSTANTS M = %d\nN = %d\nRestricted = %s\nINIT Init\nNEXT Next\n" % (M, n, str(restricted).upper())
            + "".join("INVARIANT %s\n" % x for x in invs))


def part_b(chk):
    runs = [(2, True, 2), (2, False, 2), (3, True, 6)] + ([] if chk.quick else [(3, False, 8)])
    full = ["TensorSymmetric", "FoldingCorrect", "DiagonalConsistent"]
    jobs = [dict(module="C04ActiveSpace", cfg=as_cfg(n, r, full if (n == 2 or not chk.quick) else full[:2]),
                 name="c04/as_%d_%s" % (n, r), workers=w, timeout=3 * 3600) for n, r, w in runs]
    jobs.append(dict(module="C04ActiveSpace", cfg=as_cfg(2, True, ["ControlNoExchange"]), name="c04/as_ctl", workers=1,
                     must_succeed=False))
    res = tlc.run_many(jobs, max_parallel=6)
    for (n, r, w), x in zip(runs, res):
        if not x.ok:
            raise tlc.TLCError("C04ActiveSpace: folding formula does not satisfy the semantic definition: %s\n%s" % (x.violated, x.out[-1500:]))
        chk.add_tlc(x, "B_folding_n%d_%s" % (n, "restricted" if r else "unrestricted"))
    ctl = res[-1]
    if "ControlNoExchange" not in ctl.violated:
        raise tlc.TLCError("oracle control: a folding formula without exchange terms was NOT rejected\n" + ctl.out[-1500:])
    chk.part("B_control", no_exchange_formula_rejected=True)


# =====================================================================================================
# Part C: synthetic integer molecules, judged by TLC
# =====================================================================================================
def up(a, b):
    return (a, b) if a <= b else (b, a)


def rand_tensors(n, uhf, rng, lo=-2, hi=2):
    """Integer tensors with the symmetries of real orbitals. g[p,q,r,s] = (ps|qr)."""
    pairs = [(a, b) for a in range(n) for b in range(a, n)]

    def h():
        m = [[0] * n for _ in range(n)]
        for a, b in pairs:
            m[a][b] = m[b][a] = rng.randint(lo, hi)
        return m

    def gss():
        v = {}
        for x in pairs:
            for y in pairs:
                if (y, x) in v:
                    v[(x, y)] = v[(y, x)]
                else:
                    v[(x, y)] = rng.randint(lo, hi)
        return [[[[v[(up(p, s), up(q, r))] for s in range(n)] for r in range(n)] for q in range(n)] for p in range(n)]

    def gab():
        v = {(x, y): rng.randint(lo, hi) for x in pairs for y in pairs}
        return [[[[v[(up(p, s), up(q, r))] for s in range(n)] for r in range(n)] for q in range(n)] for p in range(n)]

    c0 = rng.randint(-3, 3)
    if uhf:
        return {"uhf": True, "n": n, "c0": c0, "h": [h(), h()], "g": [gss(), gab(), gss()]}
    return {"uhf": False, "n": n, "c0": c0, "h": [h()], "g": [gss()]}


def req_spec(py):
    """python request -> spec record."""
    z = {"kind": "none", "n": 0, "a": [], "b": []}
    if py is None:
        return z
    if py == "frozen_core":
        return dict(z, kind="core")
    if isinstance(py, int):
        return dict(z, kind="int", n=py)
    if py and isinstance(py[0], list):
        return dict(z, kind="lists", a=list(py[0]), b=list(py[1]))
    return dict(z, kind="list", a=list(py))


class NotDyadic(Exception):
    pass


def scale_coeffs(coefs, complex_ok=False):
    """exact dyadic floats -> (integers c*2^K, K>=1). Conversion only."""
    parts = []
    K = 1
    for c in coefs:
        c = complex(c)
        re, im = dyadic(c.real), dyadic(c.imag)
        if re is None or im is None or (not complex_ok and im[0] != 0):
            raise NotDyadic(repr(c))
        parts.append((re, im))
        K = max(K, re[1], im[1])
    out = [(re[0] << (K - re[1]), im[0] << (K - im[1])) for re, im in parts]
    if max([abs(a) + abs(b) for a, b in out] + [0]) >= 2 ** 24:
        raise NotDyadic("coefficient too large for the exact carrier")
    return out, K


def fermion_terms_json(fop):
    terms = list(fop.terms.items())
    ints, K = scale_coeffs([c for _, c in terms])
    return [{"t": [[int(p), int(d)] for p, d in t], "c": a} for (t, _), (a, _) in zip(terms, ints) if a != 0], K


def qubit_words_json(qop, nq, K_min=1):
    terms = list(qop.terms.items())
    ints, K = scale_coeffs([c for _, c in terms], complex_ok=True)
    words = []
    for (t, _), (a, b) in zip(terms, ints):
        if a == 0 and b == 0:
            continue
        w = [0] * nq
        for q, l in t:
            if q >= nq:
                raise NotDyadic("word acts on qubit %d >= %d" % (q, nq))
            w[q] = LETTER[l]
        words.append({"w": w, "c": {"c": [a, b], "k": 0}})
    return words, K


ENCODINGS = [("JW", False), ("JW", True), ("BK", False), ("BK", True), ("JKMN", False), ("JKMN", True),
             ("scBK", True), ("scBK", False)]


def qubit_artifacts(mol, mapping, utd, fop=None):
    """The code's qubit Hamiltonian, reference vector and basis-state encoder for one encoding (as the solvers build them).
    fop: a fermionic Hamiltonian obtained from the molecule through another public route (default: .fermionic_hamiltonian)."""
    from tangelo.toolboxes.qubit_mappings.mapping_transform import fermion_to_qubit_mapping, get_qubit_number
    from tangelo.toolboxes.qubit_mappings.statevector_mapping import get_vector, get_mapped_vector
    nso = mol.n_active_sos
    qop = fermion_to_qubit_mapping(mol.fermionic_hamiltonian if fop is None else fop, mapping, n_spinorbitals=nso,
                                   n_electrons=mol.n_active_electrons, up_then_down=utd, spin=mol.active_spin)
    nq = get_qubit_number(mapping, nso)
    with warnings.catch_warnings():
        warnings.simplefilter("ignore")
        ref = get_vector(nso, mol.n_active_electrons, mapping, up_then_down=utd, spin=mol.active_spin)

    def encode(det):
        v = np.zeros(nso, dtype=int)
        for p in det:
            v[p] = 1
        with warnings.catch_warnings():
            warnings.simplefilter("ignore")
            return [int(round(float(x))) for x in get_mapped_vector(v, mapping, utd)]
    return qop, nq, [int(round(float(x))) for x in ref], encode


def sector_dets(nso, na, nb):
    al = list(range(0, nso, 2))
    be = list(range(1, nso, 2))
    return [sorted(a + b) for a in itertools.combinations(al, na) for b in itertools.combinations(be, nb)]


def singles_before_doubles(mo, uhf):
    if uhf:
        return False
    seen1 = False
    for o in mo:
        if o == 1:
            seen1 = True
        if o == 2 and seen1:
            return True
    return False


def synth_case_jobs(chk, case, jobs, meta, want_q=True, want_sec=True, encodings=ENCODINGS):
    """Serve the case to the implementation and record the artefacts as TLC jobs."""
    mo, uhf, elems, T, pyreq = case["mo"], case["uhf"], case["elems"], case["T"], case["req"]
    try:
        mol = synth_molecule(mo, uhf, elems, copy.deepcopy(pyreq), T["c0"], T["h"] if uhf else T["h"][0], T["g"] if uhf else T["g"][0])
    except Exception:
        return False       # request rejected by the implementation: validity conformance is Part A's business
    base = {"uhf": uhf, "mo": mo, "elems": list(elems), "req": req_spec(pyreq), "T": T}
    am = mol.active_mos
    acts = [list(map(int, am[0])), list(map(int, am[1]))] if uhf else [list(map(int, am)), list(map(int, am))]

    def add(kind, extra, info):
        jid = len(jobs) + 1
        jobs.append(dict(base, id=jid, kind=kind, **extra))
        meta[jid] = dict(kind=kind, case=case, info=info)

    pending = []
    try:
        terms, K = fermion_terms_json(mol.fermionic_hamiltonian)
        add("eff", {"acts": acts, "terms": terms, "K": K}, {})
        meta[len(jobs)]["pending"] = pending
    except NotDyadic as e:
        chk.inconclusive += 1
        chk.spec_drift("fermionic_hamiltonian of an integer-integral molecule has a non-dyadic coefficient (%s): %s" % (e, case_label(case)))
    except Exception as e:
        chk.violation("synth:eff:%s:exception:%s" % ("uhf" if uhf else "rhf", type(e).__name__),
                      "%s: fermionic_hamiltonian raised %s: %s" % (case_label(case), type(e).__name__, e), {"kind": "synth", "case": case, "info": {}})
        return True
    if not want_q or singles_before_doubles(mo, uhf):
        return True
    nso = mol.n_active_sos
    na, nb = mol.n_active_ab_electrons
    for mapping, utd in encodings:
        if mapping == "scBK" and nso < 4:
            continue
        info = {"mapping": mapping, "up_then_down": utd}
        try:
            qop, nq, ref, encode = qubit_artifacts(mol, mapping, utd)
            words, K = qubit_words_json(qop, nq)
            add("qref", {"nq": nq, "words": words, "K": K, "v": ref}, info)
            if want_sec:
                basis = [{"x": d, "e": encode(d)} for d in sector_dets(nso, na, nb)]
                add("qsec", {"acts": acts, "nq": nq, "words": words, "K": K, "basis": basis}, info)
        except NotDyadic as e:
            chk.inconclusive += 1
            chk.spec_drift("qubit Hamiltonian (%s) has a non-dyadic coefficient: %s" % (mapping, e))
        except Exception as e:
            # reported after TLC has judged the request: if the spec rejects the request (the implementation accepted an
            # invalid one - Part A's finding) nothing downstream is judged
            pending.append(("qubit:%s:exception" % mapping, "%s: %s: %s" % (case_label(case), type(e).__name__, e),
                            {"kind": "synth", "case": case, "info": info}))
    return True


def case_label(case):
    return "mo=%s uhf=%s req=%r" % (case["mo"], case["uhf"], case["req"])


def synth_cases(chk, rng):
    """(mo, uhf, elems, request, tensors) combinations."""
    quick = chk.quick
    cases = []
    rhf_mo = {2: [[2, 0], [1, 0], [2, 1]],
              3: [[2, 0, 0], [2, 2, 0], [2, 1, 0], [1, 0, 0], [1, 1, 0], [2, 2, 1], [2, 0, 2], [2, 1, 1], [0, 2, 0]]}
    uhf_mo = {2: [[[1, 0], [1, 0]], [[1, 1], [1, 0]], [[1, 0], [0, 0]], [[0, 1], [1, 0]]],
              3: [[[1, 1, 0], [1, 0, 0]], [[1, 0, 0], [1, 0, 0]], [[1, 1, 0], [1, 1, 0]], [[1, 1, 1], [1, 0, 0]],
                  [[1, 0, 0], [1, 1, 0]], [[1, 0, 1], [0, 1, 0]], [[1, 1, 0], [0, 0, 0]]]}
    subsets = {n: [list(c) for k in range(n + 1) for c in itertools.combinations(range(n), k)] for n in (2, 3)}
    for n in (2, 3):
        for mo in rhf_mo[n]:
            reqs = [None, 1] + subsets[n][1:] + [[2, 0]][: n - 2]
            for r in reqs:
                cases.append(dict(mo=mo, uhf=False, elems=["H", "H"], req=r))
        cases.append(dict(mo=rhf_mo[n][0], uhf=False, elems=["Li", "H"], req="frozen_core"))
        for mo in uhf_mo[n]:
            per_spin = [[a, b] for a in subsets[n] for b in subsets[n]]
            if n == 3:
                keep = [[[0], [0]], [[1], [1]], [[2], [2]], [[0], []], [[], [0]], [[1], [0, 2]], [[0, 2], [1]], [[2], [1]],
                        [[1, 2], [2]], [[0, 1], [0]], [[2, 1], [0]], [[], [1, 2]]]
                extra = rng.sample(per_spin, 6 if quick else 30)
                per_spin = keep + [x for x in extra if x not in keep]
            for r in [None, 1] + per_spin:
                cases.append(dict(mo=mo, uhf=True, elems=["H", "H"], req=r))
    return cases


def unit_tensor_cases(rng):
    """Basis tensors (one symmetry class = 1): exercises every index position separately."""
    out = []
    n = 3
    pairs = [(a, b) for a in range(n) for b in range(a, n)]

    def z2():
        return [[0] * n for _ in range(n)]

    def z4():
        return [[[[0] * n for _ in range(n)] for _ in range(n)] for _ in range(n)]

    def g_unit(x, y, sym):
        g = z4()
        for p in range(n):
            for q in range(n):
                for r in range(n):
                    for s in range(n):
                        a, b = up(p, s), up(q, r)
                        if (a, b) == (x, y) or (sym and (b, a) == (x, y)):
                            g[p][q][r][s] = 1
        return g
    # restricted: every class of g, served with the RHF/ROHF path
    for x in pairs:
        for y in pairs:
            if x <= y:
                out.append({"uhf": False, "n": n, "c0": 0, "h": [z2()], "g": [g_unit(x, y, True)]})
    # unrestricted: every class of gab (ordered), some of gaa / gbb
    for x in pairs:
        for y in pairs:
            out.append({"uhf": True, "n": n, "c0": 0, "h": [z2(), z2()], "g": [z4(), g_unit(x, y, False), z4()]})
    for x, y in [((0, 1), (0, 2)), ((0, 0), (1, 2)), ((1, 1), (2, 2)), ((0, 2), (0, 2))]:
        out.append({"uhf": True, "n": n, "c0": 0, "h": [z2(), z2()], "g": [g_unit(x, y, True), z4(), z4()]})
        out.append({"uhf": True, "n": n, "c0": 0, "h": [z2(), z2()], "g": [z4(), z4(), g_unit(x, y, True)]})
    return out


def corrupt_jobs(jobs, meta):
    """Negative controls: one recorded field per job kind is perturbed; TLC must reject.
    -> list of (job, label, certain).  `certain` corruptions change the judged value for sure (all must be rejected);
    the others could coincide by symmetry of a particular input: three instances are made, at least one must be rejected."""
    ctl = []
    count = {}

    def put(c, label, certain, limit):
        if count.get(label, 0) >= limit:
            return
        count[label] = count.get(label, 0) + 1
        c["id"] = 10 ** 6 + len(ctl)
        ctl.append((c, label, certain))

    for j in jobs:
        tag = "%s:%s" % (j["kind"], "uhf" if j["uhf"] else "rhf")
        if j["kind"] == "eff":
            c = copy.deepcopy(j)
            two = [t for t in c["terms"] if len(t["t"]) == 4 and t["t"][0][0] != t["t"][1][0] and t["t"][2][0] != t["t"][3][0]]
            if two:
                two[0]["c"] = -two[0]["c"]                       # sign of one two-body coefficient
                put(c, tag + ":two-body-sign", True, 1)
            c = copy.deepcopy(j)
            one = [t for t in c["terms"] if len(t["t"]) == 2]
            if one:
                one[0]["c"] += 1                                 # one-body coefficient off by 2^-K
                put(c, tag + ":one-body-value", True, 1)
            c = copy.deepcopy(j)
            cst = [t for t in c["terms"] if len(t["t"]) == 0]
            if cst:
                cst[0]["c"] += 2
                put(c, tag + ":constant", True, 1)
            if j["req"]["kind"] != "none" and len(j["acts"][0]) >= 2:
                c = copy.deepcopy(j)
                c["acts"][0] = c["acts"][0][::-1]                # claimed active order reversed (alpha)
                put(c, tag + ":active-order", False, 3)
        elif j["kind"] == "qref":
            c = copy.deepcopy(j)
            zs = [w for w in c["words"] if any(w["w"]) and all(l in (0, 3) for l in w["w"])]
            if zs:
                zs[0]["c"]["c"][0] += 1
                put(c, tag + ":z-word-coefficient", True, 1)
            c = copy.deepcopy(j)
            c["v"][0] = 1 - c["v"][0]
            put(c, tag + ":reference-bit", False, 3)
        elif j["kind"] == "qsec":
            c = copy.deepcopy(j)
            xs = [w for w in c["words"] if any(l in (1, 2) for l in w["w"])]
            if xs and len(c["basis"]) >= 2:
                xs[0]["c"]["c"][0] = -xs[0]["c"]["c"][0]
                put(c, tag + ":offdiagonal-word-sign", False, 3)
                c = copy.deepcopy(j)
                c["basis"][0]["e"], c["basis"][1]["e"] = c["basis"][1]["e"], c["basis"][0]["e"]
                put(c, tag + ":encoded-basis-swapped", False, 3)
    return ctl


def judge_synth(chk, jobs, meta, name, chunk=None):
    ctl = corrupt_jobs(jobs, meta)
    verdicts, results = tlc.judge("C04Trace", jobs + [c for c, _, _ in ctl], name, {"M": M}, timeout=3 * 3600, chunk=chunk)
    for r in results:
        chk.add_tlc(r)
    kinds = {}
    for j in jobs:
        v = verdicts[j["id"]]
        m = meta[j["id"]]
        k = kinds.setdefault(j["kind"], {"n": 0, "bad": 0})
        k["n"] += 1
        chk.add_traces(1, "C_" + j["kind"])
        if v == "ok":
            continue
        if v == "invalid-request":
            # the implementation accepted a request the spec rejects: that is judged (and reported) by Part A
            k["invalid_request_skipped"] = k.get("invalid_request_skipped", 0) + 1
            continue
        for pk, pd, pc in m.get("pending", []):
            chk.violation(pk, pd, pc)
        if v in ("malformed-tensors", "malformed-words", "unknown-kind"):
            raise tlc.TLCError("machinery: job %d (%s) judged %s" % (j["id"], case_label(m["case"]), v))
        k["bad"] += 1
        ref = "uhf" if j["uhf"] else "rhf"
        frozen = "frozen" if j["req"]["kind"] != "none" else "full"
        enc = ("%s:%s" % (m["info"].get("mapping"), "updown" if m["info"].get("up_then_down") else "alternating")) if m["info"] else "fermionic"
        chk.violation("synth:%s:%s:%s:%s:%s" % (j["kind"], ref, frozen, v, enc),
                      "%s; %s %s: TLC verdict %s" % (case_label(m["case"]), j["kind"], enc, v),
                      {"kind": "synth", "case": m["case"], "info": m["info"], "jobkind": j["kind"]})
    by_label = {}
    for c, what, certain in ctl:
        d = by_label.setdefault(what, {"n": 0, "rejected": 0, "certain": certain})
        d["n"] += 1
        d["rejected"] += verdicts[c["id"]] != "ok"
    bad_ctl = [w for w, d in by_label.items() if (d["certain"] and d["rejected"] < d["n"]) or d["rejected"] == 0]
    if bad_ctl:
        raise tlc.TLCError("binding failure: corrupted records accepted: %s" % bad_ctl)
    return kinds, {w: "%d/%d" % (d["rejected"], d["n"]) for w, d in by_label.items()}


def part_c(chk, rng):
    quick = chk.quick
    jobs, meta = [], {}
    cases = synth_cases(chk, rng)
    n_cases = 0
    # generic dense tensors: every case gets its own random tensors
    for ci, case in enumerate(cases):
        n = len(case["mo"][0]) if case["uhf"] else len(case["mo"])
        case["T"] = rand_tensors(n, case["uhf"], rng)
        # qubit-level artefacts for a rotating subset of the encodings (all encodings over the case list)
        if quick:
            encs = [ENCODINGS[(ci + k) % len(ENCODINGS)] for k in (0, 3)]
            want_sec = (ci % 3 == 0)
        else:
            encs = ENCODINGS
            want_sec = True
        n_cases += bool(synth_case_jobs(chk, case, jobs, meta, True, want_sec, encs))
    # basis tensors: fermionic level only, a few frozen selections each
    unit = unit_tensor_cases(rng)
    sel_r = [([2, 2, 0], [0]), ([2, 2, 0], [1]), ([2, 1, 0], [0]), ([2, 0, 0], None), ([2, 2, 0], [0, 2])]
    sel_u = [([[1, 1, 0], [1, 0, 0]], [[0], [0]]), ([[1, 1, 0], [1, 0, 0]], [[1], [2]]), ([[1, 1, 0], [1, 1, 0]], [[0, 2], [1]]),
             ([[1, 0, 0], [1, 1, 0]], None), ([[1, 1, 1], [1, 0, 0]], [[1], [0]])]
    for ti, T in enumerate(unit):
        sels = sel_u if T["uhf"] else sel_r
        for k in ((0, 1) if quick else range(len(sels))):
            mo, r = sels[(ti + k) % len(sels)]
            case = dict(mo=mo, uhf=T["uhf"], elems=["H", "H"], req=r, T=T)
            n_cases += bool(synth_case_jobs(chk, case, jobs, meta, False, False))
    kinds, nctl = judge_synth(chk, jobs, meta, "c04/v")
    chk.part("C_synthetic", cases=n_cases, jobs=len(jobs), by_kind=kinds, negative_controls=nctl)
    for j in jobs[:1] + jobs[-1:]:
        chk.sample({"kind": j["kind"], "mo": j["mo"], "req": j["req"], "uhf": j["uhf"], "terms": len(j.get("terms", j.get("words", [])))})


# =====================================================================================================
# Part D: real molecules (PySCF) - spec-structured contraction; NUMERIC TAIL (LAPACK / PySCF trusted)
# =====================================================================================================
def chain(n, rng, lo=0.6, hi=1.4):
    z, out = 0., []
    for k in range(n):
        out.append(("H", (0., 0., round(z, 6))))
        z += rng.uniform(lo, hi)
    return out


def frozen_cells(mo_occ, uhf):
    """Frozen-orbital selections by cell class for a reference with the given occupations (input selection only):
    'occ' = lowest freezable occupied orbital, 'virt' = highest virtual, 'both'."""
    if uhf:
        oa, ob = [list(map(float, x)) for x in mo_occ]
        n = len(oa)
        cells = {"none": None, "occ": [[0], [0]]}
        if oa[n - 1] == 0 and ob[n - 1] == 0:
            cells["virt"] = [[n - 1], [n - 1]]
            cells["both"] = [[0, n - 1], [0, n - 1]]
        out = {}
        for k, f in cells.items():
            fa, fb = (f or [[], []])
            na = sum(1 for i in range(n) if oa[i] > 0 and i not in fa)
            nb = sum(1 for i in range(n) if ob[i] > 0 and i not in fb)
            ma, mb = n - len(fa), n - len(fb)
            if na + nb > 0 and (na < ma or nb < mb):
                out[k] = f
        return out
    occ = list(map(float, mo_occ))
    n = len(occ)
    docc = [i for i in range(n) if occ[i] == 2]
    virt = [i for i in range(n) if occ[i] == 0]
    cells = {"none": None}
    if docc:
        cells["occ"] = [docc[0]]
    if virt:
        cells["virt"] = [virt[-1]]
    if docc and virt:
        cells["both"] = [docc[0], virt[-1]]
    out = {}
    for k, f in cells.items():
        act = [i for i in range(n) if i not in (f or [])]
        ne = sum(occ[i] for i in act)
        if 0 < ne < 2 * len(act):
            out[k] = f
    return out


SPIN_CLASS = {0: "closed", 1: "doublet", 2: "triplet", 3: "quartet", 4: "quintet"}


def real_cases(chk, rng):
    """The molecule matrix {closed, doublet, triplet, quartet} x {no frozen, frozen occupied, frozen virtual, both} x
    {RHF/ROHF, UHF} on H3, H4, H4+, LiH (minimal basis), plus per-spin / interior / larger-basis extras.
    -> (label, xyz, q, spin, basis, uhf, frozen, fci_reference).  fci_reference:
       'fci'                 FCISolver on the molecule itself (RHF/ROHF; CAS branch when orbitals are frozen)
       'fci-restricted-twin' full-space FCI of the RHF/ROHF molecule at the same geometry and spin (full CI is orbital independent)
       'ucasci'              PySCF UCASCI on the UHF mean field with the same frozen orbitals (FCISolver has no UHF support)
       'ccsd-2e'             CCSDSolver with the same (per-spin) frozen orbitals, exact for two active electrons."""
    from tangelo import SecondQuantizedMolecule
    quick = chk.quick
    cases = []
    n_geo = 1 if quick else 3
    systems = [("H3", 3, 0, (1, 3)), ("H4", 4, 0, (0, 2) if quick else (0, 2, 4)), ("H4+", 4, 1, (1, 3)), ("LiH", 0, 0, (0, 2))]
    for g in range(n_geo):
        for name, nh, q, spins in systems:
            if name == "LiH":
                xyz = [("Li", (0., 0., 0.)), ("H", (0., 0., round(rng.uniform(1.3, 1.9), 6)))]
            else:
                xyz = chain(nh, rng)
            for spin in spins:
                for uhf in (False, True):
                    try:
                        probe = SecondQuantizedMolecule(xyz, q, spin, basis="sto-3g", uhf=uhf, frozen_orbitals=None)
                    except Exception as e:
                        if "converge" in str(e):
                            chk.inconclusive += 1
                            continue
                        raise
                    for cell, frozen in frozen_cells(probe.mo_occ, uhf).items():
                        if quick and name == "LiH" and cell == "none":
                            continue      # 12 qubits: thorough only (the unfrozen cells are represented by H3 / H4 / H4+)
                        ref = "fci" if not uhf else ("fci-restricted-twin" if frozen is None else "ucasci")
                        cases.append(("%s-%s-%s-%s-g%d" % (name, SPIN_CLASS[spin], "uhf" if uhf else "rohf", cell, g),
                                      xyz, q, spin, "sto-3g", uhf, frozen, ref))
    # extras: the remaining documented constructor options, combined (at least) pairwise with reference type / spin / frozen form:
    # basis {sto-3g, 6-31g, lanl2dz}, charge {0, +1, -1}, ecp, symmetry {True, "C2v"}, frozen forms {int, list, per-spin lists,
    # "frozen_core"}; and molecules whose lowest Sz = 0 state is a TRIPLET component (Hund: equilateral H3-, bent CH2).
    tri = [("H", (0., 0., 0.)), ("H", (round(rng.uniform(0.8, 1.1), 6), 0., 0.)),
           ("H", (round(rng.uniform(0.3, 0.6), 6), round(rng.uniform(0.7, 1.0), 6), 0.))]
    lih = [("Li", (0., 0., 0.)), ("H", (0., 0., round(rng.uniform(1.3, 1.9), 6)))]
    nah = [("Na", (0., 0., 0.)), ("H", (0., 0., round(rng.uniform(1.7, 2.1), 6)))]
    side = round(rng.uniform(0.9, 1.2), 6)
    h3m = [("H", (0., 0., 0.)), ("H", (side, 0., 0.)), ("H", (side / 2, round(side * 3 ** 0.5 / 2, 9), 0.))]
    rch, ang = rng.uniform(1.05, 1.12), rng.uniform(2.2, 2.4)
    ch2 = [("C", (0., 0., 0.)), ("H", (round(rch * np.sin(ang / 2), 6), 0., round(rch * np.cos(ang / 2), 6))),
           ("H", (round(-rch * np.sin(ang / 2), 6), 0., round(rch * np.cos(ang / 2), 6)))]
    a_ = rng.uniform(0.9, 1.05)
    th = rng.uniform(1.7, 1.95)
    hx, hy = round(a_ * np.sin(th / 2), 6), round(a_ * np.cos(th / 2), 6)
    h2o = [("O", (0., 0., 0.)), ("H", (hx, hy, 0.)), ("H", (-hx, hy, 0.))]      # exactly C2v (symmetry="C2v" is requested below)
    ecp = {"ecp": {"Na": "lanl2dz"}}
    tgs = {"tags": ["spin0-triplet-ground-state"]}
    h4s = chain(4, rng)
    cases += [
        ("H2-631g-frozen-interior-virtual", chain(2, rng), 0, 0, "6-31g", False, [2], "fci"),
        ("H2-uhf-stretched", chain(2, rng, 1.5, 2.2), 0, 0, "sto-3g", True, None, "fci-restricted-twin"),
        ("H3+-uhf-perspin-virtuals", tri, 1, 0, "sto-3g", True, [[2], [1]], "ccsd-2e"),
        ("H3+-631g-symmetry-list", tri, 1, 0, "6-31g", False, [3, 4, 5], "fci", {"symmetry": True}),
        ("H4+-631g-uhf-perspin", chain(4, rng), 1, 1, "6-31g", True, [[4, 5, 6, 7], [4, 5, 6, 7]], "ucasci"),
        ("H4--rohf-frozen-virtual", chain(4, rng, 0.9, 1.4), -1, 1, "sto-3g", False, [0], "fci"),
        ("H4--uhf", chain(4, rng, 0.9, 1.4), -1, 1, "sto-3g", True, None, "fci-restricted-twin"),
        ("H4-symmetry", h4s, 0, 0, "sto-3g", False, None, "fci", {"symmetry": True}),
        ("H4-symmetry-triplet-frozen", h4s, 0, 2, "sto-3g", False, [0], "fci", {"symmetry": True}),
        ("H4-symmetry-uhf-triplet", h4s, 0, 2, "sto-3g", True, None, "fci-restricted-twin", {"symmetry": True}),
        ("LiH-frozen-core-keyword", lih, 0, 0, "sto-3g", False, "frozen_core", "fci"),
        ("LiH-frozen-0-3-5", lih, 0, 0, "sto-3g", False, [0, 3, 5], "fci"),
        ("LiH-triplet-frozen-0-4", lih, 0, 2, "sto-3g", False, [0, 4], "fci"),
        ("LiH-triplet-rohf-int-1", lih, 0, 2, "sto-3g", False, 1, "fci"),
        ("LiH-uhf-int-1", lih, 0, 0, "sto-3g", True, 1, "ccsd-2e"),
        ("LiH-uhf-symmetry-frozen-core-keyword", lih, 0, 0, "sto-3g", True, "frozen_core", "ccsd-2e", {"symmetry": True}),
        ("H2O-symmetry-C2v-frozen", h2o, 0, 0, "sto-3g", False, [0, 1, 6], "fci", {"symmetry": "C2v"}),
        ("NaH-ecp-rhf-frozen-4-9", nah, 0, 0, "lanl2dz", False, [4, 5, 6, 7, 8, 9], "fci", ecp),
        ("NaH-ecp-uhf-perspin", nah, 0, 0, "lanl2dz", True, [[4, 5, 6, 7, 8, 9], [4, 5, 6, 7, 8, 9]], "ccsd-2e", ecp),
        ("NaH+-ecp-rohf-doublet", nah, 1, 1, "lanl2dz", False, [3, 4, 5, 6, 7, 8, 9], "fci", ecp),
        ("NaH-ecp-symmetry-rhf", nah, 0, 0, "lanl2dz", False, [3, 5, 6, 7, 8, 9], "fci", dict(ecp, symmetry=True)),
        ("H3--equilateral-unfrozen", h3m, -1, 0, "sto-3g", False, None, "fci", tgs),
    ]
    # point-charge embedding (IntegralSolverPySCFQMMM) x {RHF, ROHF, UHF} x {no frozen, some frozen}
    def charges(n):
        return [[round(rng.choice([-1, 1]) * rng.uniform(0.2, 0.6), 4),
                 [round(rng.uniform(1.5, 2.5) * rng.choice([-1, 1]), 4), round(rng.uniform(-1., 1.), 4), round(rng.uniform(-1., 3.), 4)]] for _ in range(n)]
    h2q, h3q = chain(2, rng), chain(3, rng)
    cases += [
        ("H2-qmmm-rhf", h2q, 0, 0, "sto-3g", False, None, "fci", {"solver": {"kind": "qmmm", "charges": charges(1)}}),
        ("H2-qmmm-uhf", h2q, 0, 0, "sto-3g", True, None, "fci-restricted-twin", {"solver": {"kind": "qmmm", "charges": charges(2)}}),
        ("H2-631g-qmmm-rhf-frozen", h2q, 0, 0, "6-31g", False, [3], "fci", {"solver": {"kind": "qmmm", "charges": charges(2)}}),
        ("H3-qmmm-rohf", h3q, 0, 1, "sto-3g", False, None, "fci", {"solver": {"kind": "qmmm", "charges": charges(2)}}),
        ("H3-qmmm-rohf-frozen", h3q, 0, 1, "sto-3g", False, [2], "fci", {"solver": {"kind": "qmmm", "charges": charges(1)}}),
        ("H3-qmmm-uhf", h3q, 0, 1, "sto-3g", True, None, "fci-restricted-twin", {"solver": {"kind": "qmmm", "charges": charges(1)}}),
        ("H3-qmmm-uhf-frozen", h3q, 0, 1, "sto-3g", True, [[2], [2]], "ucasci", {"solver": {"kind": "qmmm", "charges": charges(2)}}),
        ("LiH-qmmm-rhf-frozen-core", lih, 0, 0, "sto-3g", False, "frozen_core", "fci", {"solver": {"kind": "qmmm", "charges": charges(2)}}),
        ("LiH-qmmm-uhf-frozen", lih, 0, 0, "sto-3g", True, [[0, 5], [0, 5]], "ucasci", {"solver": {"kind": "qmmm", "charges": charges(1)}}),
        ("H3+-qmmm-uhf-perspin", tri, 1, 0, "sto-3g", True, [[2], [1]], "ccsd-2e", {"solver": {"kind": "qmmm", "charges": charges(1)}}),
    ]
    cases += [
        ("CH2-bent-frozen-0-1-6", ch2, 0, 0, "sto-3g", False, [0, 1, 6], "fci", tgs),
    ]
    if not quick:
        for k in range(2):
            cases += [("H2-g%d" % k, chain(2, rng, 0.4, 2.5), 0, 0, "sto-3g", False, None, "fci"),
                      ("H2-631g-g%d" % k, chain(2, rng), 0, 0, "6-31g", False, None, "fci"),
                      ("H4-triplet-frozen-0-3-g%d" % k, chain(4, rng), 0, 2, "sto-3g", False, [0, 3], "fci"),
                      ("H4-frozen-1-g%d" % k, chain(4, rng), 0, 0, "sto-3g", False, [1], "fci")]
        lih2 = [("Li", (0., 0., 0.)), ("H", (0., 0., round(rng.uniform(1.3, 1.9), 6)))]
        cases += [("LiH-frozen-0-4", lih2, 0, 0, "sto-3g", False, [0, 4], "fci"),
                  ("LiH+-rohf-frozen-core", lih2, 1, 1, "sto-3g", False, 1, "fci"),
                  ("LiH-uhf-perspin", lih2, 0, 0, "sto-3g", True, [[0, 5], [0, 4]], "ccsd-2e")]
        cases += [("H2O-frozen-core-and-virtual", h2o, 0, 0, "sto-3g", False, [0, 1, 6], "fci"),
                  ("H2O+-rohf-symmetry", h2o, 1, 1, "sto-3g", False, [0, 1, 6], "fci", {"symmetry": True}),
                  ("CH2-bent-frozen-0-6", ch2, 0, 0, "sto-3g", False, [0, 6], "fci", tgs),
                  ("CH2-bent-frozen-0", ch2, 0, 0, "sto-3g", False, [0], "fci", tgs),
                  ("CH2-bent-uhf-frozen-0-1-6", ch2, 0, 0, "sto-3g", True, [[0, 1, 6], [0, 1, 6]], "ucasci", tgs),
                  ("CH2-bent-symmetry-frozen-0-1-6", ch2, 0, 0, "sto-3g", False, [0, 1, 6], "fci", dict(tgs, symmetry=True)),
                  ("LiH-lanl2dz-no-ecp", lih2, 0, 0, "lanl2dz", False, [0, 4, 5, 6, 7, 8, 9, 10], "fci"),
                  ("NaH-ecp-rhf-g2", [("Na", (0., 0., 0.)), ("H", (0., 0., round(rng.uniform(1.7, 2.1), 6)))], 0, 0, "lanl2dz", False,
                   [1, 5, 6, 7, 8, 9], "fci", ecp)]
    return cases


def ucasci_energy(mol):
    """PySCF UCASCI on the UHF mean field with the molecule's frozen orbitals (classical reference, trusted)."""
    from pyscf import mcscf
    na, nb = mol.n_active_ab_electrons
    nm = mol.n_active_mos
    if nm[0] != nm[1]:
        raise ValueError("UCASCI reference needs equal alpha/beta active spaces")
    cas = mcscf.UCASCI(mol.mean_field, nm[0], (na, nb))
    cas.verbose = 0
    mo = cas.sort_mo([[i + 1 for i in sorted(mol.active_mos[0])], [i + 1 for i in sorted(mol.active_mos[1])]])
    return float(cas.kernel(mo)[0])


def random_rotation(n, rs):
    q, r = np.linalg.qr(rs.normal(size=(n, n)))
    return q * np.sign(np.diag(r))


def block_rotation(act, labels, rs):
    """Random orthogonal matrix on the orbitals `act`; with symmetry labels only orbitals of the same irrep are mixed
    (a molecule built with symmetry=True only accepts symmetry-adapted coefficients through its setter)."""
    n = len(act)
    if labels is None:
        return random_rotation(n, rs)
    r = np.eye(n)
    for lab in sorted(set(labels[i] for i in act)):
        idx = [k for k, i in enumerate(act) if labels[i] == lab]
        r[np.ix_(idx, idx)] = random_rotation(len(idx), rs)
    return r


def rotated_coeff(mol, rs):
    """A copy of the current MO coefficients with a random orthogonal rotation among the active orbitals (per spin for UHF)."""
    sym = getattr(mol, "mo_symm_ids", None) if mol.symmetry else None
    if mol.uhf:
        new = []
        for s_ in range(2):
            c = np.array(mol.mo_coeff[s_], dtype=float).copy()
            act = list(mol.active_mos[s_])
            c[:, act] = c[:, act] @ block_rotation(act, None if sym is None else list(sym[s_]), rs)
            new.append(c)
        return new
    c = np.array(mol.mo_coeff, dtype=float).copy()
    act = list(mol.active_mos)
    c[:, act] = c[:, act] @ block_rotation(act, None if sym is None else list(sym), rs)
    return c


def coeff_snapshot(mol):
    """Every place the molecule keeps its MO coefficients (solver and PySCF mean field)."""
    out = [np.array(x, dtype=float).copy() for x in (mol.solver.mo_coeff if mol.uhf else [mol.solver.mo_coeff])]
    mf = getattr(mol, "mean_field", None)
    if mf is not None:
        out += [np.array(x, dtype=float).copy() for x in (mf.mo_coeff if mol.uhf else [mf.mo_coeff])]
    return out


def flat_integrals(res):
    """(core, one-body, two-body) of either reference type -> list of arrays."""
    core, one, two = res
    arrs = [np.array([float(core)])]
    for x in (one, two):
        if isinstance(x, (list, tuple)):
            arrs += [np.asarray(a, dtype=float) for a in x]
        else:
            arrs.append(np.asarray(x, dtype=float))
    return arrs


def max_diff(a, b):
    if len(a) != len(b) or any(x.shape != y.shape for x, y in zip(a, b)):
        return float("inf")
    return max([float(np.max(np.abs(x - y))) if x.size else 0. for x, y in zip(a, b)] + [0.])


def fop_diff(f, g):
    keys = set(f.terms) | set(g.terms)
    return max([abs(f.terms.get(k, 0.) - g.terms.get(k, 0.)) for k in keys] + [0.])


def argument_routes(mol):
    """Every public entry point that accepts explicit MO coefficients: name -> (call with argument, call without)."""
    r = {"get_active_space_integrals": (lambda c: flat_integrals(mol.get_active_space_integrals(c)), lambda: flat_integrals(mol.get_active_space_integrals())),
         "get_full_space_integrals": (lambda c: flat_integrals(mol.get_full_space_integrals(c)), lambda: flat_integrals(mol.get_full_space_integrals())),
         "get_integrals(fold_frozen=True)": (lambda c: flat_integrals(mol.get_integrals(c, True)), lambda: flat_integrals(mol.get_integrals(None, True))),
         "get_integrals(fold_frozen=False)": (lambda c: flat_integrals(mol.get_integrals(mo_coeff=c, fold_frozen=False)), lambda: flat_integrals(mol.get_integrals(fold_frozen=False))),
         "solver.get_integrals": (lambda c: flat_integrals(mol.solver.get_integrals(mol, c)), lambda: flat_integrals(mol.solver.get_integrals(mol)))}
    if mol.uhf and hasattr(mol.solver, "compute_uhf_integrals"):
        r["solver.compute_uhf_integrals"] = (lambda c: flat_integrals((0.,) + tuple(mol.solver.compute_uhf_integrals(mol, c))),
                                             lambda: flat_integrals((0.,) + tuple(mol.solver.compute_uhf_integrals(mol, mol.solver.mo_coeff))))
    return r


def check_argument_route(chk, mol, cnew, tag, case):
    """Predicate: passing MO coefficients as ARGUMENT gives what setting them through the mo_coeff setter and calling
    without argument gives (1e-10), and leaves the molecule's own coefficients untouched.  Leaves the molecule with
    cnew set (setter).  -> (fermionic Hamiltonian of the argument route, number of comparisons)."""
    routes = argument_routes(mol)
    before = coeff_snapshot(mol)
    arg = {}
    for name, (with_arg, _) in routes.items():
        try:
            arg[name] = with_arg(copy.deepcopy(cnew))
        except Exception as e:
            chk.violation("real:argument-route:%s:%s:exception" % (name, tag), "%s: %s(mo_coeff=...) raised %s: %s" % (case["info"]["label"], name, type(e).__name__, e), case)
            continue
        if max_diff(coeff_snapshot(mol), before) > 0:
            chk.violation("real:argument-route:%s:%s:changed-mo_coeff" % (name, tag),
                          "%s: %s(mo_coeff=...) modified the molecule's own MO coefficients" % (case["info"]["label"], name), case)
            mol.mo_coeff = [b.copy() for b in before[:2]] if mol.uhf else before[0].copy()
    fop_arg = None
    try:
        fop_arg = mol._get_fermionic_hamiltonian(copy.deepcopy(cnew))
        if max_diff(coeff_snapshot(mol), before) > 0:
            chk.violation("real:argument-route:_get_fermionic_hamiltonian:%s:changed-mo_coeff" % tag, case["info"]["label"], case)
    except Exception as e:
        chk.violation("real:argument-route:_get_fermionic_hamiltonian:%s:exception" % tag, "%s: %s: %s" % (case["info"]["label"], type(e).__name__, e), case)
    mol.mo_coeff = copy.deepcopy(cnew)
    n = 0
    for name, (_, without) in routes.items():
        if name not in arg:
            continue
        d = max_diff(arg[name], without())
        n += 1
        if d > 1e-10:
            chk.violation("real:argument-route:%s:%s:differs-from-setter-route" % (name, tag),
                          "%s: %s(mo_coeff=C) differs from setting mo_coeff = C and calling without argument (max |diff| %.3g)"
                          % (case["info"]["label"], name, d), case)
    if fop_arg is not None:
        d = fop_diff(fop_arg, mol.fermionic_hamiltonian)
        n += 1
        if d > 1e-10:
            chk.violation("real:argument-route:_get_fermionic_hamiltonian:%s:differs-from-setter-route" % tag,
                          "%s: _get_fermionic_hamiltonian(mo_coeff=C) differs from fermionic_hamiltonian after mo_coeff = C (max |diff| %.3g)"
                          % (case["info"]["label"], d), case)
    return fop_arg, n


def struct_jobs(mol, mapping, utd, jobs, meta, tag, fop=None, sector=None):
    """Record the words of the code's qubit Hamiltonian, its reference vector and its sector basis; -> float coefficients.
    sector: (n_alpha, n_beta) other than the target sector (diagnostics)."""
    qop, nq, ref, encode = qubit_artifacts(mol, mapping, utd, fop)
    terms = [(t, c) for t, c in qop.terms.items()]
    words = []
    for t, _ in terms:
        w = [0] * nq
        for q, l in t:
            w[q] = LETTER[l]
        words.append(w)
    na, nb = sector or mol.n_active_ab_electrons
    basis = [encode(d) for d in sector_dets(mol.n_active_sos, na, nb)]
    out = {}
    for kind, extra in (("sref", {"v": ref}), ("ssec", {"basis": basis})):
        jid = len(jobs) + 1
        jobs.append(dict(id=jid, kind=kind, nq=nq, words=words, **extra))
        meta[jid] = tag
        out[kind] = jid
    return out, np.array([complex(c) for _, c in terms]), len(basis)


def contract_ref(coefs, e):
    return complex(np.dot(coefs, np.array(e, dtype=float)))


def contract_sector(coefs, st, dim):
    """H[x, b] = sum_j c_j i^p over the words with P_j|e_b> = i^p|e_x>; leak = largest amplitude leaving the span."""
    H = np.zeros((dim, dim), dtype=complex)
    leak = {}
    ph = [1, 1j, -1, -1j]
    for c, row in zip(coefs, st):
        for b, (pos, p, z) in enumerate(row):
            if pos:
                H[pos - 1, b] += c * ph[p]
            else:
                leak[(z, b)] = leak.get((z, b), 0) + c * ph[p]
    herm = float(np.max(np.abs(H - H.conj().T))) if dim else 0.
    return H, max([abs(v) for v in leak.values()] + [0.]), herm


def part_d(chk, rng):
    run_real(chk, real_cases(chk, rng), np.random.RandomState(chk.seed + 4), None, "c04/d", histories=reuse_histories(chk, random.Random(chk.seed + 2)))


def run_real(chk, cases, rs, only, name, max_parallel=16, histories=None):
    jobs, recs = real_record(chk, cases, rs, only, histories)
    real_evaluate(chk, recs, real_judge(jobs, name, max_parallel))


def real_judge(jobs, name, max_parallel=16):
    return tlc.judge("C04Trace", jobs, name, {"M": M}, timeout=3 * 3600, heap="6g", max_parallel=max_parallel)


def make_solver(spec):
    """{"kind": "pyscf"} | {"kind": "qmmm", "charges": [[q, [x, y, z]], ...]} -> a NEW IntegralSolver instance."""
    from tangelo.toolboxes.molecular_computation.integral_solver_pyscf import IntegralSolverPySCF, IntegralSolverPySCFQMMM
    if spec["kind"] == "qmmm":
        return IntegralSolverPySCFQMMM([(float(c), tuple(float(x) for x in xyz)) for c, xyz in spec["charges"]])
    return IntegralSolverPySCF()


def build_molecule(xyz, q, spin, basis, uhf, frozen, opts, solver=None):
    """SecondQuantizedMolecule from a case description; opts may carry ecp / symmetry and a solver spec."""
    from tangelo import SecondQuantizedMolecule
    o = copy.deepcopy({k: v for k, v in opts.items() if k not in ("tags", "solver")})
    if solver is None and opts.get("solver"):
        solver = make_solver(opts["solver"])
    if solver is not None:
        o["solver"] = solver
    return SecondQuantizedMolecule(xyz, q, spin, basis=basis, uhf=uhf, frozen_orbitals=copy.deepcopy(frozen), **o)


def classical_reference(mol, refkind, xyz, q, spin, basis, opts):
    from tangelo.algorithms.classical import FCISolver, CCSDSolver
    if refkind == "fci":
        return FCISolver(mol).simulate()
    if refkind == "fci-restricted-twin":
        return FCISolver(build_molecule(xyz, q, spin, basis, False, None, opts)).simulate()
    if refkind == "ucasci":
        return ucasci_energy(mol)
    return CCSDSolver(mol).simulate()


def reuse_histories(chk, rng):
    """Histories in which ONE solver instance is handed to successive molecules (a geometry scan sharing its solver):
    same atoms / new geometry, same AO count / other element, then another basis."""
    def ch(n):
        return [[round(rng.choice([-1, 1]) * rng.uniform(0.2, 0.6), 4), [round(rng.uniform(1.5, 2.5), 4), round(rng.uniform(-1., 1.), 4), round(rng.uniform(-1., 3.), 4)]] for _ in range(n)]

    def with_atoms(xyz, names):
        return [(a, c) for a, (_, c) in zip(names, xyz)]
    hs = []
    g = chain(4, rng)
    hs.append({"name": "rhf-H4-scan", "solver": {"kind": "pyscf"}, "uhf": False, "steps": [
        dict(label="H4-a", xyz=chain(4, rng), q=0, spin=0, basis="sto-3g", frozen=None),
        dict(label="H4-b", xyz=chain(4, rng), q=0, spin=0, basis="sto-3g", frozen=None),
        dict(label="H2-631g-same-AO-count", xyz=chain(2, rng), q=0, spin=0, basis="6-31g", frozen=None),
        dict(label="H3+-sto3g", xyz=chain(3, rng), q=1, spin=0, basis="sto-3g", frozen=None)]})
    g = chain(3, rng)
    hs.append({"name": "uhf-H3-scan", "solver": {"kind": "pyscf"}, "uhf": True, "steps": [
        dict(label="H3-a", xyz=chain(3, rng), q=0, spin=1, basis="sto-3g", frozen=None),
        dict(label="H3-b", xyz=chain(3, rng), q=0, spin=1, basis="sto-3g", frozen=None),
        dict(label="H3-c-frozen", xyz=g, q=0, spin=1, basis="sto-3g", frozen=[[2], [2]]),
        dict(label="H3-631g-frozen", xyz=chain(3, rng), q=0, spin=1, basis="6-31g", frozen=[[3, 4, 5], [3, 4, 5]])]})
    g = chain(2, rng)
    hs.append({"name": "qmmm-rhf-H2-scan", "solver": {"kind": "qmmm", "charges": ch(2)}, "uhf": False, "steps": [
        dict(label="H2-a", xyz=chain(2, rng), q=0, spin=0, basis="sto-3g", frozen=None),
        dict(label="H2-b", xyz=chain(2, rng), q=0, spin=0, basis="sto-3g", frozen=None),
        dict(label="H2-c", xyz=g, q=0, spin=0, basis="sto-3g", frozen=None),
        dict(label="H2-631g-frozen", xyz=chain(2, rng), q=0, spin=0, basis="6-31g", frozen=[3])]})
    if not chk.quick:
        hs.append({"name": "qmmm-uhf-H3-scan", "solver": {"kind": "qmmm", "charges": ch(1)}, "uhf": True, "steps": [
            dict(label="H3-a", xyz=chain(3, rng), q=0, spin=1, basis="sto-3g", frozen=None),
            dict(label="H3-b", xyz=chain(3, rng), q=0, spin=1, basis="sto-3g", frozen=[[2], [2]]),
            dict(label="H3-c", xyz=chain(3, rng), q=0, spin=1, basis="sto-3g", frozen=None)]})
        hs.append({"name": "rohf-H4+-scan", "solver": {"kind": "pyscf"}, "uhf": False, "steps": [
            dict(label="H4+-a", xyz=chain(4, rng), q=1, spin=1, basis="sto-3g", frozen=None),
            dict(label="H4+-b", xyz=chain(4, rng), q=1, spin=1, basis="sto-3g", frozen=[3]),
            dict(label="H4+-c", xyz=chain(4, rng), q=1, spin=3, basis="sto-3g", frozen=None)]})
        lih = lambda: [("Li", (0., 0., 0.)), ("H", (0., 0., round(rng.uniform(1.3, 1.9), 6)))]
        hs.append({"name": "rhf-LiH-scan", "solver": {"kind": "pyscf"}, "uhf": False, "steps": [
            dict(label="LiH-a", xyz=lih(), q=0, spin=0, basis="sto-3g", frozen=[0, 4, 5]),
            dict(label="LiH-b", xyz=lih(), q=0, spin=0, basis="sto-3g", frozen=[0, 4, 5]),
            dict(label="LiH-c", xyz=lih(), q=0, spin=0, basis="sto-3g", frozen=[0, 3])]})
    return hs


def reuse_record(chk, hist, jobs, meta, recs, rs, hi):
    """Replays one solver-reuse history on the implementation and records the state of the molecules after every step.
    scopes: latest-molecule(...)  the molecule that most recently ran its mean field on the shared solver
            shared-mo_coeff:...   another molecule of the same solver (its coefficients live on the solver)"""
    solver = make_solver(hist["solver"])
    uhf = hist["uhf"]
    opts = {"solver": hist["solver"]}
    mols, refs = [], []
    encs = [e for e in ENCODINGS if e[0] != "scBK"]

    def point(k, scope, n):
        st = hist["steps"][k]
        m = mols[k]
        info = dict(label="%s/%s[%d:%s]" % (hist["name"], st["label"], n, scope), xyz=st["xyz"], q=st["q"], spin=st["spin"], basis=st["basis"],
                    uhf=uhf, frozen=st["frozen"], ref="fresh-solver", opts=opts, scope=scope, history=hist)
        mapping, utd = encs[(hi + k + n) % len(encs)]
        try:
            rec = {"info": info, "mol": m, "e_fci": refs[k], "e_mf": float(m.mf_energy), "runs": []}
            ids, coefs, dim = struct_jobs(m, mapping, utd, jobs, meta, (hi, mapping, utd, scope))
            rec["runs"].append({"mapping": mapping, "utd": utd, "ids": ids, "coefs": coefs, "dim": dim, "rot": False})
            recs.append(rec)
        except Exception as e:
            chk.violation("real:solver-reuse:%s:exception:%s" % (scope, type(e).__name__), "%s: %s" % (info["label"], e),
                          {"kind": "reuse", "history": hist, "info": {k_: v for k_, v in info.items() if k_ != "history"}})

    n = 0
    for k, st in enumerate(hist["steps"]):
        try:
            mols.append(build_molecule(st["xyz"], st["q"], st["spin"], st["basis"], uhf, st["frozen"], {}, solver=solver))
            # classical reference from an independent molecule with its own solver
            fresh = build_molecule(st["xyz"], st["q"], st["spin"], st["basis"], uhf, st["frozen"], opts)
            kind = "fci" if not uhf else ("fci-restricted-twin" if st["frozen"] is None else "ucasci")
            refs.append(float(classical_reference(fresh, kind, st["xyz"], st["q"], st["spin"], st["basis"], opts)))
        except Exception as e:
            if "converge" in str(e):
                chk.inconclusive += 1
                return
            chk.violation("real:solver-reuse:construction:exception:%s" % type(e).__name__, "%s/%s: %s" % (hist["name"], st["label"], e),
                          {"kind": "reuse", "history": hist, "info": {"label": st["label"]}})
            return
        point(k, "latest-molecule", n)
        n += 1
        same_ao = k >= 1 and mols[k - 1].n_mos == mols[k].n_mos
        if same_ao:
            early = mols[k - 1]
            early.get_integrals()
            early.get_full_space_integrals()
            early.fermionic_hamiltonian
            point(k - 1, "shared-mo_coeff:earlier-molecule-after-later-construction", n)
            n += 1
            point(k, "latest-molecule:after-calls-on-earlier", n)
            n += 1
            if k == 1:
                # the earlier molecule gets rotated coefficients through its setter (its own mean-field orbitals, rotated)
                c0 = early.mean_field.mo_coeff
                act = early.active_mos
                if uhf:
                    new = [np.array(c0[s_], dtype=float).copy() for s_ in range(2)]
                    for s_ in range(2):
                        new[s_][:, list(act[s_])] = new[s_][:, list(act[s_])] @ random_rotation(len(act[s_]), rs)
                else:
                    new = np.array(c0, dtype=float).copy()
                    new[:, list(act)] = new[:, list(act)] @ random_rotation(len(act), rs)
                try:
                    early.mo_coeff = new
                except Exception as e:
                    chk.violation("real:solver-reuse:setter:exception:%s" % type(e).__name__, "%s: %s" % (hist["name"], e), {"kind": "reuse", "history": hist, "info": {}})
                point(k, "shared-mo_coeff:other-molecule-after-setter", n)
                n += 1


def real_record(chk, cases, rs, only, histories=None):
    """Phase 1: run the implementation (PySCF) and record the artefacts as structure jobs."""
    from tangelo import SecondQuantizedMolecule
    from tangelo.algorithms.classical import FCISolver, CCSDSolver
    quick = chk.quick
    jobs, meta, recs = [], {}, []
    for ci, cs in enumerate(cases):
        label, xyz, q, spin, basis, uhf, frozen, refkind = cs[:8]
        opts = dict(cs[8]) if len(cs) > 8 else {}
        tags = opts.get("tags", [])
        info = {"label": label, "xyz": xyz, "q": q, "spin": spin, "basis": basis, "uhf": uhf, "frozen": frozen, "ref": refkind,
                "opts": opts}
        try:
            mol = build_molecule(xyz, q, spin, basis, uhf, frozen, opts)
            e_fci = classical_reference(mol, refkind, xyz, q, spin, basis, opts)
        except Exception as e:
            if "converge" in str(e):        # SCF non-convergence at a random geometry is not a statement about C04
                chk.inconclusive += 1
                continue
            chk.violation("real:%s:exception:%s" % ("uhf" if uhf else "rhf", type(e).__name__), "%s: %s" % (label, e), {"kind": "real", "info": info})
            continue
        nso = mol.n_active_sos
        encs = [e for e in ENCODINGS if not (e[0] == "scBK" and nso < 4)]
        if quick or nso > 8:
            encs = [encs[(ci + k) % len(encs)] for k in ((0, 3) if nso < 8 else (0,))]
        if only:
            encs = only
        rec = {"info": info, "mol": mol, "e_fci": float(e_fci), "e_mf": float(mol.mf_energy), "runs": []}
        for mapping, utd in encs:
            ids, coefs, dim = struct_jobs(mol, mapping, utd, jobs, meta, (ci, mapping, utd, "hf"))
            rec["runs"].append({"mapping": mapping, "utd": utd, "ids": ids, "coefs": coefs, "dim": dim, "rot": False})
        if "spin0-triplet-ground-state" in tags and spin == 0 and mol.n_active_ab_electrons[1] >= 1:
            # vacuity diagnostic, independent of the classical solver: the Sz = +1 sector of the same Hamiltonian (JW);
            # its minimum coincides with the Sz = 0 minimum iff the Sz = 0 ground state is a component of a multiplet S >= 1
            na_, nb_ = mol.n_active_ab_electrons
            ids, coefs, dim = struct_jobs(mol, "JW", False, jobs, meta, (ci, "JW", False, "sz1"), sector=(na_ + 1, nb_ - 1))
            rec["runs"].append({"mapping": "JW", "utd": False, "ids": ids, "coefs": coefs, "dim": dim, "rot": "sz1"})
        recs.append(rec)
    # rotated orbitals (after all unrotated artefacts have been recorded): argument route first, then the setter
    for ci, rec in enumerate(recs):
        mol = rec["mol"]
        info = rec["info"]
        nso = mol.n_active_sos
        encs = [e for e in ENCODINGS if not (e[0] == "scBK" and nso < 4)]
        mapping, utd = only[0] if only else encs[(ci + 1) % len(encs)]
        tag = "%s:%s" % ("uhf" if info["uhf"] else ("rohf" if info["spin"] else "rhf"), "full" if info["frozen"] is None else "frozen")
        case = {"kind": "real", "info": info, "mapping": mapping, "utd": utd}
        try:
            cnew = rotated_coeff(mol, rs)
            fop_arg, ncmp = check_argument_route(chk, mol, cnew, tag, case)
            rec["arg_comparisons"] = ncmp
            ids, coefs, dim = struct_jobs(mol, mapping, utd, jobs, meta, (ci, mapping, utd, "rot"))
            rec["runs"].append({"mapping": mapping, "utd": utd, "ids": ids, "coefs": coefs, "dim": dim, "rot": "setter"})
            if fop_arg is not None and (nso <= 8 or not quick):
                ids, coefs, dim = struct_jobs(mol, mapping, utd, jobs, meta, (ci, mapping, utd, "arg"), fop_arg)
                rec["runs"].append({"mapping": mapping, "utd": utd, "ids": ids, "coefs": coefs, "dim": dim, "rot": "argument"})
        except Exception as e:
            chk.violation("real:rotation:exception:%s" % type(e).__name__, "%s: %s" % (info["label"], e), case)
    for hi, hist in enumerate(histories or []):
        reuse_record(chk, hist, jobs, meta, recs, rs, hi)
    return jobs, recs


def real_evaluate(chk, recs, judged):
    """Phase 3: contract TLC's structure constants with the code's float coefficients (numeric tail)."""
    verdicts, results = judged
    struct = {}
    n_struct = 0
    for r in results:
        chk.add_tlc(r)
        for e in r.prints("E"):
            struct[e["id"]] = e["e"]
    worst = {"ref": 0., "fci": 0., "rot": 0., "leak": 0.}
    n_ref = n_fci = n_rot = 0
    for rec in recs:
        info = rec["info"]
        ref = "uhf" if info["uhf"] else ("rohf" if info["spin"] else "rhf")
        if info.get("opts", {}).get("solver", {}).get("kind") == "qmmm":
            ref = "qmmm-" + ref
        frz = "full" if info["frozen"] is None else "frozen"
        if info.get("scope"):          # a point of a solver-reuse history: real:solver-reuse:<scope>:<reference>:...
            ref, frz = "solver-reuse:" + info["scope"], ref
        for run_ in rec["runs"]:
            enc = "%s:%s" % (run_["mapping"], "updown" if run_["utd"] else "alternating")
            case = {"kind": "real", "info": info, "mapping": run_["mapping"], "utd": run_["utd"]}
            if info.get("history"):
                case = {"kind": "reuse", "history": info["history"], "info": {k: v for k, v in info.items() if k != "history"}}
            e_j = struct[run_["ids"]["sref"]]
            st = struct[run_["ids"]["ssec"]]
            n_struct += len(e_j) + sum(len(r_) for r_ in st)
            if any(x == 99 for x in e_j):
                raise tlc.TLCError("structure constants outside {-1,0,1}")
            H, leak, herm = contract_sector(run_["coefs"], st, run_["dim"])
            worst["leak"] = max(worst["leak"], leak, herm)
            # 1e-6: openfermion drops operator terms below 1e-8 (EQ_TOLERANCE) independently of their Hermitian partners, so
            # an input with symmetry-forbidden integrals of ~1e-8..1e-7 legitimately yields a block that is Hermitian /
            # sector-invariant only to a few 1e-8; eigvalsh below works on the Hermitian part
            if leak > 1e-6 or herm > 1e-6:
                chk.violation("real:%s:%s:sector-not-invariant:%s" % (ref, frz, enc),
                              "%s: H_q leaves the encoded (n_alpha,n_beta) sector (%.2e) or block not Hermitian (%.2e)" % (info["label"], leak, herm), case)
                continue
            e0 = float(np.linalg.eigvalsh((H + H.conj().T) / 2)[0])
            if run_["rot"] == "sz1":
                rec["e_sz1"] = e0
                continue
            if not run_["rot"]:
                e_ref = contract_ref(run_["coefs"], e_j)
                d = abs(e_ref - rec["e_mf"])
                worst["ref"] = max(worst["ref"], d)
                n_ref += 1
                if d > 1e-8:
                    chk.violation("real:%s:%s:mean-field-energy:%s" % (ref, frz, enc),
                                  "%s: sum_j c_j <v|P_j|v> = %.10f but mf_energy = %.10f" % (info["label"], e_ref.real, rec["e_mf"]), case)
                d = abs(e0 - rec["e_fci"])
                worst["fci"] = max(worst["fci"], d)
                n_fci += 1
                if d > 1e-7:
                    key = "real:%s:%s:lowest-sector-eigenvalue:%s" % (ref, frz, enc)
                    tags = info.get("opts", {}).get("tags", [])
                    if "spin0-triplet-ground-state" in tags and info["spin"] == 0 and e0 < rec["e_fci"] and info["ref"] in ("fci", "fci-restricted-twin"):
                        # input class: the lowest Sz = 0 state of the active space is a triplet component
                        key = "real:%s:%s:spin0-triplet-ground-state:fci-singlet-only:%s" % (ref, "unfrozen" if info["frozen"] is None else "frozen", enc)
                    chk.violation(key, "%s: lowest sector eigenvalue %.10f, classical reference (%s) %.10f" % (info["label"], e0, info["ref"], rec["e_fci"]), case)
                rec.setdefault("e0", e0)
            else:
                d = abs(e0 - rec.get("e0", rec["e_fci"]))
                worst["rot"] = max(worst["rot"], d)
                n_rot += 1
                if d > 1e-7:
                    chk.violation("real:%s:%s:rotation-invariance:%s-route:%s" % (ref, frz, run_["rot"], enc),
                                  "%s: lowest sector eigenvalue %.10f after a random active-orbital rotation (%s route), %.10f before"
                                  % (info["label"], e0, run_["rot"], rec.get("e0", rec["e_fci"])), case)
    trip = {}
    for rec in recs:
        if "e_sz1" in rec and "e0" in rec:
            k = "unfrozen" if rec["info"]["frozen"] is None else "frozen"
            trip.setdefault(k, [0, 0])
            trip[k][0] += 1
            trip[k][1] += abs(rec["e_sz1"] - rec["e0"]) < 1e-6
    if trip and not getattr(chk, "_c04_replay", False) and any(v[1] == 0 for v in trip.values()) :
        raise tlc.TLCError("vacuity: no molecule tagged spin0-triplet-ground-state has a triplet Sz = 0 ground state %s" % trip)
    chk.part("D_triplet_ground_state_cases", **{k: {"molecules": v[0], "sz1_minimum_equals_sz0_minimum": v[1]} for k, v in trip.items()})
    chk.part("D_numeric_tail_NOT_model_checked", molecules=len(recs), mean_field_contractions=n_ref, fci_comparisons=n_fci,
             rotation_comparisons=n_rot, argument_vs_setter_comparisons=sum(r.get("arg_comparisons", 0) for r in recs),
             cells=sorted({"%s/%s/%s" % ("uhf" if r["info"]["uhf"] else "rohf", SPIN_CLASS.get(r["info"]["spin"], r["info"]["spin"]),
                                         "none" if r["info"]["frozen"] is None else "frozen") for r in recs}), structure_constants_from_tlc=n_struct,
             worst_abs_deviation={k: float("%.3g" % v) for k, v in worst.items()},
             note="TLC supplies <v|P_j|v> and P_j|e_b> = i^p|e_x> exactly; coefficients are the code's floats; eigenvalues by LAPACK; "
                  "mean-field / FCI / CCSD references by PySCF. Tolerances 1e-8 (mean field) and 1e-7 (eigenvalues).")


# =====================================================================================================
def run(chk):
    rng = random.Random(chk.seed)
    parts = os.environ.get("VERIF_C04_PARTS", "ABCD")      # development aid; the registered commands run every part
    import threading
    import time
    walls, errs, box = {}, [], {}
    lock = threading.Lock()
    plain_violation = chk.violation

    def locked_violation(*a, **k):          # part D records violations from its own thread
        with lock:
            return plain_violation(*a, **k)
    chk.violation = locked_violation

    def timed(name, fn):
        def go():
            t0 = time.time()
            try:
                box[name] = fn()
            except BaseException as e:      # re-raised in the main thread
                errs.append(e)
            walls[name] = round(time.time() - t0, 1)
        return go

    # schedule: B (pure TLC) and A's TLC exploration run in threads while the main thread records part D with PySCF;
    # then D's structure jobs run in a thread while the main thread replays A and records / judges C.
    def start(name, fn):
        t = threading.Thread(target=timed(name, fn))
        t.start()
        return t

    threads = []
    if "B" in parts:
        threads.append(start("B", lambda: part_b(chk)))
    ta = start("A_tlc", lambda: part_a_tlc(chk)) if "A" in parts else None
    if "D" in parts:
        t0 = time.time()
        djobs, drecs = real_record(chk, real_cases(chk, random.Random(chk.seed + 1)), np.random.RandomState(chk.seed + 4), None,
                                   reuse_histories(chk, random.Random(chk.seed + 2)))
        walls["D_record"] = round(time.time() - t0, 1)
        threads.append(start("D_tlc", lambda: real_judge(djobs, "c04/d", 4)))
    if ta is not None:
        ta.join()
        if not errs:
            timed("A_replay", lambda: part_a_replay(chk, box["A_tlc"]))()
    if "C" in parts and not errs:
        timed("C", lambda: part_c(chk, rng))()
    for t in threads:
        t.join()
    if errs:
        raise errs[0]
    if "D" in parts:
        real_evaluate(chk, drecs, box["D_tlc"])
    chk.part("wall_s_by_part", **walls)
    chk.cov["rule"] = "A: every occupation pattern x request x in-place/copy (n_mos<=5, two calls deep for n_mos<=3)"


def replay(chk, rec):
    """Re-executes the recorded case against the implementation (and TLC); True = the property holds on it now."""
    case = rec["case"]
    kind = case.get("kind")
    if kind == "freeze":
        v = replay_behaviour(case["tr"])
        print("replayed behaviour:", json.dumps({"mo": case["tr"]["mo"], "uhf": case["tr"]["uhf"],
              "calls": [(h["o"], req_to_py(h["req"]), h["inplace"], h["acc"]) for h in case["tr"]["hist"]]}))
        print("result:", v)
        return v is None
    if kind == "synth":
        c2 = check.Check("C04", ["quick"])
        c2.known = []
        jobs, meta = [], {}
        info = case.get("info") or {}
        encs = [(info["mapping"], info["up_then_down"])] if info else ENCODINGS
        built = synth_case_jobs(c2, case["case"], jobs, meta, bool(info), bool(info), encs)
        pend = [x for m_ in meta.values() for x in m_.get("pending", [])]
        if c2.violations:
            print("exception while recording:", c2.violations[0][:2])
            return False
        if not built:
            print("the implementation now rejects the request of this case")
            return False
        for j in jobs:
            j["diag"] = 1
        verdicts, results = tlc.judge("C04Trace", jobs, "c04/replay", {"M": M}, max_parallel=1)
        ok = True
        for j in jobs:
            print("job %d kind=%s %s: TLC verdict %s" % (j["id"], j["kind"], meta[j["id"]]["info"], verdicts[j["id"]]))
            ok = ok and verdicts[j["id"]] in ("ok", "invalid-request")
        if pend and not any(v == "invalid-request" for v in verdicts.values()):
            print("exception while recording:", pend[0][:2])
            ok = False
        elif pend:
            print("(request invalid per spec - accepted by the implementation, see Part A; downstream exception not judged)")
        for r in results:
            for t in r.out.splitlines():
                if t.startswith('<<"D"') and "<<>>" not in t:
                    print("first mismatching element <<\"D\", id, <<X, Y, 2^K <X|H_code|Y>, 2^(K-1) <F u X|2 H_full|F u Y>>> >>:", t)
        return ok
    if kind == "reuse":
        c2 = check.Check("C04", ["quick"])
        c2.known = []
        c2._c04_replay = True
        run_real(c2, [], np.random.RandomState(chk.seed + 4), None, "c04/replay_d", histories=[case["history"]])
        for v in c2.violations:
            print("violation:", v[0], v[1])
        keys = [v[0] for v in c2.violations]
        return rec.get("key") not in keys if rec.get("key") else not keys
    if kind == "real":
        c2 = check.Check("C04", ["quick"])
        c2.known = []
        info = case["info"]
        c2._c04_replay = True
        only = [(case["mapping"], case["utd"])] if "mapping" in case else None
        run_real(c2, [(info["label"], info["xyz"], info["q"], info["spin"], info["basis"], info["uhf"], info["frozen"], info["ref"], info.get("opts", {}))],
                 np.random.RandomState(chk.seed + 4), only, "c04/replay_d")
        for v in c2.violations:
            print("violation:", v[0], v[1])
        keys = [v[0] for v in c2.violations]
        if rec.get("key") and rec["key"] not in keys and keys:
            print("(the recorded key %s is not reproduced; the violations above belong to other records / known findings)" % rec["key"])
        return rec.get("key") not in keys if rec.get("key") else not keys
    print(rec)
    return False


if __name__ == "__main__":
    check.main("C04", run, replay)
