#!/venv/bin/python
"""C05 - reference-state circuits encode the requested occupations.

S: spec/C05RefState.tla - the predicate Encodes (C05Defs) is validated on the spec's own Jordan-Wigner: accepted for the
   right basis state, rejected for every other one; Filling is an Aufbau filling with the right (n_e, spin).
V: spec/C05Trace.tla - for every (n_spinorbitals, n_electrons, spin, encoding, ordering) the bit vector read off the code's
   reference circuit and the code's own encodings of a+_p a_p are recorded; TLC evaluates <x|Q_p|x> exactly, checks that
   |x> is an eigenvector of every Q_p and compares with the occupation that the spec's Filling prescribes. The same for
   get_mapped_vector / vector_to_circuit on every occupation vector.
"""
import copy
import itertools
import random
import os
import sys
import warnings

sys.path.insert(0, os.path.join(os.path.dirname(os.path.abspath(__file__)), "..", "harness"))
import check  # noqa: E402
import tlc  # noqa: E402
from enc import qubit_op_to_json, OffGrid  # noqa: E402

M = 8
MAPPINGS = ["JW", "BK", "SCBK", "JKMN"]
_qcache = {}


def n_qubits_of(mapping, nso):
    return nso - 2 if mapping == "SCBK" else nso


def number_ops(mapping, nso, utd, ne, spin):
    """The code's encodings of a+_p a_p, p in the alternating numbering (the public convention of the operator API)."""
    from tangelo.toolboxes.operators import FermionOperator
    from tangelo.toolboxes.qubit_mappings.mapping_transform import fermion_to_qubit_mapping
    key = (mapping, nso, utd) + ((ne, spin) if mapping == "SCBK" else ())
    if key not in _qcache:
        ops = []
        with warnings.catch_warnings():
            warnings.simplefilter("ignore")
            for p in range(nso):
                ops.append(fermion_to_qubit_mapping(FermionOperator(((p, 1), (p, 0))), mapping, n_spinorbitals=nso,
                                                    n_electrons=ne, up_then_down=utd, spin=spin))
        _qcache[key] = ops
    return _qcache[key]


def op_width(ops):
    return 1 + max([q for op in ops for t in op.terms for q, _ in t] + [-1])


def read_circuit(circ):
    """bits (parity of the number of plain X gates per qubit), number of gates that are not plain X gates, width."""
    bits = [0] * circ.width
    bad = 0
    for g in circ:
        if g.name == "X" and not g.control and len(g.target) == 1:
            bits[g.target[0]] ^= 1
        else:
            bad += 1
    return bits, bad, circ.width


def spins_for(nso, ne):
    """None (no spin argument) plus every admissible explicit spin 2S = n_alpha - n_beta, negative ones included."""
    out = [None]
    for s in range(-nso, nso + 1):
        if (ne + s) % 2:
            continue
        na, nb = (ne + s) // 2, (ne - s) // 2
        if 0 <= na <= nso // 2 and 0 <= nb <= nso // 2:
            out.append(s)
    return out


def mk_job(jobs, meta, kind, mapping, nso, utd, bits, bad, width, ops, info, **fields):
    n = max(width, op_width(ops), n_qubits_of(mapping, nso), 0)
    bits = list(bits) + [0] * (n - len(bits))
    jid = len(jobs) + 1
    j = {"id": jid, "kind": kind, "nso": nso, "n": n, "x": [int(b) for b in bits], "bad": bad,
         "Q": [qubit_op_to_json(op, n, M) for op in ops], "ne": 0, "spin": 0, "dflt": True, "occvec": []}
    j.update(fields)
    jobs.append(j)
    meta[jid] = dict(info, kind=kind, mapping=mapping, nso=nso, utd=utd)
    return j


def edit_in_place(arr):
    """what a caller may legitimately do with an array it was handed: overwrite it (all bits flipped)."""
    try:
        arr[...] = 1 - arr
    except (ValueError, TypeError):
        pass            # read-only result: nothing to corrupt


def ref_case(chk, jobs, meta, mapping, nso, utd, ne, spin, hist=False):
    """hist=False: one call of get_reference_circuit.  hist=True ('results are fresh objects'): a first round of calls whose
    results are edited in place by the caller (array overwritten, a gate appended to the circuit), then the SAME calls again;
    the second get_vector and the second get_reference_circuit are recorded and must still encode the requested occupations."""
    from tangelo.toolboxes.qubit_mappings.statevector_mapping import get_reference_circuit, get_vector, vector_to_circuit
    from tangelo.linq import Gate
    info = {"ne": ne, "spin": spin, "hist": hist}
    try:
        na = (ne + 1) // 2 if spin is None else (ne + spin) // 2
        # the operator encoder gets the spin the state has (scBK needs it); None -> the documented default filling
        ops = number_ops(mapping, nso, utd, ne, 2 * na - ne)
        with warnings.catch_warnings():
            warnings.simplefilter("ignore")
            recorded = []
            if hist:
                first = get_vector(nso, ne, mapping, up_then_down=utd, spin=spin)
                edit_in_place(first)
                c0 = get_reference_circuit(nso, ne, mapping, up_then_down=utd, spin=spin)
                if c0.width > 0:
                    c0.add_gate(Gate("X", target=0))
                c1 = vector_to_circuit(get_vector(nso, ne, mapping, up_then_down=utd, spin=spin))
                recorded.append(("get_vector-after-edit", read_circuit(c1)))      # read BEFORE this caller edits c1 too
                if c1.width > 0:
                    c1.add_gate(Gate("X", target=c1.width - 1))
            recorded.append(("get_reference_circuit" + ("-after-edit" if hist else ""),
                             read_circuit(get_reference_circuit(nso, ne, mapping, up_then_down=utd, spin=spin))))
        for source, (bits, bad, width) in recorded:
            mk_job(jobs, meta, "ref", mapping, nso, utd, bits, bad, width, ops, dict(info, source=source),
                   ne=ne, spin=0 if spin is None else spin, dflt=spin is None)
    except OffGrid:
        chk.inconclusive += 1
    except Exception as e:
        chk.violation("ref:%s:utd=%s:exception" % (mapping, utd), "%s: %s" % (type(e).__name__, e),
                      dict(info, kind="ref", mapping=mapping, nso=nso, utd=utd))


def vec_case(chk, jobs, meta, mapping, nso, utd, vec, hist=False, first=None, container="array"):
    """first = (mapping1, utd1): the SAME caller array is first encoded with that configuration, then with (mapping, utd);
    the second result is recorded and must encode the occupation the caller wrote into the array."""
    from tangelo.toolboxes.qubit_mappings.statevector_mapping import get_mapped_vector, vector_to_circuit
    import numpy as np
    info = {"occvec": list(vec), "hist": hist, "first": list(first) if first else None, "container": container}
    try:
        with warnings.catch_warnings():
            warnings.simplefilter("ignore")
            if hist:        # an earlier caller overwrote the array it was handed
                edit_in_place(get_mapped_vector(np.array(vec, dtype=int), mapping, up_then_down=utd))
            user_vec = as_container(vec, container)
            if first:
                get_mapped_vector(user_vec, first[0], up_then_down=first[1])
            mv = get_mapped_vector(user_vec, mapping, up_then_down=utd)
            circ = vector_to_circuit(mv)
        bits, bad, width = read_circuit(circ)
        mvl = [float(v) for v in mv]
        if any(v not in (0.0, 1.0) for v in mvl) or [int(v) for v in mvl] != bits[:len(mvl)] or len(mvl) != width:
            chk.violation("vec:%s:utd=%s:vector-circuit-mismatch" % (mapping, utd),
                          "get_mapped_vector %s vs circuit bits %s" % (mvl, bits), dict(info, kind="vec", mapping=mapping, nso=nso, utd=utd))
            return
        ne = sum(vec)
        na = sum(vec[::2])
        ops = number_ops(mapping, nso, utd, ne, 2 * na - ne)
        mk_job(jobs, meta, "vec", mapping, nso, utd, bits, bad, width, ops, info, occvec=list(vec))
    except OffGrid:
        chk.inconclusive += 1
    except Exception as e:
        chk.violation("vec:%s:utd=%s:exception" % (mapping, utd), "%s: %s" % (type(e).__name__, e),
                      dict(info, kind="vec", mapping=mapping, nso=nso, utd=utd))


def frame_targets():
    from tangelo.toolboxes.qubit_mappings import statevector_mapping as sm
    t = [("get_mapped_vector:%s:utd=%s" % (m, u), (lambda v, m=m, u=u: sm.get_mapped_vector(v, m, up_then_down=u)))
         for m in MAPPINGS for u in (False, True)]
    t += [("vector_to_circuit", sm.vector_to_circuit), ("do_bk_transform", sm.do_bk_transform),
          ("do_jkmn_transform", sm.do_jkmn_transform), ("do_scbk_transform", lambda v: sm.do_scbk_transform(v, len(v)))]
    return t


CONTAINERS = ("list", "tuple", "array", "int8", "bool", "npint-list")


def as_container(vec, container):
    """the same occupation as the containers a caller may hold it in (documented: 'list of int' / 'array of int')"""
    import numpy as np
    return {"list": lambda: list(vec), "tuple": lambda: tuple(vec), "array": lambda: np.array(vec, dtype=int),
            "int8": lambda: np.array(vec, dtype=np.int8), "bool": lambda: np.array(vec, dtype=bool),
            "npint-list": lambda: [np.int64(x) for x in vec]}[container]()


def result_bits(res):
    """a function result as a list of ints (a Circuit is read as its X-gate bit vector)"""
    if hasattr(res, "width") and hasattr(res, "_gates"):
        bits, bad, width = read_circuit(res)
        return bits + [2 * bad]
    out = []
    for x in res:
        f = float(x)
        out.append(int(f) if f == int(f) else -7)
    return out


def container_case(chk, jobs, meta, fn_name, fn, vec, container):
    """the result for this container must be identical to the result for an int ndarray (whose spec-correctness the vec
    records decide), and the caller's argument must be untouched; both equalities are judged by TLC (kind "frame")."""
    import copy as _copy
    arg = as_container(vec, container)
    before = [int(x) for x in arg]
    try:
        with warnings.catch_warnings():
            warnings.simplefilter("ignore")
            ref = result_bits(fn(as_container(vec, "array")))
            got = result_bits(fn(arg))
    except Exception as e:
        if container in ("list", "tuple", "array"):
            chk.violation("container:%s:%s:exception" % (fn_name, container), "%s: %s" % (type(e).__name__, e),
                          {"kind": "container", "fn": fn_name, "container": container, "occvec": list(vec), "nso": len(vec),
                           "mapping": fn_name, "utd": container})
        return
    after = [int(x) for x in arg]
    for what, a, b in (("result", ref, got), ("argument", before, after)):
        jid = len(jobs) + 1
        jobs.append({"id": jid, "kind": "frame", "nso": len(vec), "n": 0, "x": [], "bad": 0, "Q": [], "ne": 0, "spin": 0, "dflt": True,
                     "occvec": [], "before": a, "after": b})
        meta[jid] = {"kind": "frame", "mapping": fn_name, "utd": container, "nso": len(vec), "occvec": list(vec), "fn": fn_name,
                     "container": container, "what": what, "containers": True}


def frame_case(chk, jobs, meta, fn_name, fn, vec, container):
    """frame condition: the caller's vector argument (numpy array or list) is bit-identical after the call."""
    import numpy as np
    arg = np.array(vec, dtype=int) if container == "array" else list(vec)
    before = [int(x) for x in arg]
    try:
        with warnings.catch_warnings():
            warnings.simplefilter("ignore")
            fn(arg)
    except Exception:
        return          # refusals / failures are judged by the other parts (lists are not documented inputs)
    try:
        after = [int(x) for x in arg]
    except Exception:
        after = [-1]
    jid = len(jobs) + 1
    jobs.append({"id": jid, "kind": "frame", "nso": len(vec), "n": 0, "x": [], "bad": 0, "Q": [], "ne": 0, "spin": 0, "dflt": True,
                 "occvec": [], "before": before, "after": after})
    meta[jid] = {"kind": "frame", "mapping": fn_name, "utd": container, "nso": len(vec), "occvec": list(vec), "fn": fn_name,
                 "container": container}


def configs():
    return [(m, u) for m in MAPPINGS for u in (False, True)]


def gen_jobs(chk, jobs, meta, rng=None):
    quick = chk.quick
    rng = rng or random.Random(chk.seed)
    ns_ref = [2, 4, 6] if quick else [2, 4, 6, 8, 10, 12]
    ns_vec = [2, 4, 6] if quick else [2, 4, 6, 8]
    for nso in ns_ref:
        for mapping in MAPPINGS:
            for utd in (False, True):
                for ne in range(nso + 1):
                    for spin in spins_for(nso, ne):
                        ref_case(chk, jobs, meta, mapping, nso, utd, ne, spin)
    n_ref = len(jobs)
    for nso in ns_vec:
        for mapping in MAPPINGS:
            for utd in (False, True):
                for vec in itertools.product((0, 1), repeat=nso):
                    vec_case(chk, jobs, meta, mapping, nso, utd, vec)
    n_plain = len(jobs)
    # ---- history part: results must be fresh objects (the same sweep again, after callers edited earlier results in place)
    for nso in ([2, 4, 6] if quick else [2, 4, 6, 8]):
        for mapping in MAPPINGS:
            for utd in (False, True):
                for ne in range(nso + 1):
                    for spin in spins_for(nso, ne):
                        ref_case(chk, jobs, meta, mapping, nso, utd, ne, spin, hist=True)
                vecs = list(itertools.product((0, 1), repeat=nso))
                if len(vecs) > 16:
                    vecs = rng.sample(vecs, 16 if quick else 48)
                for vec in vecs:
                    vec_case(chk, jobs, meta, mapping, nso, utd, vec, hist=True)
    # ---- the caller's arguments: frame condition for every function that takes a vector, and 'same user array, two
    #      encodings in a row' for every ordered pair of (mapping, ordering) configurations
    targets = frame_targets()
    for nso in ([2, 4, 6] if quick else [2, 4, 6, 8]):
        vecs = list(itertools.product((0, 1), repeat=nso))
        fvecs = vecs if len(vecs) <= 16 else rng.sample(vecs, 8 if quick else 24)
        for vec in fvecs:
            for container in ("array", "list"):
                for fn_name, fn in targets:
                    frame_case(chk, jobs, meta, fn_name, fn, vec, container)
        pvecs = vecs if len(vecs) <= 16 else rng.sample(vecs, 6 if quick else 16)
        for c1 in configs():
            for c2 in configs():
                for vec in pvecs:
                    vec_case(chk, jobs, meta, c2[0], nso, c2[1], vec, first=c1)
    # ---- container types of the occupation vector at every public entry point (list, tuple, int / int8 / bool arrays,
    #      lists of numpy integers): spec-correct result of get_mapped_vector for every container (vec records), identical
    #      results of every other encoder function, arguments untouched
    import importlib
    jk = importlib.import_module("tangelo.toolboxes.qubit_mappings.jkmn")
    from tangelo.toolboxes.qubit_mappings import statevector_mapping as sm
    extra = [("jkmn_prep_vector", jk.jkmn_prep_vector)]
    for nso in ([2, 4, 6] if quick else [2, 4, 6, 8]):
        vecs = list(itertools.product((0, 1), repeat=nso))
        cvecs = vecs if len(vecs) <= 16 else rng.sample(vecs, 6 if quick else 16)
        for vec in cvecs:
            for container in CONTAINERS:
                if container != "array":
                    for c in configs():
                        vec_case(chk, jobs, meta, c[0], nso, c[1], vec, container=container)
                    for fn_name, fn in targets + extra:
                        container_case(chk, jobs, meta, fn_name, fn, vec, container)
    return n_ref, n_plain


def negative_controls(jobs, verdicts):
    """Corrupted records which the trace spec must reject (binding demonstrated): one flipped qubit of the recorded state,
    one sign-flipped coefficient of a recorded operator, a wrong electron number / occupation, an X-type term smuggled into
    an operator, a non-X gate count."""
    ctl = []
    seen = set()
    for j in jobs:
        key = (j["kind"], j["n"] > 0, len(j["Q"]) > 0)
        if j["kind"] == "frame":
            if "frame" not in seen and verdicts[j["id"]] == "ok" and len(j["before"]) >= 2:
                seen.add("frame")
                c = copy.deepcopy(j)
                c["id"] = 10 ** 6 + len(ctl)
                c["after"] = c["after"][1:] + c["after"][:1] if len(set(c["after"])) > 1 else [1 - c["after"][0]] + c["after"][1:]
                ctl.append((c, "argument-modified"))
            continue
        if key in seen or j["n"] == 0 or verdicts[j["id"]] != "ok":
            continue
        seen.add(key)

        def clone(expect):
            c = copy.deepcopy(j)
            c["id"] = 10 ** 6 + len(ctl)
            ctl.append((c, expect))
            return c
        c = clone("wrong-occupation")
        c["x"][0] ^= 1
        c = clone("wrong-occupation")
        c["x"][-1] ^= 1
        # sign flip of a Z-type coefficient
        c = clone("wrong-occupation")
        for p, terms in enumerate(c["Q"]):
            nz = [t for t in terms if any(t["w"])]
            if nz:
                nz[0]["c"]["c"] = [-a for a in nz[0]["c"]["c"]]
                break
        if j["kind"] == "ref" and j["ne"] + 2 <= j["nso"] // 2:
            c = clone("wrong-occupation")
            c["ne"] += 2
        if j["kind"] == "vec":
            c = clone("wrong-occupation")
            c["occvec"][0] ^= 1
        c = clone("not-an-eigenstate")
        c["Q"][0].append({"w": [1] + [0] * (j["n"] - 1), "c": {"c": [1, 0, 0, 0], "k": 1}})
        c = clone("not-a-basis-state-circuit")
        c["bad"] = 1
    return ctl


def s_part(chk):
    sets = ["{1, 2, 3, 4}"] if chk.quick else ["{1, 2, 3, 4}", "{5, 6}"]
    runs = [dict(module="C05RefState", name="c05/s%d" % k, workers=2, coverage=False,
                 cfg="CONSTANT M = %d\nSNs = %s\nINIT SInit\nNEXT SNext\nINVARIANT SpecEncodes\nINVARIANT SpecDiscriminates\n"
                     "INVARIANT FillingSound\nINVARIANT OffDiagonalSeen\n" % (M, s)) for k, s in enumerate(sets)]
    for r in tlc.run_many(runs, max_parallel=4):
        if not r.ok:
            raise tlc.TLCError("C05 spec self-check failed: %s\n%s" % (r.violated, r.out[-1500:]))
        chk.add_tlc(r, "S_" + r.name.split("/")[-1])


def run(chk):
    s_part(chk)
    jobs, meta = [], {}
    n_ref, n_plain = gen_jobs(chk, jobs, meta)
    verdicts, results = tlc.judge("C05Trace", jobs, "c05/v", {"M": M}, timeout=7200)
    for r in results:
        chk.add_tlc(r)
    ctl = negative_controls(jobs, verdicts)          # derived from ACCEPTED records only
    if ctl:
        v2, _ = tlc.judge("C05Trace", [c for c, _ in ctl], "c05/ctl", {"M": M}, chunk=len(ctl), timeout=7200)
        verdicts.update(v2)
    stats = {}
    per_key = {}
    for j in jobs:
        m = meta[j["id"]]
        v = verdicts[j["id"]]
        tag = "-after-edit" if m.get("hist") else ("-second-encoding" if m.get("first") else
                                                   ("-container-%s" % m["container"] if m.get("container", "array") != "array" else ""))
        s = stats.setdefault("%s%s:%s" % (m["kind"], tag, m["mapping"] if m["kind"] != "frame" else m["fn"].split(":")[0]), [0, 0])
        s[0] += 1
        chk.add_traces(1, m["kind"])
        if v == "ok":
            continue
        if v == "malformed":
            raise tlc.TLCError("malformed record %s" % m)
        s[1] += 1
        key = "%s%s:%s:utd=%s:%s" % (m["kind"], tag, m["mapping"], m["utd"], v)
        if m["kind"] == "frame":
            key = "frame:%s:%s:%s" % (m["fn"], m["container"], v)
            if m.get("containers"):
                key = "container:%s:%s:%s-differs" % (m["fn"], m["container"], m["what"])
        per_key[key] = per_key.get(key, 0) + 1
        if (per_key[key] > 2 or len(chk.violations) >= 48) and chk.match_known(key) is None:
            continue        # the harness writes at most 50 replay files: every printed VIOLATION must have one
        detail = ("%s(%s as %s): %s %s vs %s" % (m["fn"], m["occvec"], m["container"], m.get("what", "argument"), j["before"], j["after"])) \
            if m["kind"] == "frame" else \
            "state x=%s (n=%d) vs the code's encodings of the %d number operators: %s  %s" % (j["x"], j["n"], j["nso"], v, m)
        chk.violation(key, detail, m)
    wrong = [(c["id"], verdicts[c["id"]], e) for c, e in ctl if verdicts[c["id"]] != e]
    chk.part("negative_controls", corrupted=len(ctl), rejected_as_expected=len(ctl) - len(wrong))
    if wrong:
        raise tlc.TLCError("binding failure: corrupted records not rejected as expected: %s" % wrong[:5])
    chk.part("V", jobs=len(jobs), reference_circuits=n_ref, mapped_vectors=n_plain - n_ref,
             history_records=len(jobs) - n_plain, frame_records=sum(1 for j in jobs if j["kind"] == "frame"),
             second_encoding_records=sum(1 for j in jobs if meta[j["id"]].get("first")),
             by_kind={k: {"n": v[0], "bad": v[1]} for k, v in sorted(stats.items())})
    for jid in (1, n_ref, n_plain, len(jobs)):
        j = jobs[jid - 1]
        if j["kind"] == "frame":
            chk.sample({"record": {k: j[k] for k in ("kind", "before", "after")}, "meta": meta[jid], "verdict": verdicts[jid]})
            continue
        chk.sample({"record": {k: j[k] for k in ("kind", "nso", "n", "x", "ne", "spin", "dflt", "occvec")},
                    "Q[0]": j["Q"][0] if j["Q"] else None, "meta": meta[jid], "verdict": verdicts[jid]})
    chk.cov["exhaustive"] = True
    chk.cov["rule"] = ("every (n_spinorbitals in %s, n_electrons 0..n, spin None and every admissible 2S incl. negative, encoding JW/BK/scBK/JKMN, "
                       "ordering) reference circuit, and every 0/1 occupation vector through get_mapped_vector+vector_to_circuit; "
                       "each judged by TLC against the code's own encodings of all number operators" %
                       ("{2,4,6}" if chk.quick else "{2,4,6,8} (reference circuits also 10, 12)"))
    chk.assumptions += ["spin-orbital p of the operator API is 2*spatial+spin (alternating) in both orderings; the state API is told the same up_then_down flag",
                        "scBK number operators are encoded with the (n_electrons, spin) of the state, as the API requires",
                        "TLC evaluates Pauli words on basis states exactly (spec/Pauli.tla, self-checked by LibCheck)"]


def replay(chk, rec):
    m = rec["case"]
    c2 = check.Check("C05", ["quick"])
    c2.known = []
    jobs, meta = [], {}
    if m["kind"] in ("frame", "container") and (m.get("containers") or m["kind"] == "container"):
        import importlib
        jk = importlib.import_module("tangelo.toolboxes.qubit_mappings.jkmn")
        fn = dict(frame_targets() + [("jkmn_prep_vector", jk.jkmn_prep_vector)])[m["fn"]]
        container_case(c2, jobs, meta, m["fn"], fn, tuple(m["occvec"]), m["container"])
    elif m["kind"] == "frame":
        fn = dict(frame_targets())[m["fn"]]
        frame_case(c2, jobs, meta, m["fn"], fn, tuple(m["occvec"]), m["container"])
    elif m["kind"] == "ref":
        ref_case(c2, jobs, meta, m["mapping"], m["nso"], m["utd"], m["ne"], m["spin"], hist=m.get("hist", False))
    else:
        vec_case(c2, jobs, meta, m["mapping"], m["nso"], m["utd"], tuple(m["occvec"]), hist=m.get("hist", False),
                 first=tuple(m["first"]) if m.get("first") else None, container=m.get("container", "array"))
    if c2.violations:
        print("code-level failure reproduced:", c2.violations[0][:2])
        return False
    verdicts, _ = tlc.judge("C05Trace", jobs, "c05/replay", {"M": M})
    print("case:", m)
    for j in jobs:
        if j["kind"] == "frame":
            print("argument before:", j["before"], " after:", j["after"], " TLC verdict:", verdicts[j["id"]])
            continue
        print("state bits read off the code's circuit (%s):" % meta[j["id"]].get("source", "get_mapped_vector"), j["x"],
              " TLC verdict:", verdicts[j["id"]])
    return all(verdicts[j["id"]] == "ok" for j in jobs)


if __name__ == "__main__":
    check.main("C05", run, replay)
