#!/venv/bin/python
"""C06 - Pauli-exponential and time-evolution circuits implement exp(-itH).

S: TLC checks the algorithm model of the Whitfield ladder against exp(-icP) for every word / coefficient /
   control choice (spec/C06PauliExp.tla), exactly (no phase freedom).
V: the gate lists the implementation emits (exp_pauliword_to_gates, get_exponentiated_qubit_operator_circuit,
   trotterize, TrotterSuzukiUnitary.build_circuit) are evaluated exactly by TLC (spec/C06Trace.tla) and compared
   with the product of exponential factors that the first/second-order product formula prescribes.
"""
import itertools
import math
import os
import random
import sys

sys.path.insert(0, os.path.join(os.path.dirname(os.path.abspath(__file__)), "..", "harness"))
import check  # noqa: E402
import tlc  # noqa: E402
from ring import angle_to_k, k_to_angle  # noqa: E402
from enc import gates_to_json, OffGrid, LETTER  # noqa: E402

M = 8
LET = "IXYZ"


def s_cfg(sn, sc):
    return ("CONSTANTS M = %d\nSN = %d\nSCtrl = %d\nINIT SInit\nNEXT SNext\n"
            "INVARIANT LadderExact\nINVARIANT LadderUnitary\nINVARIANT AltExact\n" % (M, sn, sc))


def word_json(term, n):
    w = [0] * n
    for q, l in term:
        w[q] = LETTER[l]
    return w


def phase_index(z):
    """complex unit -> p with z = zeta^p, or None."""
    if abs(abs(z) - 1) > 1e-9:
        return None
    return angle_to_k(math.atan2(z.imag, z.real), M)


def mk_job(jobs, meta, kind, n, gates, factors, ctrl, ph=0, commuting_claim=False, info=None):
    jid = len(jobs) + 1
    jobs.append({"id": jid, "n": n, "gates": gates, "factors": factors, "ctrl": list(ctrl), "ph": ph,
                 "commuting_claim": commuting_claim})
    meta[jid] = dict(kind=kind, info=info)


def ctrl_choices_low(span):
    """word shifted to qubits 1..span: qubit 0 can be a control."""
    return [(0, [0]), ([0, span + 1], [0, span + 1])]


def ctrl_choices(n_word_qubits_max, quick):
    """(control argument passed to the code, control list for the spec) given the word occupies 0..n-1."""
    n = n_word_qubits_max
    ch = [(None, [])]
    ch += [(n, [n]), ([n], [n])]
    ch += [([n, n + 1], [n, n + 1]), ([n + 1, n], [n + 1, n])]
    if not quick:
        ch += [(n + 1, [n + 1])]
    return ch


def gen_expword_jobs(chk, jobs, meta, rng):
    from tangelo.toolboxes.ansatz_generator.ansatz_utils import exp_pauliword_to_gates
    quick = chk.quick
    placements = [(0,), (1,), (0, 1), (0, 2), (1, 2)] + ([] if quick else [(0, 1, 2), (1, 3), (0, 2, 3)])
    ks = list(range(-M, M + 1))
    for pos in placements:
        span = max(pos) + 1
        for letters in itertools.product("XYZ", repeat=len(pos)):
            term = tuple(zip(pos, letters))
            kk = ks if (len(pos) <= 2 or not quick) else rng.sample(ks, 5)
            if quick and len(pos) == 2:
                kk = sorted(set(rng.sample(ks, 6) + [-M, -1, 0, 1, M]))
            for carg, cspec in ctrl_choices(span, quick) + (ctrl_choices_low(span - 1) if min(pos) > 0 else []):
                n = max([span] + [c + 1 for c in cspec])
                for k in kk:
                    coef = k_to_angle(k, M)
                    try:
                        gl = exp_pauliword_to_gates(term, coef, control=carg)
                        gj = gates_to_json(gl, M)
                    except OffGrid:
                        chk.inconclusive += 1
                        continue
                    except Exception as e:
                        chk.violation("exp_pauliword_to_gates:exception", "%s: %s" % (type(e).__name__, e),
                                      {"term": term, "k": k, "control": carg})
                        continue
                    mk_job(jobs, meta, "expword", n, gj, [{"w": word_json(term, n), "k": k}], cspec,
                           info={"term": term, "k": k, "control": carg})


def op_from_spec(terms):
    """terms: list of (tuple term, k) -> QubitOperator with coefficient 2 pi k / M (insertion order kept)."""
    from tangelo.toolboxes.operators import QubitOperator
    op = QubitOperator()
    for t, k in terms:
        op += QubitOperator(t, k_to_angle(k, M))
    return op


OPS = [
    # commuting sets (odd k = odd multiples of pi/4: generic, cos != sin != 0; never a full period)
    [(((0, "Z"),), 1), (((1, "Z"),), -3), (((0, "Z"), (1, "Z")), 5)],
    [(((0, "X"), (1, "X")), 3), (((0, "Y"), (1, "Y")), 1), ((), 3)],
    [((), -1), (((0, "Y"),), 3)],
    [(((0, "X"), (1, "Y")), -1), (((0, "Y"), (1, "X")), 7)],
    # non-commuting sets
    [(((0, "X"),), 1), (((0, "Z"),), 3)],
    [(((0, "X"), (1, "Z")), 1), (((1, "X"),), -3), (((0, "Z"),), 2), ((), 1)],
    [(((0, "Y"),), 3), (((0, "Z"), (1, "Y")), 1), (((1, "Z"),), 6)],
    [(((0, "X"), (2, "X")), 3), (((1, "Z"), (2, "Y")), -1), (((0, "Z"),), 1)],
]


def expected_factors(terms, n, tmul, order, steps):
    """Factor list the product formula prescribes (term order = the operator's own term order).
    tmul: integer multiplier (time) per term (list) ; k_j * tmul_j must be divisible by steps (and 2 for order 2)."""
    base = []
    for (t, k), tm in zip(terms, tmul):
        kk = k * tm
        div = steps * (2 if order == 2 else 1)
        if kk % div:
            return None
        base.append({"w": word_json(t, n), "k": kk // steps})
    if order == 1:
        step = base
    else:
        half = [{"w": f["w"], "k": f["k"] // 2} for f in base]
        step = half + half[::-1]
    return step * steps


def gen_trotter_jobs(chk, jobs, meta, rng):
    from tangelo.toolboxes.ansatz_generator.ansatz_utils import get_exponentiated_qubit_operator_circuit, trotterize
    from tangelo.toolboxes.unitary_generator import TrotterSuzukiUnitary
    quick = chk.quick
    shifted = [[(tuple((q + 1, l) for q, l in t), k) for t, k in terms] for terms in OPS[:6]]
    for oi, terms in enumerate(OPS + shifted):
        nq = 1 + max([q for t, _ in terms for q, _ in t] + [0])
        op = op_from_spec(terms)
        low = oi >= len(OPS)      # operator lives on qubits 1.. : qubit 0 is free to serve as a control
        for order in (1, 2):
            for steps in ((1, 2) if quick else (1, 2, 3)):
                for tmode in ("scalar", "dict"):
                    for carg, cspec in ([(0, [0]), ([0, nq], [0, nq]), ([nq, 0], [nq, 0])] if low else
                                        [(None, []), (nq, [nq]), ([nq, nq + 1], [nq, nq + 1])]):
                        n = max([nq] + [c + 1 for c in cspec])
                        mult = 2 * steps if order == 2 else steps
                        if tmode == "scalar":
                            tm = [mult] * len(terms)
                            time = float(mult)
                        else:
                            tm = [mult * (1 + (j % 2)) for j in range(len(terms))]
                            time = {t: float(m) for (t, _), m in zip(terms, tm)}
                        fac = expected_factors(terms, n, tm, order, steps)
                        info = {"op": oi, "terms": terms, "order": order, "steps": steps, "time": tmode, "control": carg}
                        # trotterize (qubit operator)
                        try:
                            circ, phase = trotterize(op, time=time, n_trotter_steps=steps, trotter_order=order,
                                                     control=carg, return_phase=True)
                            gj = gates_to_json(list(circ), M)
                            ph = phase_index(complex(phase))
                            if ph is None:
                                raise OffGrid("phase")
                            mk_job(jobs, meta, "trotterize", n, gj, fac, cspec, ph=ph, info=info)
                        except OffGrid:
                            chk.inconclusive += 1
                        except Exception as e:
                            chk.violation("trotterize:exception:%s" % ("multi-control-identity" if (len(cspec) > 1 and any(t == () for t, _ in terms)) else "other"),
                                          "%s: %s" % (type(e).__name__, e), info)
                        if steps == 1:
                            try:
                                circ, phase = get_exponentiated_qubit_operator_circuit(op, time=time, trotter_order=order,
                                                                                       control=carg, return_phase=True)
                                gj = gates_to_json(list(circ), M)
                                ph = phase_index(complex(phase))
                                mk_job(jobs, meta, "get_exponentiated", n, gj, fac, cspec, ph=ph, info=info)
                            except OffGrid:
                                chk.inconclusive += 1
                            except Exception as e:
                                chk.violation("get_exponentiated:exception:%s" % ("multi-control-identity" if (len(cspec) > 1 and any(t == () for t, _ in terms)) else "other"),
                                              "%s: %s" % (type(e).__name__, e), info)
                        # TrotterSuzukiUnitary (controlled only: uncontrolled drops the phase by design).
                        # The object has state (its default n_steps_method): ONE object per default receives a HISTORY of
                        # build_circuit calls - explicit method, other explicit method, then calls WITHOUT a method argument -
                        # and every returned circuit is judged; a call with an explicit method must not change the default.
                        if tmode == "scalar" and cspec and not any(t == () for t, _ in terms):
                            for default in ("time", "repeat"):
                                try:
                                    u = TrotterSuzukiUnitary(op, time=time, trotter_order=order, n_trotter_steps=steps,
                                                             n_steps_method=default)
                                except Exception as e:
                                    chk.violation("TrotterSuzukiUnitary:exception", "%s: %s" % (type(e).__name__, e), info)
                                    continue
                                other = "repeat" if default == "time" else "time"
                                history = [(default, 1), (other, 2), (None, 2), (other, 1), (None, 1), (default, 2), (None, 2)]
                                for hi, (method, ns) in enumerate(history):
                                    eff = default if method is None else method
                                    try:
                                        circ = u.build_circuit(ns, control=carg) if method is None else \
                                            u.build_circuit(ns, control=carg, method=method)
                                        gj = gates_to_json(list(circ), M)
                                    except OffGrid:
                                        chk.inconclusive += 1
                                        continue
                                    if eff == "repeat":
                                        f2 = fac * ns
                                    else:
                                        f2 = expected_factors(terms, n, [m * ns for m in tm], order, steps)
                                    mk_job(jobs, meta, "TrotterSuzukiUnitary", n, gj, f2, cspec, ph=0,
                                           info=dict(info, default=default, history=[list(h) for h in history[:hi + 1]]))


def gen_fermion_jobs(chk, jobs, meta, rng):
    """trotterize on fermionic input: expected factors come from the qubit operator that the (C03-validated)
    encoding returns for the scaled fermionic operator."""
    from tangelo.toolboxes.ansatz_generator.ansatz_utils import trotterize
    from tangelo.toolboxes.operators import FermionOperator
    from tangelo.toolboxes.qubit_mappings.mapping_transform import fermion_to_qubit_mapping
    cases = [
        ("jw", [(((0, 1), (1, 0)), 2), (((1, 1), (0, 0)), 2)], {}),
        ("jw", [(((0, 1), (0, 0)), 2), (((1, 1), (1, 0)), -6), (((0, 1), (2, 0)), 6), (((2, 1), (0, 0)), 6)], {}),
        ("bk", [(((0, 1), (1, 0)), 2), (((1, 1), (0, 0)), 2), (((2, 1), (2, 0)), 6)], {"n_spinorbitals": 4}),
        ("jkmn", [(((0, 1), (1, 0)), 6), (((1, 1), (0, 0)), 6), (((3, 1), (3, 0)), 2)], {"n_spinorbitals": 4}),
        # commuting number operators: every term may carry its own time (dict given in a DIFFERENT key order than the operator)
        ("jw", [(((0, 1), (0, 0)), 2), (((1, 1), (1, 0)), 6), (((2, 1), (2, 0)), -2)], {}),
        ("bk", [(((0, 1), (0, 0)), 2), (((1, 1), (1, 0)), -6), (((3, 1), (3, 0)), 2)], {"n_spinorbitals": 4}),
    ]
    for mapping, fterms, opts in cases:
        for steps in (1, 2):
            for order in (1, 2):
                for tmode in ("scalar", "dict"):
                    # the hopping terms carry a factor 1/2 under JW/BK/JKMN: fterm k is chosen odd*2 or odd so that,
                    # after time, step and half-step division, every emitted factor index is ODD (generic angle)
                    mult = steps * (2 if order == 2 else 1)
                    fop = FermionOperator()
                    for t, k in fterms:
                        fop += FermionOperator(t, k_to_angle(k, M))
                    if tmode == "scalar":
                        time = float(mult)
                        tms = {t: mult for t, _ in fterms}
                    else:
                        tms = {t: mult * (1 + 2 * (j % 3)) for j, (t, _) in enumerate(fterms)}
                        # hermitian pairs must share their time for the generator to stay Hermitian
                        tms = {t: tms[tuple(sorted([t, tuple((p, 1 - d) for p, d in reversed(t))]))[0]] for t in tms}
                        # the dictionary is deliberately built in REVERSED term order: times are looked up by key
                        time = {t: float(tms[t]) for t in reversed(list(tms))}
                    mo = dict(opts, qubit_mapping=mapping)
                    nso = opts.get("n_spinorbitals") or (1 + max(p for t, _ in fterms for p, _ in t))
                    for carg, cspec in [(None, []), (nso, [nso]), ([nso + 1, nso], [nso + 1, nso])]:
                        info = {"mapping": mapping, "fterms": fterms, "steps": steps, "order": order, "time": tmode, "control": carg}
                        try:
                            circ, phase = trotterize(fop, time=time, n_trotter_steps=steps, trotter_order=order,
                                                     mapping_options=mo, control=carg, return_phase=True)
                            # the property-level expectation: encode (coefficient * time) per term, then product formula
                            scaled = FermionOperator()
                            for t, k in fterms:
                                scaled += FermionOperator(t, k_to_angle(k, M) * tms[t])
                            qop = fermion_to_qubit_mapping(scaled, mapping, n_spinorbitals=opts.get("n_spinorbitals"))
                            n = max([circ.width, 1 + max([q for t in qop.terms for q, _ in t] + [0])] + [c + 1 for c in cspec])
                            terms = []
                            for t, c in qop.terms.items():
                                if abs(c.imag) > 1e-12:
                                    raise OffGrid("complex coefficient")
                                k = angle_to_k(c.real, M)
                                if k is None:
                                    raise OffGrid("coef")
                                terms.append((t, k))
                            fac = expected_factors(terms, n, [1] * len(terms), order, steps)
                            if fac is None:
                                raise OffGrid("divisibility")
                            ph = phase_index(complex(phase))
                            if ph is None:
                                raise OffGrid("phase")
                            mk_job(jobs, meta, "trotterize-fermion", n, gates_to_json(list(circ), M), fac, cspec, ph=ph, info=info)
                        except OffGrid:
                            chk.inconclusive += 1
                        except Exception as e:
                            chk.violation("trotterize-fermion:exception", "%s: %s" % (type(e).__name__, e), info)


def negative_controls(jobs):
    """Corrupt one logged field per job kind: the trace spec must reject each (binding demonstrated)."""
    import copy
    ctl = []
    seen = set()
    for j in jobs:
        rot = [x for x, g in enumerate(j["gates"]) if g["name"] in ("RZ", "CRZ")]
        key = (len(j["ctrl"]), len(j["factors"]) > 1)
        if key in seen or not rot:
            continue
        if all(f["k"] % M == 0 for f in j["factors"]):
            continue
        seen.add(key)
        c = copy.deepcopy(j)
        c["id"] = 10 ** 6 + len(ctl)
        c["gates"][rot[0]]["k"] += 2            # perturb one logged angle
        ctl.append(c)
        c2 = copy.deepcopy(j)
        c2["id"] = 10 ** 6 + len(ctl)
        nz = [f for f in c2["factors"] if any(f["w"]) and f["k"] % (M // 2)]
        if nz:
            f = nz[0]
            q = [x for x, l in enumerate(f["w"]) if l][0]
            f["w"][q] = 1 + (f["w"][q] % 3)      # perturb one letter of the claimed word
            ctl.append(c2)
    return ctl


def small_angle_tail(chk):
    """NUMERIC TAIL (not model-checked): coefficients far below the grid. The exact ring cannot represent c = 1e-7, so
    the circuit's unitary is taken from cirq (float oracle, validated by C01) and compared with cos(c) 1 - i sin(c) P /
    exp(-itH) for commuting terms written out in numpy. Whatever the code decides to do with tiny rotations (keep or
    skip), the implemented operator must stay within 1e-9 of the exact one."""
    import numpy as np
    import cirq
    from tangelo.linq import Circuit, translate_circuit
    from tangelo.toolboxes.ansatz_generator.ansatz_utils import exp_pauliword_to_gates, trotterize
    from tangelo.toolboxes.operators import QubitOperator
    P = {"I": np.eye(2), "X": np.array([[0, 1], [1, 0]]), "Y": np.array([[0, -1j], [1j, 0]]), "Z": np.diag([1, -1])}

    def word_matrix(term, n):
        m = np.ones((1, 1))
        d = dict(term)
        for q in range(n):
            m = np.kron(m, P[d.get(q, "I")])
        return m

    def unitary(circ, n):
        c = Circuit(list(circ), n_qubits=n)
        return cirq.unitary(translate_circuit(c, "cirq"))
    n_cases, worst = 0, 0.0
    for term in [((0, "X"),), ((0, "Y"), (1, "Z")), ((0, "Z"), (1, "X"), (2, "Y"))]:
        n = 1 + max(q for q, _ in term)
        W = word_matrix(term, n)
        for c in (1e-3, -1e-3, 1e-5, 1e-7, -1e-7, 1e-8):
            U = unitary(exp_pauliword_to_gates(term, c), n)
            E = np.cos(c) * np.eye(2 ** n) - 1j * np.sin(c) * W
            err = float(np.max(np.abs(U - E)))
            worst = max(worst, err)
            n_cases += 1
            if err > 1e-9:
                chk.violation("numeric-tail:exp_pauliword_to_gates:small-coefficient", "NUMERIC TAIL: |U - exp(-icP)| = %.3g for c = %g, word %s"
                              % (err, c, term), {"kind": "small-angle", "term": term, "c": c})
    ops = [[(((0, "Z"),), 0.5), (((1, "Z"),), -0.25), (((0, "Z"), (1, "Z")), 0.125)],
           [(((0, "X"), (1, "X")), 0.5), (((0, "Y"), (1, "Y")), 0.5)]]
    for terms in ops:
        op = QubitOperator()
        H = np.zeros((4, 4), dtype=complex)
        for t, c in terms:
            op += QubitOperator(t, c)
            H += c * word_matrix(t, 2)
        w, v = np.linalg.eigh(H)
        for (t_tot, steps, order) in [(2e-4, 400, 1), (2e-4, 400, 2), (1e-6, 1, 1), (3e-3, 40, 2), (1.0, 3, 1)]:
            circ = trotterize(op, time=t_tot, n_trotter_steps=steps, trotter_order=order)
            U = unitary(circ, 2)
            E = (v * np.exp(-1j * t_tot * w)) @ v.conj().T
            err = float(np.max(np.abs(U - E)))
            worst = max(worst, err)
            n_cases += 1
            if err > 1e-9:
                chk.violation("numeric-tail:trotterize:small-step", "NUMERIC TAIL: commuting terms, t=%g in %d steps (order %d): |U - exp(-itH)| = %.3g"
                              % (t_tot, steps, order, err), {"kind": "small-step", "terms": terms, "t": t_tot, "steps": steps, "order": order})
    # higher even orders (irrational Suzuki coefficients: outside the exact carrier): observed convergence rate.
    # A p-th order formula has one-step error ~ t^(p+1): halving t must divide the error by about 2^(p+1).
    nc_terms = [(((0, "X"),), 0.7), (((0, "Z"), (1, "Z")), 0.9), (((1, "Y"),), -0.6), (((0, "Y"), (1, "X")), 0.4)]
    op = QubitOperator()
    H = np.zeros((4, 4), dtype=complex)
    for t, c in nc_terms:
        op += QubitOperator(t, c)
        H += c * word_matrix(t, 2)
    w, v = np.linalg.eigh(H)
    rates = {}
    for order in (2, 4, 6):
        errs = []
        for t_tot in (0.4, 0.2):
            U = unitary(trotterize(op, time=t_tot, n_trotter_steps=1, trotter_order=order), 2)
            E = (v * np.exp(-1j * t_tot * w)) @ v.conj().T
            errs.append(float(np.linalg.norm(U - E, 2)))
        rate = float(np.log2(errs[0] / errs[1])) if errs[1] > 0 else 99.0
        rates[order] = round(rate, 2)
        n_cases += 1
        if rate < order + 0.5:
            chk.violation("numeric-tail:trotterize:convergence-order", "NUMERIC TAIL: trotter_order=%d converges with rate %.2f (error %.3g -> %.3g when t is "
                          "halved); a formula of that order has rate %d" % (order, rate, errs[0], errs[1], order + 1),
                          {"kind": "convergence", "order": order, "errors": errs})
    chk.part("numeric_tail_convergence_rates_NOT_model_checked", observed_log2_error_ratio=rates)
    chk.part("numeric_tail_small_angles_NOT_model_checked", cases=n_cases, worst_error=worst,
             oracle="cirq.unitary of the translated circuit (float) vs numpy exp(-itH); tolerance 1e-9")


def run(chk):
    rng = random.Random(chk.seed)
    quick = chk.quick
    # ---- S ---------------------------------------------------------------------------------------
    sruns = [(1, 0), (2, 0), (1, 1), (2, 1), (1, 2)] + ([] if quick else [(3, 0), (3, 1), (2, 2)])
    res = tlc.run_many([dict(module="C06PauliExp", cfg=s_cfg(a, b), name="c06/s_%d_%d" % (a, b), workers=2, timeout=7200)
                        for a, b in sruns])
    for (a, b), r in zip(sruns, res):
        if not r.ok:
            raise tlc.TLCError("C06 algorithm model disagrees with exp(-icP): %s\n%s" % (r.violated, r.out[-1500:]))
        chk.add_tlc(r, "S_ladder_n%d_c%d" % (a, b))
    # ---- V ---------------------------------------------------------------------------------------
    jobs, meta = [], {}
    gen_expword_jobs(chk, jobs, meta, rng)
    n_exp = len(jobs)
    gen_trotter_jobs(chk, jobs, meta, rng)
    gen_fermion_jobs(chk, jobs, meta, rng)
    ctl = negative_controls(jobs)
    verdicts, results = tlc.judge("C06Trace", jobs + ctl, "c06/v", {"M": M}, timeout=7200)
    for r in results:
        chk.add_tlc(r)
    kinds = {}
    for j in jobs:
        v = verdicts[j["id"]]
        m = meta[j["id"]]
        kinds.setdefault(m["kind"], [0, 0])[0] += 1
        chk.add_traces(1, m["kind"])
        if v in ("ok", "ok-noncommuting"):
            continue
        kinds[m["kind"]][1] += 1
        sub = "controlled" if j["ctrl"] else "uncontrolled"
        chk.violation("%s:%s:%s" % (m["kind"], sub, v), "emitted circuit != product of exp(-i c_j P_j): %s" % v,
                      {"job": j, "info": m["info"]})
    # vacuity guard: a job whose factors are all multiples of pi is (up to sign) the identity and proves little
    triv = {}
    for j in jobs:
        kd = meta[j["id"]]["kind"]
        nt = any(f["k"] % (M // 2) for f in j["factors"] if any(f["w"]))
        t = triv.setdefault(kd, [0, 0])
        t[0] += 1
        t[1] += 1 if nt else 0
    chk.part("nontrivial_jobs", **{k: "%d/%d" % (v[1], v[0]) for k, v in triv.items()})
    for k, v in triv.items():
        if v[1] * 2 < v[0]:
            raise tlc.TLCError("vacuity: fewer than half of the %s jobs have a non-trivial angle (%d/%d)" % (k, v[1], v[0]))
    bad_ctl = [c["id"] for c in ctl if verdicts[c["id"]].startswith("ok")]
    chk.part("negative_controls", corrupted=len(ctl), rejected=len(ctl) - len(bad_ctl))
    if bad_ctl:
        raise tlc.TLCError("binding failure: corrupted traces accepted %s" % bad_ctl)
    chk.part("V", jobs=len(jobs), expword=n_exp, by_kind={k: {"n": v[0], "bad": v[1]} for k, v in kinds.items()})
    chk.sample({"job": {k: jobs[0][k] for k in ("n", "gates", "factors", "ctrl")}, "info": str(meta[1]["info"])})
    chk.sample({"job": {k: jobs[-1][k] for k in ("n", "factors", "ctrl", "ph")}, "info": str(meta[len(jobs)]["info"])})
    small_angle_tail(chk)
    chk.cov["rule"] = ("S: every word x k in -M..M x control choice (algorithm model vs exp(-icP), exact). "
                       "V: gate lists emitted by the code for words/coefficients/controls and operators x orders x steps x "
                       "time forms, judged exactly by TLC against the product formula")
    chk.assumptions += ["coefficients*time on the 2pi/8 grid; entries of exp(-icP) are cos c, sin c: degree-1 in e^{ic}",
                        "orders >= 4 (irrational Suzuki coefficients) are outside the exact carrier: not decided",
                        "the commutator *bound* itself is a theorem about the product formula; the check decides that the "
                        "emitted circuit IS that product formula (terms in the operator's own order)"]


def replay(chk, rec):
    case = rec["case"]
    if "job" not in case:
        # an exception case: re-run the generators and see whether the same key is still reported
        c2 = check.Check("C06", ["quick"])
        c2.known = []
        jobs, meta = [], {}
        gen_trotter_jobs(c2, jobs, meta, random.Random(0))
        keys = [v[0] for v in c2.violations]
        print("exception cases now:", sorted(set(keys)))
        return rec["key"] not in keys
    if "job" in case:
        j = dict(case["job"], id=1)
        verdicts, _ = tlc.judge("C06Trace", [j], "c06/replay", {"M": M})
        print("TLC verdict for the recorded gate list:", verdicts[1])
        print("info:", case.get("info"))
        return verdicts[1].startswith("ok")
    print(rec)
    return False


if __name__ == "__main__":
    check.main("C06", run, replay)
