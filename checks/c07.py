#!/venv/bin/python
"""C07 - ansatz parameter updates are equivalent to rebuilding the circuit.

S: TLC model-checks the life-cycle machine spec/C07AnsatzLifecycle.tla (abstract state = last accepted vector;
   rejected calls change nothing; the state is a function of the call log's last accepted vector) and the
   algorithm model of the cached-table update spec/C07UpdateModel.tla (correct table handling refines the
   abstract machine; the two table-handling variants found in the tree do not).
G: every behaviour TLC exports (exhaustive short histories over the value alphabet {0,a,-a,a+P,2a,3a} per
   parameter slot, `-simulate` histories of 10 calls, ADAPT histories with add_operator) is replayed on real
   ansatz objects; after every call a FRESH object is built with the abstract state theta of the spec.
V: both gate lists are recorded and TLC judges Sem(updated) = Sem(fresh) (spec/C07Trace.tla: stabiliser tableaux at
   Clifford points, exact ring unitaries on <= 4 qubits on the finer grid), the reference-state clause at theta = 0
   and the frame condition of rejected (wrong-length) calls.
"""
import os
os.environ.setdefault("OMP_NUM_THREADS", "1")
os.environ.setdefault("OPENBLAS_NUM_THREADS", "1")
os.environ.setdefault("MKL_NUM_THREADS", "1")
import contextlib
import copy
import hashlib
import io
import json
import math
import random
import re
import sys
import time
import warnings

sys.path.insert(0, os.path.join(os.path.dirname(os.path.abspath(__file__)), "..", "harness"))
import check  # noqa: E402
import tlc  # noqa: E402
from enc import gates_to_json, OffGrid, PARAM_GATES  # noqa: E402

import numpy as np  # noqa: E402

warnings.simplefilter("ignore")
PI = math.pi
M_CLIFF = 8          # Clifford mode: angles are multiples of pi/2 (pi for controlled rotations)
M_RING = 16          # ring mode: rotation angles are multiples of pi/4 (<= 4 qubits)
SPEC_DIR = os.path.join(check.VERIF, "spec")
JVMS = int(os.environ.get("VERIF_JVMS", "16"))     # parallel TLC JVMs (development: keep small, the machine is shared)
WK = "c07" + os.environ.get("C07_TAG", "")      # scratch prefix under .work (tag: parallel development runs)

# ------------------------------------------------------------------------------------------------------------
# molecules (same geometries as tangelo.molecule_library; importing that module builds ~40 molecules)
# ------------------------------------------------------------------------------------------------------------
XYZ_H2 = [("H", (0., 0., 0.)), ("H", (0., 0., 0.7414))]
XYZ_H2_STRETCH = [("H", (0., 0., 0.)), ("H", (0., 0., 1.6))]
XYZ_H4 = [("H", [0.7071067811865476, 0.0, 0.0]), ("H", [0.0, 0.7071067811865476, 0.0]),
          ("H", [-1.0071067811865476, 0.0, 0.0]), ("H", [0.0, -1.0071067811865476, 0.0])]
_MOLS = {}
MOL_SPECS = {
    "H2": dict(xyz=XYZ_H2, q=0, spin=0),
    "H2_triplet": dict(xyz=XYZ_H2, q=0, spin=2),
    "H2_uhf": dict(xyz=XYZ_H2_STRETCH, q=0, spin=0, uhf=True),          # UHF, spin 0, identical alpha/beta active spaces
    "H2eq_uhf": dict(xyz=XYZ_H2, q=0, spin=0, uhf=True),
    "H2_cation": dict(xyz=XYZ_H2, q=1, spin=1),                          # ROHF open shell, 4 qubits
    "H2_anion": dict(xyz=XYZ_H2, q=-1, spin=1),
    "H2_cation_uhf": dict(xyz=XYZ_H2, q=1, spin=1, uhf=True),            # UHF open shell, 4 qubits
    "H2_anion_uhf": dict(xyz=XYZ_H2, q=-1, spin=1, uhf=True),
    "H4_cation_uhf": dict(xyz=XYZ_H4, q=1, spin=1, uhf=True),
    "H4": dict(xyz=XYZ_H4, q=0, spin=0),
    "H4_cation": dict(xyz=XYZ_H4, q=1, spin=1),
    "H4_triplet": dict(xyz=XYZ_H4, q=0, spin=2),
    "H4_uhf": dict(xyz=XYZ_H4, q=0, spin=0, uhf=True),
    "H4_3mo": dict(xyz=XYZ_H4, q=0, spin=0, frozen_orbitals=[3]),         # 4 electrons in 3 orbitals (6 qubits)
    "H4_3mo_2e": dict(xyz=XYZ_H4, q=0, spin=0, frozen_orbitals=[0]),      # 2 electrons in 3 orbitals
}


def mol(name):
    if name not in _MOLS:
        from tangelo import SecondQuantizedMolecule
        kw = dict(MOL_SPECS[name])
        xyz = kw.pop("xyz")
        with quiet():
            _MOLS[name] = SecondQuantizedMolecule(xyz, basis="sto-3g", **kw)
    return _MOLS[name]


@contextlib.contextmanager
def quiet():
    """uccgd.py prints type() lines on every call; pyscf prints warnings."""
    with contextlib.redirect_stdout(io.StringIO()):
        yield


# ------------------------------------------------------------------------------------------------------------
# instances
# ------------------------------------------------------------------------------------------------------------
class Inst:
    """One ansatz configuration.  make() returns a NEW, unbuilt object (ops: ADAPT operator indices)."""

    def __init__(self, name, family, variant, make, zero_ref=False, unit_cands=None, tier="quick", weight=1.0,
                 adapt=False, pool=None, ring=False, big=False, occ=None, reftype=False, enc=None):
        self.name, self.family, self.variant, self._make = name, family, variant, make
        self.zero_ref, self.tier, self.weight = zero_ref, tier, weight
        self.unit_cands = unit_cands or [PI / 2, PI, 2 * PI, 4 * PI, 8 * PI]
        self.adapt, self.pool, self.ring, self.big = adapt, pool, ring, big
        self.enc = enc            # (molecule name, mapping, up_then_down) of the instance DEFINITION: reference circuit from the library
        self._libref = {}
        self.reftype = reftype    # ansatz with code paths that depend on the reference type (RHF / ROHF / UHF, spin)
        self.occ = occ            # ("jw", molecule name, up_then_down) | ("jw4",) | ("hcb", molecule name): independent HF occupation
        self._units = {}
        self._fresh = {}
        self.n0 = None

    def make(self, ops=None):
        with quiet():
            return self._make(ops) if self.adapt else self._make()

    def library_reference(self, M):
        """Reference circuit from get_reference_circuit (validated by C05) for the molecule / encoding of the instance
        definition - not taken from the ansatz object, whose prepare_reference_state may forward the wrong options."""
        if self.enc is None:
            return None
        if M not in self._libref:
            from tangelo.toolboxes.qubit_mappings.statevector_mapping import get_reference_circuit
            m = mol(self.enc[0])
            c = get_reference_circuit(n_spinorbitals=m.n_active_sos, n_electrons=m.n_active_electrons, mapping=self.enc[1],
                                      up_then_down=self.enc[2], spin=m.active_spin)
            self._libref[M] = (circuit_json(c, M), c.width)
        return self._libref[M]

    def occ_record(self):
        """Parameters of the Hartree-Fock occupation for C07Defs!OccBit (taken from the molecule, not from the ansatz)."""
        if self.occ is None:
            return None
        if self.occ[0] == "jw4":
            return {"model": "jw", "nso": 4, "ne": 2, "spin": 0, "utd": True}   # the UCC1/UCC3 circuits use the up-then-down register
        m = mol(self.occ[1])
        if self.occ[0] == "hcb":
            return {"model": "hcb", "nso": int(m.n_active_mos), "ne": int(m.n_active_electrons), "spin": 0, "utd": False}
        return {"model": "jw", "nso": int(m.n_active_sos), "ne": int(m.n_active_electrons), "spin": int(m.active_spin), "utd": bool(self.occ[2])}

    def npar(self):
        if self.n0 is None:
            self.n0 = int(self.make([] if self.adapt else None).n_var_params)
        return self.n0


def is_clifford_json(g):
    """Input *selection* only (choice of the unit a); the verdict re-checks AllClifford in TLC."""
    nm, k, c = g["name"], g["k"], g["c"]
    base = nm[1:] if (nm[0] == "C" and nm not in ("CNOT",)) else nm
    if nm in ("CNOT", "CX"):
        base = "X"
    if not c:
        return base in ("H", "X", "Y", "Z", "S", "SDAG", "SWAP") or (base in ("RX", "RY", "RZ", "PHASE", "XX") and k % 2 == 0)
    return len(c) == 1 and (base in ("X", "Y", "Z") or (base in ("RX", "RY", "RZ", "PHASE") and k % 4 == 0))


def circuit_json(circ, M):
    """gate list of a tangelo Circuit on the 2pi/M grid; None when some angle is off the grid."""
    if circ is None:
        return None
    try:
        return gates_to_json(list(circ), M)
    except OffGrid:
        return None


def raw_gates(circ):
    if circ is None:
        return None
    return [(g.name, tuple(g.target), tuple(g.control or ()), None if g.parameter == "" else repr(g.parameter)) for g in circ]


def units_for(inst, mode, ops=None):
    """Per-parameter unit a_i: the smallest candidate u such that the circuit built at u*e_i lies on the exact
    carrier of `mode` (input generation; linear parameter->angle maps keep integer combinations on the carrier)."""
    key = (mode, tuple(ops or ()))
    if key in inst._units:
        return inst._units[key]
    M = M_CLIFF if mode == "clifford" else M_RING
    n = len(ops) if inst.adapt else inst.npar()
    units = []
    cands = inst.unit_cands if mode == "clifford" else [u / 2 for u in inst.unit_cands[:1]] + list(inst.unit_cands)
    known = {}
    for i in range(n):
        # ADAPT: the unit of an operator does not depend on its position
        tag = ops[i] if inst.adapt else None
        if tag is not None and tag in known:
            units.append(known[tag])
            continue
        found = None
        for u in cands:
            th = np.zeros(n)
            th[i] = u
            try:
                a = inst.make(ops)
                with quiet():
                    a.build_circuit(th)
                js = circuit_json(a.circuit, M)
            except Exception:
                js = None
            if js is not None and (mode == "ring" or all(is_clifford_json(g) for g in js)):
                found = u
                break
        units.append(found)
        if tag is not None:
            known[tag] = found
    inst._units[key] = units
    return units


def slot_map(n, nslots, kind, rng):
    if nslots <= 0:
        return [0] * n
    if kind == "mod":
        return [i % nslots for i in range(n)]
    if kind == "block":
        return [min(nslots - 1, i * nslots // max(n, 1)) for i in range(n)]
    return [rng.randrange(nslots) for _ in range(n)]


# ------------------------------------------------------------------------------------------------------------
# replay of one TLC behaviour on a real object
# ------------------------------------------------------------------------------------------------------------
class JobBook:
    """Deduplicated TLC jobs: many (history, step) pairs record the same pair of gate lists.
    Gate lists are interned as compact JSON text (an 8-qubit UCCSD circuit is ~2400 gate records); jobs refer to
    them by digest, and are themselves keyed by a digest so that the books of parallel workers can be merged."""

    def __init__(self):
        self.lists = {}      # digest -> (JSON text of the gate list, number of gates)
        self.payloads = {}   # digest -> (M, header dict, {"a": list digest, "b": list digest})
        self.n_refs = 0

    def _intern(self, gates):
        txt = json.dumps(gates, separators=(",", ":"))
        d = hashlib.sha1(txt.encode()).hexdigest()
        if d not in self.lists:
            self.lists[d] = (txt, len(gates))
        return d

    def add(self, M, payload, ctx=None):
        head = {k: v for k, v in payload.items() if k not in ("a", "b")}
        refs = {k: self._intern(payload[k]) for k in ("a", "b") if k in payload}
        dig = hashlib.sha1(json.dumps([M, head, refs], sort_keys=True).encode()).hexdigest()
        if dig not in self.payloads:
            self.payloads[dig] = (M, head, refs)
        self.n_refs += 1
        return dig

    def merge(self, other):
        for d, v in other.lists.items():
            self.lists.setdefault(d, v)
        for d, v in other.payloads.items():
            self.payloads.setdefault(d, v)
        self.n_refs += other.n_refs

    def job_text(self, dig, jid):
        M, head, refs = self.payloads[dig]
        parts = ['"id":%d' % jid] + ['"%s":%s' % (k, json.dumps(v)) for k, v in sorted(head.items())]
        parts += ['"%s":%s' % (k, self.lists[r][0]) for k, r in sorted(refs.items())]
        return "{" + ",".join(parts) + "}"

    def job_dict(self, dig, jid):
        return json.loads(self.job_text(dig, jid))

    def cost(self, dig):
        M, head, refs = self.payloads[dig]
        n = sum(self.lists[r][1] for r in refs.values())
        return 1 + n * (20 if head.get("mode") == "probe" else 150 if head.get("mode") == "ring" else 1)

    def batches(self):
        """M -> list of (integer id, digest), in a deterministic order"""
        res = {}
        for dig in sorted(self.payloads):
            lst = res.setdefault(self.payloads[dig][0], [])
            lst.append((len(lst) + 1, dig))
        return res


def real_vector(mults, smap, units):
    return np.array([float(mults[smap[i]] * units[i]) for i in range(len(units))], dtype=float)


def bad_vector(n_real, d, fill_mult, units):
    L = n_real + d
    if L < 0:
        return None
    us = [u for u in units if u] or [PI / 2]
    return np.array([float(fill_mult * us[i % len(us)]) for i in range(L)], dtype=float)


def support_class(acc):
    """Class of the accepted (real) parameter vectors seen so far, the current one last; used only to key findings:
    zero/all (current vector all zero), zero/change (the zero pattern changed along the history),
    zero/const (constant pattern with zeros), nozero."""
    if not acc:
        return "nozero"
    cur = acc[-1]
    if len(cur) and all(x == 0 for x in cur):
        return "zero/all"
    pats = set(tuple(i for i, x in enumerate(v) if x == 0) for v in acc)
    if len(pats) > 1:
        return "zero/change"
    return "zero/const" if any(x == 0 for x in cur) else "nozero"


def fresh_json(inst, ops, theta, M):
    key = (M, tuple(ops or ()), np.asarray(theta, dtype=float).tobytes())
    if key not in inst._fresh:
        f = inst.make(ops)
        with quiet():
            f.build_circuit(np.array(theta, dtype=float))
        inst._fresh[key] = (circuit_json(f.circuit, M), raw_gates(f.circuit), f.circuit.width, int(f.n_var_params))
        if len(inst._fresh) > 4000:
            inst._fresh.clear()
    return inst._fresh[key]


def structural_equal_mod_4pi(ra, rb):
    """sufficient condition for equivalence used only when angles leave the exact carrier."""
    if ra is None or rb is None or len(ra) != len(rb):
        return False
    for x, y in zip(ra, rb):
        if x[:3] != y[:3]:
            return False
        if (x[3] is None) != (y[3] is None):
            return False
        if x[3] is not None:
            try:
                d = (float(x[3]) - float(y[3])) / (4 * PI)
            except ValueError:
                return False
            if abs(d - round(d)) > 1e-9:
                return False
    return True


def replay_history(inst, H, mode, smap_kind, rng, book, out, hid, smap_override=None, href=None):
    """Replays behaviour H (record exported by C07AnsatzLifecycle) on a real object of `inst`.
    Appends events to out["events"]; jobs go to `book`."""
    M = M_CLIFF if mode == "clifford" else M_RING
    smap_kind, _, unit_mode = smap_kind.partition("|")      # "mod|uniform": one common unit for all parameters
    steps = H["steps"]
    ops = list(H.get("ops0") or []) if inst.adapt else None

    def pick_units(us):
        us = [u if u else inst.unit_cands[0] for u in us]
        if unit_mode == "uniform" and us:
            # the largest per-parameter unit is on the carrier for every parameter: a mix-up of parameters
            # (wrong generator, wrong offset) then still produces angles the exact engines can judge
            us = [max(us)] * len(us)
        return us
    obj = inst.make(ops)
    nslots = H["nslots"]
    case_base = {"inst": inst.name, "mode": mode, "smap_kind": smap_kind + ("|" + unit_mode if unit_mode else ""), "href": href}
    smap = None
    if not inst.adapt:
        n_real = inst.npar()
        units = units_for(inst, mode)
        smap = list(smap_override) if smap_override else slot_map(n_real, nslots, smap_kind, rng)
        case_base["smap"] = smap
        if any(u is None for u in units):
            out["offgrid_params"] = out.get("offgrid_params", 0) + 1
        units = pick_units(units)

    acc_real = []     # accepted (or attempted, for a call that raised) real parameter vectors

    def ev(kind, step, **kw):
        e = dict(kind=kind, inst=inst.name, family=inst.family, variant=inst.variant, hid=hid, step=step,
                 sup=support_class(acc_real), case=dict(case_base, step=step))
        e.update(kw)
        out["events"].append(e)

    for si, st in enumerate(steps):
        a, post = st["a"], st["post"]
        out["steps"] += 1
        if inst.adapt:
            units = pick_units(units_for(inst, mode, ops))
            n_real = len(ops)
            smap = list(range(n_real))
        try:
            n_adv = int(obj.n_var_params)
        except Exception as e:
            ev("exception", si, detail="n_var_params raised %s" % type(e).__name__)
            return
        if a in ("Build", "Update"):
            theta = real_vector(st["v"], smap, units)
            acc_real.append([float(x) for x in theta])
            try:
                with quiet():
                    if a == "Build":
                        obj.build_circuit(theta.copy())
                    else:
                        obj.update_var_params(theta.copy())
            except Exception as e:
                ev("enabled-raised", si, action=a, detail="%s(%s) raised %s: %s" % (a, len(theta), type(e).__name__, str(e)[:120]))
                return
        elif a in ("BadBuild", "BadUpdate"):
            d = len(st["v"]) - (steps[si - 1]["post"]["npar"] if si else nslots)
            fill = st["v"][0] if st["v"] else 1
            vec = bad_vector(n_real, d, fill, units)
            if vec is None:
                out["skipped_bad"] += 1
                continue
            before = (circuit_json(obj.circuit, M), raw_gates(obj.circuit),
                      None if obj.var_params is None else [float(x) for x in np.array(obj.var_params, dtype=float).ravel()], n_adv)
            raised = False
            try:
                with quiet():
                    if a == "BadBuild":
                        obj.build_circuit(vec.copy())
                    else:
                        obj.update_var_params(vec.copy())
            except Exception:
                raised = True
            out["rejected_calls"] += 1
            if not raised:
                ev("bad-accepted", si, action=a, delta=d, detail="%s with %d values (advertised n_var_params=%d) was accepted" % (a, len(vec), n_adv))
                return
            after_vp = None if obj.var_params is None else [float(x) for x in np.array(obj.var_params, dtype=float).ravel()]
            ja, ra = circuit_json(obj.circuit, M), raw_gates(obj.circuit)
            if (before[1] is None) != (ra is None):
                ev("bad-changed-state", si, action=a, delta=d, what="circuit", detail="circuit created/destroyed by a rejected call")
                return
            if before[0] is not None and ja is not None:
                key = book.add(M, {"kind": "same", "a": before[0], "b": ja}, None)
                ev("job", si, jkey=key, jkind="same", action=a, delta=d)
            elif before[1] != ra:
                ev("bad-changed-state", si, action=a, delta=d, what="circuit", detail="gate list changed by a rejected call (off-grid, raw comparison)")
                return
            if before[2] != after_vp:
                ev("bad-changed-state", si, action=a, delta=d, what="var_params",
                   detail="var_params changed by a rejected %s: %d -> %d values" % (a, len(before[2] or []), len(after_vp or [])))
                # the circuit is still the old one: the history continues (the abstract state did not change)
            if int(obj.n_var_params) != before[3]:
                ev("bad-changed-state", si, action=a, delta=d, what="n_var_params", detail="n_var_params changed by a rejected call")
                return
            continue
        elif a == "AddOperator":
            new_op = copy.deepcopy(inst.pool[(st["o"] - 1) % len(inst.pool)])
            try:
                with quiet():
                    obj.add_operator(new_op)
            except Exception as e:
                ev("enabled-raised", si, action=a, detail="add_operator raised %s: %s" % (type(e).__name__, str(e)[:120]))
                return
            ops = ops + [st["o"]]
        # ---- obligations after an accepted call ----
        try:
            n_now = int(obj.n_var_params)
        except Exception as e:
            ev("exception", si, detail="n_var_params raised %s" % type(e).__name__)
            return
        n_spec = post["npar"] if inst.adapt else inst.npar()
        if n_now != n_spec:
            ev("npar-mismatch", si, detail="n_var_params=%d, advertised/abstract %d" % (n_now, n_spec))
            return
        if not post["synced"]:
            continue
        if inst.adapt:
            units = pick_units(units_for(inst, mode, ops))
            smap = list(range(len(ops)))
        theta = real_vector(post["theta"], smap, units)
        try:
            fj, fr, fw, fn = fresh_json(inst, ops, theta, M)
        except Exception as e:
            ev("enabled-raised", si, action="FreshBuild", detail="fresh build_circuit raised %s: %s" % (type(e).__name__, str(e)[:120]))
            return
        if fn != n_now:
            ev("npar-mismatch", si, detail="fresh object advertises %d parameters, the updated one %d" % (fn, n_now))
            return
        undefined = [g for g in obj.circuit if g.name in PARAM_GATES and not isinstance(g.parameter, (int, float, np.integer, np.floating))]
        if undefined:
            ev("undefined-circuit", si, action=a, detail="after %s the circuit holds a %s gate with the non-numeric parameter %r: it has no semantics"
               % (a, undefined[0].name, undefined[0].parameter))
            return
        uj, ur = circuit_json(obj.circuit, M), raw_gates(obj.circuit)
        n = max(fw, obj.circuit.width, 1)
        out["pairs"] += 1

        def off_carrier():
            """The recorded pair left the carrier of `mode` (correct code stays on it by the choice of units; a defect that
            mixes parameters up need not).  Up to 4 qubits the pair is judged exactly on the next finer grids (probe
            mode, M = 16, 32); otherwise structural identity mod 4pi is sufficient, else the sample is inconclusive."""
            if n <= 4:
                for M2 in (16, 32):
                    if mode != "clifford" and M2 <= M:
                        continue
                    uj2 = circuit_json(obj.circuit, M2)
                    fj2 = fresh_json(inst, ops, theta, M2)[0] if uj2 is not None else None
                    if uj2 is not None and fj2 is not None:
                        k2 = book.add(M2, {"kind": "equiv", "n": n, "mode": "probe", "a": uj2, "b": fj2}, None)
                        ev("job", si, jkey=k2, jkind="equiv", action=a, escalated=M2)
                        out["escalated"] = out.get("escalated", 0) + 1
                        return
            if structural_equal_mod_4pi(ur, fr):
                out["structural_ok"] += 1
            else:
                out["inconclusive"] += 1

        if uj is None or fj is None:
            off_carrier()
            continue
        jmode = mode
        if mode == "clifford" and not (all(is_clifford_json(g) for g in uj) and all(is_clifford_json(g) for g in fj)):
            off_carrier()
            continue
        key = book.add(M, {"kind": "equiv", "n": n, "mode": jmode, "a": uj, "b": fj}, None)
        ev("job", si, jkey=key, jkind="equiv", action=a, theta=[int(x) for x in post["theta"]])
        if inst.zero_ref and all(x == 0 for x in post["theta"]):
            try:
                with quiet():
                    ref = obj.prepare_reference_state()
                rj = circuit_json(ref, M)
            except Exception as e:
                ev("exception", si, detail="prepare_reference_state raised %s" % type(e).__name__)
                continue
            if rj is not None:
                key = book.add(M, {"kind": "ref", "n": max(n, ref.width), "a": uj, "b": rj}, None)
                ev("job", si, jkey=key, jkind="ref", action=a)
            lib = inst.library_reference(M)
            if lib is not None and lib[0] is not None:
                key = book.add(M, {"kind": "ref", "n": max(n, lib[1]), "a": uj, "b": lib[0]}, None)
                ev("job", si, jkey=key, jkind="reflib", action=a)
            occ = inst.occ_record()
            if occ is not None and mode == "clifford":
                key = book.add(M, {"kind": "refocc", "n": max(n, occ["nso"]), "a": uj, "occ": occ}, None)
                ev("job", si, jkey=key, jkind="refocc", action=a)


# ------------------------------------------------------------------------------------------------------------
# instance registry
# ------------------------------------------------------------------------------------------------------------
def _qcc_like(cls_name, molname, mapping, utd, gens_kw, user_qmf=False):
    """user_qmf: the QMF state circuit is passed by the user (qmf_circuit=...) and holds variational RX / RZ gates."""
    cache = {}

    def mk():
        from tangelo.toolboxes.ansatz_generator import QCC, ILC
        cls = QCC if cls_name == "QCC" else ILC
        m = mol(molname)
        if "gens" not in cache:
            a = cls(m, mapping=mapping, up_then_down=utd)
            cache["gens"] = list(a.dis if cls_name == "QCC" else a.acs)
            cache["ham"] = a.qubit_ham
        kw = {gens_kw: list(cache["gens"])}
        if user_qmf:
            from tangelo.toolboxes.ansatz_generator._qubit_mf import get_qmf_circuit, init_qmf_from_hf
            from tangelo.toolboxes.qubit_mappings.mapping_transform import get_qubit_number
            nq = get_qubit_number(mapping, m.n_active_sos)
            prm = np.array(init_qmf_from_hf(m.n_active_sos, m.n_active_electrons, mapping, utd, m.active_spin), dtype=float)
            prm[nq:] = [(PI / 2) * (1 + j % 3) for j in range(nq)]       # RZ phases on the pi/2 grid
            kw["qmf_circuit"] = get_qmf_circuit(prm, True)                # a new circuit object for every ansatz object
        return cls(m, mapping=mapping, up_then_down=utd, qubit_ham=cache["ham"], **kw)
    return mk


def _vsqs(order, nav, intervals, varref=False):
    """varref: the user's reference circuit itself holds variational / parameterised gates (they are not VSQS parameters:
    updates must leave them alone)."""
    def mk():
        from tangelo.toolboxes.ansatz_generator import VSQS
        from tangelo.toolboxes.operators import QubitOperator
        from tangelo.linq import Circuit, Gate
        h = PI / 2
        h_init = QubitOperator("Z0", h) + QubitOperator("Z1", -h) + QubitOperator("Z2", 2 * h) + QubitOperator("Z0 Z1", h)
        h_fin = QubitOperator("X0 X1", h) + QubitOperator("Y1 Y2", -h) + QubitOperator("Z0 Z2", h) + QubitOperator("X2", 3 * h) + QubitOperator((), 0.5)
        h_nav = (QubitOperator("Y0", h) + QubitOperator("X1 Z2", -h)) if nav else None
        ref = Circuit([Gate("X", 0), Gate("X", 2)], n_qubits=3)
        if varref:
            ref = Circuit([Gate("X", 0), Gate("RY", 1, parameter=PI / 2, is_variational=True), Gate("X", 2),
                           Gate("RZ", 1, parameter=-PI / 2, is_variational=True), Gate("RX", 0, parameter=PI / 2),
                           Gate("CNOT", 2, 1), Gate("RY", 2, parameter=PI, is_variational=True)], n_qubits=3)
        return VSQS(qubit_hamiltonian=h_fin, h_init=h_init, reference_state=ref, h_nav=h_nav, intervals=intervals,
                    time=float(intervals), trotter_order=order)
    return mk


def _varcirc(which):
    def mk():
        from tangelo.toolboxes.ansatz_generator import VariationalCircuitAnsatz
        from tangelo.linq import Circuit, Gate
        if which == 0:
            gs = [Gate("H", 0), Gate("RX", 0, parameter=0.1, is_variational=True), Gate("CNOT", 1, 0),
                  Gate("RY", 1, parameter=0.2, is_variational=True), Gate("RZ", 0, parameter=0.3, is_variational=True),
                  Gate("CRZ", 0, control=1, parameter=0.4, is_variational=True), Gate("X", 2),
                  Gate("PHASE", 2, parameter=0.5, is_variational=True), Gate("RZ", 1, parameter=PI / 2),
                  Gate("CNOT", 2, 1), Gate("RX", 2, parameter=0.6, is_variational=True)]
        else:
            gs = [Gate("RY", 0, parameter=0.1, is_variational=True), Gate("RY", 1, parameter=0.1, is_variational=True),
                  Gate("CNOT", 1, 0), Gate("CRY", 1, control=0, parameter=0.2, is_variational=True), Gate("H", 1),
                  Gate("XX", [0, 1], parameter=0.3, is_variational=True), Gate("S", 0),
                  Gate("CRX", 0, control=1, parameter=0.3, is_variational=True), Gate("RZ", 1, parameter=0.7, is_variational=True)]
        return VariationalCircuitAnsatz(Circuit(gs))
    return mk


def _adapt(molname, mapping, utd):
    cache = {}

    def pool():
        if "pool" not in cache:
            from tangelo.toolboxes.ansatz_generator._general_unitary_cc import uccgsd_generator
            from tangelo.toolboxes.qubit_mappings.mapping_transform import fermion_to_qubit_mapping
            m = mol(molname)
            ops = []
            for f in uccgsd_generator(m.n_active_sos, up_down=utd):
                q = fermion_to_qubit_mapping(f, mapping=mapping, n_spinorbitals=m.n_active_sos, n_electrons=m.n_active_electrons,
                                             up_then_down=utd, spin=m.active_spin)
                for t, c in q.terms.items():
                    q.terms[t] = math.copysign(1., c.imag)      # what ADAPTSolver does with the pool
                ops.append(q)
            # a small pool with singles and doubles of different term counts
            sizes = sorted(set(len(o.terms) for o in ops))
            pick = []
            for sz in sizes:
                pick += [o for o in ops if len(o.terms) == sz][:2]
            cache["pool"] = pick[:4] if len(pick) >= 2 else ops[:4]
        return cache["pool"]

    def mk(ops):
        from tangelo.toolboxes.ansatz_generator import ADAPTAnsatz
        m = mol(molname)
        p = pool()
        return ADAPTAnsatz(m.n_active_sos, m.n_active_electrons, m.active_spin,
                           ansatz_options={"mapping": mapping, "up_then_down": utd,
                                           "operators": [copy.deepcopy(p[(o - 1) % len(p)]) for o in (ops or [])]})
    return mk, pool


def instances():
    from tangelo.toolboxes.ansatz_generator import UCCSD, UpCCGSD, HEA, QMF, RUCC
    from tangelo.toolboxes.ansatz_generator.uccgd import UCCGD
    from tangelo.toolboxes.ansatz_generator.puccd import pUCCD
    L = []

    def add(name, family, variant, *a, **kw):
        if family in ("UCCSD", "UpCCGSD", "UCCGD") and re.search(r"/(jw|bk|scbk|jkmn)/1", name):
            variant = (variant + "/utd") if variant != "-" else "utd"
        parts = name.split("/")
        if family in ("UCCSD", "UpCCGSD", "UCCGD") and len(parts) >= 4 and parts[2] in ("jw", "bk", "scbk", "jkmn"):
            kw.setdefault("enc", (parts[1], parts[2], parts[3] == "1"))
        if family in ("UCCSD", "UpCCGSD", "UCCGD") and len(parts) >= 4 and parts[2] == "jw":
            kw.setdefault("occ", ("jw", parts[1], parts[3] == "1"))
        elif family == "RUCC":
            kw.setdefault("occ", ("jw4",))
        elif family == "pUCCD":
            kw.setdefault("occ", ("hcb", parts[1]))
        L.append(Inst(name, family, variant, *a, **kw))
    enc = [("jw", False), ("jw", True), ("bk", False), ("bk", True), ("scbk", True), ("jkmn", False), ("jkmn", True), ("scbk", False)]
    # ---- UCCSD -------------------------------------------------------------------------------------------
    for mp, utd in enc:
        add("UCCSD/H2/%s/%d" % (mp, utd), "UCCSD", "closed", (lambda mp=mp, utd=utd: UCCSD(mol("H2"), mapping=mp, up_then_down=utd)),
            zero_ref=True, ring="quick" if (mp, utd) == ("jw", False) else True, tier="quick" if (mp, utd) in enc[:5] else "thorough",
            reftype=((mp, utd) == ("jw", False)))
    add("UCCSD/H4/jw/0", "UCCSD", "closed", lambda: UCCSD(mol("H4")), zero_ref=True, big=True, weight=0.25)
    add("UCCSD/H4/bk/1", "UCCSD", "closed", lambda: UCCSD(mol("H4"), mapping="bk", up_then_down=True), zero_ref=True, big=True, tier="thorough", weight=0.15)
    add("UCCSD/H4/scbk/1", "UCCSD", "closed", lambda: UCCSD(mol("H4"), mapping="scbk", up_then_down=True), zero_ref=True, big=True, tier="thorough", weight=0.15)
    add("UCCSD/H4/jkmn/0", "UCCSD", "closed", lambda: UCCSD(mol("H4"), mapping="jkmn"), zero_ref=True, big=True, tier="thorough", weight=0.15)
    add("UCCSD/H4_3mo_2e/jw/0", "UCCSD", "closed", lambda: UCCSD(mol("H4_3mo_2e")), zero_ref=True, weight=0.5)
    add("UCCSD/H4_cation/jw/0", "UCCSD", "open", lambda: UCCSD(mol("H4_cation")), zero_ref=True, big=True, weight=0.25)
    add("UCCSD/H4_cation/bk/1", "UCCSD", "open", lambda: UCCSD(mol("H4_cation"), mapping="bk", up_then_down=True), zero_ref=True, big=True, tier="thorough", weight=0.15)
    add("UCCSD/H4_triplet/jw/1", "UCCSD", "open", lambda: UCCSD(mol("H4_triplet"), up_then_down=True), zero_ref=True, big=True, tier="thorough", weight=0.15)
    # reference-type matrix of UCCSD (build_circuit and update_var_params each choose the excitation generator from
    # spin / uhf): closed-shell RHF (above), UHF spin 0 with identical alpha/beta spaces, ROHF and UHF open shell
    add("UCCSD/H2_uhf/jw/0", "UCCSD", "uhf", lambda: UCCSD(mol("H2_uhf")), zero_ref=True, ring="quick", reftype=True)
    add("UCCSD/H2eq_uhf/jw/0", "UCCSD", "uhf", lambda: UCCSD(mol("H2eq_uhf")), zero_ref=True, ring="quick", reftype=True, weight=0.5)
    add("UCCSD/H2_cation/jw/0", "UCCSD", "open", lambda: UCCSD(mol("H2_cation")), zero_ref=True, ring="quick", reftype=True, weight=0.5)
    add("UCCSD/H2_anion/jw/0", "UCCSD", "open", lambda: UCCSD(mol("H2_anion")), zero_ref=True, ring="quick", reftype=True, weight=0.5)
    add("UCCSD/H2_cation_uhf/jw/0", "UCCSD", "uhf-open", lambda: UCCSD(mol("H2_cation_uhf")), zero_ref=True, ring="quick", reftype=True, weight=0.5)
    add("UCCSD/H2_anion_uhf/jw/0", "UCCSD", "uhf-open", lambda: UCCSD(mol("H2_anion_uhf")), zero_ref=True, ring="quick", reftype=True, weight=0.5)
    add("UCCSD/H2_cation/jw/1", "UCCSD", "open", lambda: UCCSD(mol("H2_cation"), up_then_down=True), zero_ref=True, ring=True, reftype=True, weight=0.3)
    add("UCCSD/H2_anion_uhf/jw/1", "UCCSD", "uhf-open", lambda: UCCSD(mol("H2_anion_uhf"), up_then_down=True), zero_ref=True, ring=True, reftype=True, weight=0.3)
    add("UCCSD/H2_triplet/jw/0", "UCCSD", "open", lambda: UCCSD(mol("H2_triplet")), zero_ref=True, reftype=True, weight=0.3)
    add("UCCSD/H4_cation/jw/1", "UCCSD", "open", lambda: UCCSD(mol("H4_cation"), up_then_down=True), zero_ref=True, big=True, tier="thorough", weight=0.15)
    add("UCCSD/H2_anion_uhf/bk/1", "UCCSD", "uhf-open", lambda: UCCSD(mol("H2_anion_uhf"), mapping="bk", up_then_down=True), zero_ref=True, ring=True,
        reftype=True, tier="thorough")
    add("UCCSD/H4_cation_uhf/jw/0", "UCCSD", "uhf-open", lambda: UCCSD(mol("H4_cation_uhf")), zero_ref=True, big=True, tier="thorough", weight=0.15)
    add("UCCSD/H2_uhf/bk/1", "UCCSD", "uhf", lambda: UCCSD(mol("H2_uhf"), mapping="bk", up_then_down=True), zero_ref=True, ring=True, tier="thorough")
    add("UCCSD/H4_uhf/jw/0", "UCCSD", "uhf", lambda: UCCSD(mol("H4_uhf")), zero_ref=True, big=True, weight=0.2, reftype=True)
    # ---- UCC1 / UCC3 -------------------------------------------------------------------------------------
    add("UCC1", "RUCC", "ucc1", lambda: RUCC(1), zero_ref=True, ring=True)
    add("UCC3", "RUCC", "ucc3", lambda: RUCC(3), zero_ref=True, ring=True)
    # ---- UpCCGSD -----------------------------------------------------------------------------------------
    for k in (1, 2, 3, 4):
        kc = "k>=3" if k >= 3 else "k<=2"
        add("UpCCGSD/H2/jw/0/k%d" % k, "UpCCGSD", kc, (lambda k=k: UpCCGSD(mol("H2"), k=k)), zero_ref=True, ring="quick" if k == 2 else True)
        add("UpCCGSD/H2/bk/1/k%d" % k, "UpCCGSD", kc, (lambda k=k: UpCCGSD(mol("H2"), mapping="bk", up_then_down=True, k=k)),
            zero_ref=True, ring=True, tier="thorough")
        add("UpCCGSD/H4/jw/0/k%d" % k, "UpCCGSD", kc, (lambda k=k: UpCCGSD(mol("H4"), k=k)), zero_ref=True, big=True,
            tier="quick" if k == 2 else "thorough", weight=0.25)
    add("UpCCGSD/H2/jkmn/0/k2", "UpCCGSD", "k<=2", lambda: UpCCGSD(mol("H2"), mapping="jkmn", k=2), zero_ref=True, ring=True, tier="thorough")
    add("UpCCGSD/H2/scbk/1/k2", "UpCCGSD", "k<=2", lambda: UpCCGSD(mol("H2"), mapping="scbk", up_then_down=True, k=2), zero_ref=True, ring=True, tier="thorough")
    add("UpCCGSD/H4_3mo/jw/0/k2", "UpCCGSD", "k<=2", lambda: UpCCGSD(mol("H4_3mo"), k=2), zero_ref=True, weight=0.5, tier="thorough")
    add("UpCCGSD/H2_cation/jw/0/k2", "UpCCGSD", "k<=2", lambda: UpCCGSD(mol("H2_cation"), k=2), zero_ref=True, ring=True, weight=0.3)
    add("UpCCGSD/H2_cation/jw/1/k2", "UpCCGSD", "k<=2", lambda: UpCCGSD(mol("H2_cation"), up_then_down=True, k=2), zero_ref=True, ring=True, weight=0.3)
    # triplet: the default occupation of get_reference_circuit (spin=None) differs from the requested one
    add("UpCCGSD/H2_triplet/jw/0/k2", "UpCCGSD", "k<=2", lambda: UpCCGSD(mol("H2_triplet"), k=2), zero_ref=True, ring=True, weight=0.3)
    add("UpCCGSD/H2_triplet/bk/1/k2", "UpCCGSD", "k<=2", lambda: UpCCGSD(mol("H2_triplet"), mapping="bk", up_then_down=True, k=2), zero_ref=True, tier="thorough", weight=0.3)
    add("UpCCGSD/H2/jw/1/k2", "UpCCGSD", "k<=2", lambda: UpCCGSD(mol("H2"), up_then_down=True, k=2), zero_ref=True, ring=True, weight=0.5)
    add("UpCCGSD/H2/jw/1/k3", "UpCCGSD", "k>=3", lambda: UpCCGSD(mol("H2"), up_then_down=True, k=3), zero_ref=True, ring=True, tier="thorough")
    add("UpCCGSD/H4/jw/1/k2", "UpCCGSD", "k<=2", lambda: UpCCGSD(mol("H4"), up_then_down=True, k=2), zero_ref=True, big=True, tier="thorough", weight=0.15)
    add("UpCCGSD/H4_cation/jw/0/k2", "UpCCGSD", "k<=2", lambda: UpCCGSD(mol("H4_cation"), k=2), zero_ref=True, big=True, tier="thorough", weight=0.15)
    # ---- UCCGD -------------------------------------------------------------------------------------------
    add("UCCGD/H2_cation/jw/0", "UCCGD", "-", lambda: UCCGD(mol("H2_cation")), zero_ref=True, ring=True, weight=0.3)
    add("UCCGD/H2_cation/jw/1", "UCCGD", "-", lambda: UCCGD(mol("H2_cation"), up_then_down=True), zero_ref=True, ring=True, weight=0.3)
    add("UCCGD/H2_triplet/jw/1", "UCCGD", "-", lambda: UCCGD(mol("H2_triplet"), up_then_down=True), zero_ref=True, ring=True, weight=0.3)
    add("UCCGD/H4_3mo/jw/1", "UCCGD", "-", lambda: UCCGD(mol("H4_3mo"), up_then_down=True), zero_ref=True, weight=0.4, tier="thorough")
    for mp, utd in enc[:4]:
        add("UCCGD/H2/%s/%d" % (mp, utd), "UCCGD", "-", (lambda mp=mp, utd=utd: UCCGD(mol("H2"), mapping=mp, up_then_down=utd)),
            zero_ref=True, ring="quick" if (mp, utd) == ("jw", False) else True,
            tier="quick" if (mp, utd) in (("jw", False), ("jw", True), ("bk", True)) else "thorough", weight=0.6 if utd else 1.0)
    add("UCCGD/H4_3mo/jw/0", "UCCGD", "-", lambda: UCCGD(mol("H4_3mo")), zero_ref=True, weight=0.5, tier="thorough")
    add("UCCGD/H4/jw/0", "UCCGD", "-", lambda: UCCGD(mol("H4")), zero_ref=True, big=True, tier="thorough", weight=0.15)
    # ---- HEA ---------------------------------------------------------------------------------------------
    for rot in ("euler", "real"):
        for nl in (1, 2):
            add("HEA/H2/jw/%s/L%d" % (rot, nl), "HEA", rot, (lambda rot=rot, nl=nl: HEA(mol("H2"), n_layers=nl, rot_type=rot)), ring=(rot == "real"))
        add("HEA/q3e2/%s/L2" % rot, "HEA", rot, (lambda rot=rot: HEA(n_qubits=3, n_electrons=2, n_layers=2, rot_type=rot, spin=0)), tier="thorough", ring=(rot == "real"))
        add("HEA/H2/bk1/%s/L1" % rot, "HEA", rot, (lambda rot=rot: HEA(mol("H2"), mapping="bk", up_then_down=True, n_layers=1, rot_type=rot)), tier="thorough")
    add("HEA/H4/jw/real/L2", "HEA", "real", lambda: HEA(mol("H4"), n_layers=2, rot_type="real"), big=True, weight=0.5, tier="thorough")
    # ---- QMF / QCC / ILC ---------------------------------------------------------------------------------
    add("QMF/H2/jw/0", "QMF", "-", lambda: QMF(mol("H2")), ring=True)
    add("QMF/H2/bk/1", "QMF", "-", lambda: QMF(mol("H2"), mapping="bk", up_then_down=True), tier="thorough")
    add("QMF/H2_cation/jw/0", "QMF", "-", lambda: QMF(mol("H2_cation")), tier="thorough")
    add("QCC/H4_cation/jw", "QCC", "-", _qcc_like("QCC", "H4_cation", "jw", True, "dis"), weight=0.5, tier="thorough")
    add("ILC/H4_cation/jw", "ILC", "-", _qcc_like("ILC", "H4_cation", "jw", True, "acs"), weight=0.5, tier="thorough")
    add("HEA/H2_cation/jw/real/L1", "HEA", "real", lambda: HEA(mol("H2_cation"), n_layers=1, rot_type="real"), tier="thorough")
    add("QMF/H4/jw/1", "QMF", "-", lambda: QMF(mol("H4"), up_then_down=True), tier="thorough", weight=0.5)
    add("QCC/H2/jw", "QCC", "-", _qcc_like("QCC", "H2", "jw", True, "dis"), ring="quick")
    add("QCC/H4/jw", "QCC", "-", _qcc_like("QCC", "H4", "jw", True, "dis"), weight=0.5)
    add("QCC/H4/bk", "QCC", "-", _qcc_like("QCC", "H4", "bk", True, "dis"), weight=0.5, tier="thorough")
    add("QCC/H4/scbk", "QCC", "-", _qcc_like("QCC", "H4", "scbk", True, "dis"), weight=0.5, tier="thorough")
    add("ILC/H2/jw", "ILC", "-", _qcc_like("ILC", "H2", "jw", True, "acs"), ring=True)
    add("QCC/H4/jw/userqmf", "QCC", "userqmf", _qcc_like("QCC", "H4", "jw", True, "dis", user_qmf=True), weight=0.4)
    add("QCC/H2/jw/userqmf", "QCC", "userqmf", _qcc_like("QCC", "H2", "jw", True, "dis", user_qmf=True), weight=0.5, tier="thorough")
    add("ILC/H4/jw/userqmf", "ILC", "userqmf", _qcc_like("ILC", "H4", "jw", True, "acs", user_qmf=True), weight=0.4)
    add("ILC/H2/bk/userqmf", "ILC", "userqmf", _qcc_like("ILC", "H2", "bk", True, "acs", user_qmf=True), weight=0.5, tier="thorough")
    add("ILC/H4/jw", "ILC", "-", _qcc_like("ILC", "H4", "jw", True, "acs"), weight=0.5)
    add("ILC/H4/bk", "ILC", "-", _qcc_like("ILC", "H4", "bk", True, "acs"), weight=0.5, tier="thorough")
    # ---- VSQS --------------------------------------------------------------------------------------------
    for order in (1, 2):
        for nav in (False, True):
            for iv in (2, 3):
                add("VSQS/grid/o%d/nav%d/i%d" % (order, nav, iv), "VSQS", "-", _vsqs(order, nav, iv), ring=(iv == 2),
                    unit_cands=[0.5, 1., 2., 4., 8.], tier="quick" if (iv == 3 or (order == 2 and nav)) else "thorough")
    for order, nav, iv, tier in ((1, False, 3, "quick"), (2, True, 3, "quick"), (2, True, 2, "quick"), (1, True, 3, "thorough"), (2, False, 3, "thorough"),
                                 (1, False, 2, "thorough")):
        add("VSQS/varref/o%d/nav%d/i%d" % (order, nav, iv), "VSQS", "varref", _vsqs(order, nav, iv, varref=True), ring=(iv == 2 and tier == "thorough"),
            unit_cands=[0.5, 1., 2., 4., 8.], tier=tier, weight=0.7)
    from tangelo.toolboxes.ansatz_generator import VSQS
    add("VSQS/H2/jw", "VSQS", "-", lambda: VSQS(mol("H2"), intervals=3), unit_cands=[1.], weight=0.3)
    # ---- pUCCD -------------------------------------------------------------------------------------------
    add("pUCCD/H4", "pUCCD", "-", lambda: pUCCD(mol("H4")), zero_ref=True, ring="quick")
    add("pUCCD/H4_3mo", "pUCCD", "-", lambda: pUCCD(mol("H4_3mo")), zero_ref=True, ring=True)
    add("pUCCD/H4_3mo_2e", "pUCCD", "-", lambda: pUCCD(mol("H4_3mo_2e")), zero_ref=True, ring=True)
    add("pUCCD/H2", "pUCCD", "-", lambda: pUCCD(mol("H2")), zero_ref=True, ring=True, tier="thorough")
    # ---- user circuit ------------------------------------------------------------------------------------
    add("VarCirc/0", "VariationalCircuitAnsatz", "-", _varcirc(0), ring="quick")
    add("VarCirc/1", "VariationalCircuitAnsatz", "-", _varcirc(1), ring=True)
    # ---- ADAPT -------------------------------------------------------------------------------------------
    for nm, molname, mp, utd, tier, big in (("ADAPT/H2/jw/0", "H2", "jw", False, "quick", False), ("ADAPT/H2/bk/1", "H2", "bk", True, "quick", False),
                                            ("ADAPT/H2/jkmn/0", "H2", "jkmn", False, "thorough", False),
                                            ("ADAPT/H2_cation/jw/0", "H2_cation", "jw", False, "thorough", False),
                                            ("ADAPT/H4/jw/0", "H4", "jw", False, "thorough", True)):
        mk, pool = _adapt(molname, mp, utd)
        inst = Inst(nm, "ADAPT", "-", mk, zero_ref=True, adapt=True, occ=(("jw", molname, utd) if mp == "jw" else None), enc=(molname, mp, utd), ring=("quick" if nm == "ADAPT/H2/jw/0" else not big), big=big, tier=tier, weight=0.5 if big else 1.0)
        inst._pool_fn = pool
        L.append(inst)
    return L


class BrokenAnsatz:
    """Seeded defect (negative control of the whole pipeline; depends on tangelo.linq only): build_circuit is correct,
    update_var_params writes parameter i into variational gate i+1 (cyclically)."""

    def __init__(self):
        self.n_var_params = 3
        self.var_params = None
        self.circuit = None

    def set_var_params(self, v):
        v = np.array(v, dtype=float)
        if v.size != self.n_var_params:
            raise ValueError("expected %d parameters" % self.n_var_params)
        self.var_params = v
        return v

    def prepare_reference_state(self):
        from tangelo.linq import Circuit, Gate
        return Circuit([Gate("X", 0)], n_qubits=2)

    def build_circuit(self, v=None):
        from tangelo.linq import Circuit, Gate
        v = self.set_var_params(v)
        self.circuit = self.prepare_reference_state() + Circuit([
            Gate("RY", 0, parameter=float(v[0]), is_variational=True), Gate("RX", 1, parameter=float(v[1]), is_variational=True),
            Gate("CNOT", 1, 0), Gate("RZ", 1, parameter=float(v[2]), is_variational=True), Gate("H", 0)])
        return self.circuit

    def update_var_params(self, v):
        v = self.set_var_params(v)
        for i in range(3):
            self.circuit._variational_gates[(i + 1) % 3].parameter = float(v[i])


# ------------------------------------------------------------------------------------------------------------
# TLC: life-cycle machine (S + G)
# ------------------------------------------------------------------------------------------------------------
LIFE_CFG = """CONSTANTS NSlots = %(ns)d
Syms <- %(syms)s
MaxSteps = %(steps)d
Adapt = %(adapt)s
MaxOps = %(maxops)d
Pool = %(pool)d
BadDeltas <- %(bd)s
BadFill = {%(fill)s}
Export = %(exp)s
INIT Init
NEXT Next
INVARIANT TypeOK
INVARIANT NparOK
INVARIANT SyncedShape
INVARIANT HistoryIndependence
INVARIANT LogFaithful
INVARIANT RejectedIffWrongLength
INVARIANT EndOfBehaviour
%(extra)s
"""


def life_cfg(ns=1, syms="SymsAll", steps=3, adapt=False, maxops=0, pool=1, bd="BadSmall", fill="1", export=True, prop=True):
    return LIFE_CFG % dict(ns=ns, syms=syms, steps=steps, adapt="TRUE" if adapt else "FALSE", maxops=maxops, pool=pool, bd=bd,
                           fill=fill, exp="TRUE" if export else "FALSE", extra="PROPERTY RejectedFrame" if prop else "")


class Beh:
    """One behaviour exported by TLC: the raw JSON text plus a light signature used for input selection
    (tens of thousands of behaviours are exported; only the selected ones are parsed)."""
    __slots__ = ("raw", "sig", "ref")

    def __init__(self, raw, ref):
        H = json.loads(raw)
        self.raw, self.ref = raw, ref
        self.sig = tuple((s["a"], tuple(s["sym"]), len(s["v"])) for s in H["steps"])

    def H(self):
        return json.loads(self.raw)


def behaviours_of(res, pool, simulated):
    """BH records of a TLC run as Beh objects (simulation: the invariant is evaluated on every successor of the
    last state, keep one behaviour per prefix)."""
    pat = re.compile(r'^<<"BH", (".*")>>$')
    seen, out = set(), []
    for line in res.out.splitlines():
        m = pat.match(line)
        if not m:
            continue
        raw = json.loads(m.group(1))
        b = Beh(raw, (pool, len(out)))
        if simulated:
            k = b.sig[:-1]
            if k in seen:
                continue
            seen.add(k)
        out.append(b)
    return out


def coverage_by_action(res):
    """-coverage 1 reports the disjuncts of Next either by operator name or by source position: map positions to the
    operator that is applied on that source line."""
    src = open(os.path.join(SPEC_DIR, "C07AnsatzLifecycle.tla")).read().splitlines()
    out = {}
    for m in re.finditer(r"<(\w+) line (\d+), col \d+ to line \d+, col \d+ of module C07AnsatzLifecycle(?: \((\d+) \d+ \d+ \d+\))?>: (\d+):(\d+)", res.out):
        name = m.group(1)
        if m.group(3):
            line = src[int(m.group(3)) - 1]
            mm = re.search(r":\s*(\w+)\(", line)
            if mm:
                name = mm.group(1)
        if name in ("Build", "Update", "BadBuild", "BadUpdate", "AddOperator"):
            out[name] = out.get(name, 0) + int(m.group(5))
    return out


def generate_histories(chk):
    """Runs the life-cycle machine; returns {pool name: [behaviours]} and accounts the TLC runs."""
    q = chk.quick
    runs = [
        # exhaustive: every history of a Build followed by <= 3 (quick: 2) further calls, one slot, full alphabet
        ("E1", dict(cfg=life_cfg(ns=1, syms="SymsAll", steps=3 if q else 4), workers=4, coverage=True)),
        # exhaustive: two slots
        ("E2", dict(cfg=life_cfg(ns=2, syms="SymsThree" if q else "SymsFour", steps=3), workers=4)),
        # long random histories, three slots, all rejected lengths
        ("SIM", dict(cfg=life_cfg(ns=3, syms="SymsAll", steps=10, bd="BadFull", fill="1, 0", prop=False), workers=1,
                     simulate="num=%d" % (60 if q else 400), depth=11, seed=chk.seed + 7)),
        # ADAPT: exhaustive short, simulated long
        ("AE", dict(cfg=life_cfg(ns=0, syms="SymsThree", steps=4 if q else 5, adapt=True, maxops=2 if q else 3, pool=3), workers=4, coverage=True)),
        ("AS", dict(cfg=life_cfg(ns=1, syms="SymsAll", steps=9, adapt=True, maxops=4, pool=4, bd="BadFull", fill="1, 0", prop=False), workers=1,
                    simulate="num=%d" % (40 if q else 300), depth=10, seed=chk.seed + 11)),
    ]
    # three slots, short random histories: source of zero-pattern transitions (support changes) between three parameter groups
    runs.append(("P3", dict(cfg=life_cfg(ns=3, syms="SymsThree", steps=4, prop=False), workers=1,
                            simulate="num=%d" % (500 if q else 4000), depth=5, seed=chk.seed + 13)))
    if not q:
        runs.append(("S3", dict(cfg=life_cfg(ns=3, syms="SymsThree", steps=3, export=False), workers=4)))
    res = tlc.run_many([dict(module="C07AnsatzLifecycle", name=WK + "/life_%s" % nm, timeout=3600, heap="6g", **kw) for nm, kw in runs],
                       max_parallel=min(6, JVMS))
    pools, cov = {}, {}
    for (nm, kw), r in zip(runs, res):
        if not r.ok:
            raise tlc.TLCError("C07AnsatzLifecycle (%s): specification invariant violated or TLC error: %s\n%s" % (nm, r.violated, r.out[-1500:]))
        chk.add_tlc(r, "S_lifecycle_" + nm)
        bhs = behaviours_of(r, nm, "simulate" in kw)
        pools[nm] = bhs
        if kw.get("coverage"):
            for a, c in coverage_by_action(r).items():
                cov[a] = cov.get(a, 0) + c
        r.out = ""                      # the behaviours are kept as Beh records; drop the raw output
        chk.part("S_lifecycle_" + nm, behaviours=len(bhs))
    need = ("Build", "Update", "BadBuild", "BadUpdate", "AddOperator")
    if any(cov.get(a, 0) == 0 for a in need):
        raise tlc.TLCError("vacuity: some action of the life-cycle machine was never taken: %s" % cov)
    chk.part("S_lifecycle_coverage", **cov)
    return pools


def pair_cover(hists, rng, budget, level="sym"):
    """Input selection: behaviours covering every (call kind, previous vector, next vector) transition; at level
    "pattern" vectors are abstracted to their zero pattern (which parameters are exactly zero)."""
    def ab(v):
        return tuple(v) if level == "sym" else tuple(x == 0 for x in v)
    idx = list(range(len(hists)))
    rng.shuffle(idx)
    covered, pick = set(), []
    for i in idx:
        prev, new = None, set()
        for act, sym, ln in hists[i].sig:
            if act in ("Build", "Update"):
                new.add((act, prev, ab(sym)))
                prev = ab(sym)
            else:
                new.add((act, prev, ln))
        if new - covered:
            covered |= new
            pick.append(i)
            if len(pick) >= budget:
                break
    return pick


def plan_for(inst, pools, chk, rng):
    """(behaviour, mode, slot-map kind[|unit mode]) triples replayed on this instance."""
    q = chk.quick
    w = inst.weight
    plan = []

    def um(kind):
        # one history in three uses one common unit for all parameters (see pick_units)
        return kind + ("|uniform" if rng.random() < 1 / 3 else "")
    ring_on = inst.ring and not os.environ.get("C07_NORING") and (not q or inst.ring == "quick")
    if inst.adapt:
        nA, nS = (int(40 * w), int(10 * w)) if q else (int(600 * w), int(120 * w))
        pa, ps = pools["AE"], pools["AS"]
        for i in pair_cover(pa, rng, nA):
            plan.append((pa[i], "clifford", um("id")))
        for b in rng.sample(ps, min(nS, len(ps))):
            plan.append((b, "clifford", um("id")))
        if ring_on:
            for b in rng.sample(pa, min(len(pa), 2 if q else 12)):
                plan.append((b, "probe", um("id")))
        return plan
    n1, n2, n3, n4 = (int(24 * w), int(16 * w), max(1, int(3 * w)), int(24 * w)) if q else (int(400 * w), int(300 * w), int(60 * w), int(200 * w))
    p1, p2, p3, p4 = pools["E1"], pools["E2"], pools["SIM"], pools["P3"]
    kinds = ["mod", "block", "rand"]
    for i in pair_cover(p1, rng, n1):
        plan.append((p1[i], "clifford", um("mod")))
    if inst.zero_ref:
        # the reference-state clause needs theta = 0 reached by a build and by an update, whatever the sample
        zb = [b for b in p1 if b.sig[0][:2] == ("Build", (0,))]
        zu = [b for b in p1 if b.sig[0][0] == "Build" and b.sig[0][1] != (0,) and any(act == "Update" and sym == (0,) for act, sym, _ in b.sig[1:])]
        for src in (zb, zu):
            if src:
                plan.append((src[rng.randrange(len(src))], "clifford", "mod"))
    if not q:
        for b in rng.sample(p1, min(len(p1), int(200 * w))):
            plan.append((b, "clifford", um("mod")))
    for i in pair_cover(p2, rng, n2):
        plan.append((p2[i], "clifford", um(rng.choice(kinds))))
    for b in rng.sample(p3, min(n3, len(p3))):
        plan.append((b, "clifford", um(rng.choice(kinds))))
    for i in pair_cover(p4, rng, n4, level="pattern"):
        plan.append((p4[i], "clifford", um(rng.choice(["mod", "mod", "block", "rand"]))))
    if ring_on:
        # generic (non-Clifford) grid parameters, exact ring states; instances with reference-type dependent code paths
        # (inst.reftype) get more of them and three slots, so that up to three parameter groups carry different values
        nr = ((6 if inst.reftype else 2) if q else (24 if inst.reftype else 12))
        src = [b for b in p4 if any(act == "Update" for act, _, _ in b.sig)] if inst.reftype else p2
        for b in rng.sample(src, min(nr, len(src))):
            plan.append((b, "probe", um("mod" if inst.reftype else rng.choice(kinds))))
        if not q and inst.ring == "quick":
            for b in rng.sample(p1, min(2, len(p1))):
                plan.append((b, "ring", "mod"))
    return plan


def run_instance(args):
    """Worker: replays the plan of one instance; returns (events, counters, book)."""
    inst, plan, seed = args
    if callable(plan):
        plan = plan(inst)
    rng = random.Random("%d:%s" % (seed, inst.name))
    book = JobBook()
    out = {"events": [], "steps": 0, "pairs": 0, "structural_ok": 0, "inconclusive": 0, "skipped_bad": 0, "rejected_calls": 0,
           "histories": 0, "name": inst.name, "unavailable": None, "wall": 0.0}
    t0 = time.time()
    try:
        if inst.adapt:
            inst.pool = inst._pool_fn()
        inst.npar()
    except Exception as e:
        out["unavailable"] = "%s: %s" % (type(e).__name__, str(e)[:200])
        return out, book
    for hid, (beh, mode, sk) in enumerate(plan):
        out["histories"] += 1
        try:
            replay_history(inst, beh.H(), mode, sk, rng, book, out, hid, href=beh.ref)
        except Exception as e:      # driver failure: never a verdict
            out["events"].append(dict(kind="driver-error", inst=inst.name, family=inst.family, variant=inst.variant, hid=hid, step=-1,
                                      sup="-", detail="%s: %s" % (type(e).__name__, str(e)[:300]), case={"inst": inst.name, "href": beh.ref, "mode": mode}))
    out["wall"] = round(time.time() - t0, 2)
    return out, book


# ------------------------------------------------------------------------------------------------------------
# main
# ------------------------------------------------------------------------------------------------------------
_WORK = []


def _work(i):
    return run_instance(_WORK[i])


def run_parallel(work, procs):
    global _WORK
    _WORK = work
    if procs <= 1 or len(work) <= 1:
        return [run_instance(w) for w in work]
    import multiprocessing as mp
    ctx = mp.get_context("fork")
    order = sorted(range(len(work)), key=lambda i: -work[i][0].weight * (40 if work[i][0].big else 1))
    with ctx.Pool(procs) as pool:
        res = pool.map(_work, order, chunksize=1)
    out = [None] * len(work)
    for i, r in zip(order, res):
        out[i] = r
    return out


def negative_controls(book, batches):
    """Corrupt one recorded field per job kind; returns M -> list of (control job dict, original id)."""
    ctl = {}
    for M, items in batches.items():
        quarter = M // 4
        seen = {}
        for jid, dig in items:
            head = book.payloads[dig][1]
            kind = head["kind"] + ":" + head.get("mode", "")
            if seen.get(kind, 0) >= 4 or head.get("mode") in ("probe", "ring") or book.cost(dig) > 3000:
                continue
            c = book.job_dict(dig, jid)
            if c["kind"] == "equiv":
                rot = [x for x, g in enumerate(c["a"]) if g["name"] in ("RZ", "RX", "RY") and not g["c"]]
                if not rot:
                    continue
                c["a"][rot[len(rot) // 2]]["k"] += quarter            # one recorded angle off by pi/2
            elif c["kind"] in ("ref", "refocc"):
                c["a"] = c["a"] + [{"name": "X", "t": [0], "c": [], "k": 0}]      # one more electron
            elif c["kind"] == "same":
                if not c["b"]:
                    continue
                c["b"] = c["b"][:-1]                                   # the rejected call dropped a gate
            else:
                continue
            seen[kind] = seen.get(kind, 0) + 1
            c["id"] = 10 ** 6 + len(ctl.get(M, []))
            ctl.setdefault(M, []).append((c, jid))
    return ctl


def violation_key(e):
    """family : variant : failure kind : input class.  Input class = zero pattern of the accepted vectors
    (support_class) for accepted calls, "wrong-length" for rejected ones."""
    kind = e["kind"]
    if kind in ("bad-accepted", "bad-changed-state"):
        cls = "wrong-length"
        if kind == "bad-changed-state":
            kind += ":" + e.get("what", "circuit")
    else:
        cls = e["sup"]
    return "%s:%s:%s:%s" % (e["family"], e["variant"], kind, cls)


def judge_all(book, name, extra=None):
    """Runs TLC on every recorded job; returns digest -> verdict, the TLC results and the control outcome."""
    batches = book.batches()
    ctl = negative_controls(book, batches)
    verdicts, results, ctl_out = {}, [], []
    for M, items in sorted(batches.items()):
        texts = [(book.cost(dig), jid, book.job_text(dig, jid)) for jid, dig in items]
        texts += [(1 + len(c["a"]) + len(c.get("b", [])), c["id"], json.dumps(c, separators=(",", ":"))) for c, _ in ctl.get(M, [])]
        texts.append((2000, 2 * 10 ** 6, '{"id":%d,"kind":"self"}' % (2 * 10 ** 6)))
        # cost-balanced chunks: expensive jobs first, each to the currently lightest chunk
        texts.sort(key=lambda t: (-t[0], t[1]))
        nbytes = sum(len(t[2]) for t in texts)
        nchunk = max(min(JVMS, max(1, len(texts) // 4)), -(-nbytes // (12 << 20)))      # <= ~12 MB of JSON per JVM
        chunks, load = [[] for _ in range(nchunk)], [0] * nchunk
        for cst, jid, txt in texts:
            i = load.index(min(load))
            chunks[i].append(txt)
            load[i] += cst + 50
        runs = []
        for ci, ch in enumerate(chunks):
            nm = "%s_M%d_%03d" % (name, M, ci)
            d = tlc.workdir(nm)
            p = os.path.join(d, "jobs.json")
            with open(p, "w") as f:
                f.write("[" + ",".join(ch) + "]")
            runs.append(dict(module="C07Trace", cfg="CONSTANT M = %d\nINIT JInit\nNEXT JNext\n" % M, name=nm + "/run",
                             env={"VERIF_JOBS": p}, timeout=7200, heap="4g"))
        rs = tlc.run_many(runs, max_parallel=JVMS)
        v = {}
        for r in rs:
            for t in r.tuples("V"):
                v[t[0]] = t[1]
            for nm_, ok in r.tuples("LC"):
                if ok is not True:
                    raise tlc.TLCError("C07Defs self-check failed (M=%d): %s" % (M, nm_))
        missing = [jid for _, jid, _ in texts if jid not in v]
        if missing:
            raise tlc.TLCError("no verdict for jobs %s (M=%d)" % (missing[:5], M))
        results += rs
        for jid, dig in items:
            verdicts[dig] = v[jid]
        for c, orig in ctl.get(M, []):
            if v[orig] == "ok":
                ctl_out.append((M, c["kind"], v[c["id"]]))
    return verdicts, results, ctl_out


def full_case(case, pools):
    """Replay record of a failing sample: the behaviour itself is looked up only now."""
    c = dict(case)
    href = c.pop("href", None)
    if href is not None and pools is not None:
        c["H"] = pools[href[0]][href[1]].H()
    return c


def difference_tag(book, dig):
    """Structural relation of two inequivalent gate lists (only used to key findings narrowly):
    reordered = same multiset of gates (angles mod 4pi) in another order, angles = same gates, other angles,
    structure = anything else."""
    M, head, refs = book.payloads[dig]
    a, b = json.loads(book.lists[refs["a"]][0]), json.loads(book.lists[refs["b"]][0])
    def full(g):
        return (g["name"], tuple(g["t"]), tuple(g["c"]), g["k"] % (2 * M))
    def shape(g):
        return (g["name"], tuple(g["t"]), tuple(g["c"]))
    if sorted(map(full, a)) == sorted(map(full, b)):
        return "reordered"
    if list(map(shape, a)) == list(map(shape, b)):
        return "angles"
    return "structure"


def process(chk, outs, verdicts, report=True, pools=None, book=None):
    """Turns events + TLC verdicts into violations / counters.  Returns per-family statistics."""
    fam = {}
    for out in outs:
        for e in out["events"]:
            f = fam.setdefault(e["family"], {"judged": 0, "bad": 0})
            kind, detail = e["kind"], e.get("detail", "")
            if kind == "driver-error":
                raise RuntimeError("driver error on %s: %s" % (e["inst"], detail))
            if kind == "job":
                v = verdicts[e["jkey"]]
                f["judged"] += 1
                if report:
                    chk.add_traces(1, e["family"])
                if v == "ok":
                    continue
                if v in ("not-clifford", "reference-not-a-basis-state"):
                    chk.inconclusive += 1
                    continue
                if v == "malformed-gate":
                    chk.spec_drift("%s: a recorded gate is outside the gate set of spec/Gates.tla (sample not judged)" % e["inst"])
                    chk.inconclusive += 1
                    continue
                kind = {"equiv": "update-differs", "ref": "zero-not-reference", "reflib": "zero-not-reference", "refocc": "zero-not-reference",
                        "same": "bad-changed-state"}[e["jkind"]]
                if kind == "update-differs" and book is not None:
                    kind += "/" + difference_tag(book, e["jkey"])
                detail = {"equiv": "Sem(circuit after %s) != Sem(fresh object built with the same parameters)" % e.get("action"),
                          "ref": "all-zero parameters do not prepare the reference state",
                          "reflib": "all-zero parameters do not prepare the reference state of the molecule in this encoding/ordering "
                                    "(get_reference_circuit called with the options of the instance definition)",
                          "refocc": "all-zero parameters do not prepare the Hartree-Fock determinant (occupation from the molecule)",
                          "same": "a rejected call changed the circuit"}[e["jkind"]] + " [TLC verdict: %s]" % v
                e = dict(e, kind=kind, what="circuit")
            f["bad"] += 1
            if report:
                key = violation_key(e)
                # the replay file is only written for the first samples of a key: resolve the behaviour lazily
                chk.violation(key, "%s step %d: %s" % (e["inst"], e["step"], detail),
                              full_case(e["case"], pools) if (len(chk.violations) < 50 and chk.match_known(key) is None) else {"inst": e["inst"]})
    return fam


def run(chk):
    quick = chk.quick
    rng = random.Random(chk.seed)
    t0 = time.time()
    if os.environ.get("C07_NO_KNOWN"):          # development aid (mutation experiments on an already fixed tree)
        chk.known = []
    # ---- S: algorithm model of the cached-table update ------------------------------------------------
    model_future = start_update_model(chk)
    # ---- S + G: life-cycle machine ----------------------------------------------------------------------
    pools = generate_histories(chk)
    t1 = time.time()
    # ---- replay on real objects -------------------------------------------------------------------------
    insts = [i for i in instances() if quick is False or i.tier == "quick"]
    only = os.environ.get("C07_ONLY")          # development aid (mutation experiments): restrict the instance families
    if only:
        insts = [i for i in insts if any(i.name.startswith(o) for o in only.split(","))]
    def planner(inst):
        return plan_for(inst, pools, chk, random.Random("%d:plan:%s" % (chk.seed, inst.name)))
    work = [(inst, planner, chk.seed) for inst in insts]
    # seeded defect: the pipeline must flag it
    broken = Inst("control/BrokenAnsatz", "control", "-", BrokenAnsatz)
    bplan = [(b, "clifford", "mod") for b in pools["E2"]
             if any(act == "Update" and len(set(sym)) > 1 for act, sym, _ in b.sig)][:30]
    procs = int(os.environ.get("VERIF_PROCS", "12"))
    res = run_parallel(work + [(broken, bplan, chk.seed)], procs)
    t2 = time.time()
    book = JobBook()
    outs = []
    for out, b in res:
        book.merge(b)
        outs.append(out)
    bout = outs.pop()
    # ---- V: TLC judges every recorded pair ------------------------------------------------------------------
    verdicts, results, ctl_out = judge_all(book, WK + "/v")
    for r in results:
        chk.add_tlc(r)
    t3 = time.time()
    fam = process(chk, outs, verdicts, pools=pools, book=book)
    # controls
    bfam = process(chk, [bout], verdicts, report=False)
    if bfam.get("control", {}).get("bad", 0) == 0:
        raise tlc.TLCError("binding failure: the seeded update defect (BrokenAnsatz) was not flagged")
    bad_ctl = [c for c in ctl_out if c[2] == "ok"]
    if bad_ctl or not ctl_out:
        raise tlc.TLCError("binding failure: corrupted records accepted or no control produced: %s" % (bad_ctl,))
    chk.part("negative_controls", corrupted_records=len(ctl_out), rejected=len(ctl_out) - len(bad_ctl),
             seeded_defect_flagged_steps=bfam["control"]["bad"], seeded_defect_steps=bfam["control"]["judged"])
    # accounting
    chk.add_eval(book.n_refs, nontrivial=len(book.payloads))
    tot = {k: sum(o.get(k, 0) for o in outs) for k in ("steps", "pairs", "structural_ok", "inconclusive", "escalated", "skipped_bad", "rejected_calls", "histories")}
    chk.inconclusive += tot["inconclusive"]
    unavailable = {o["name"]: o["unavailable"] for o in outs if o["unavailable"]}
    chk.part("G_replay", instances=len(insts), unavailable=unavailable, distinct_tlc_jobs=len(book.payloads), job_references=book.n_refs,
             by_family={k: v for k, v in sorted(fam.items())}, slowest={o["name"]: o["wall"] for o in sorted(outs, key=lambda o: -o["wall"])[:5]}, **tot)
    import tangelo
    chk.part("implementation", tangelo=os.path.dirname(tangelo.__file__))
    chk.part("timing", tlc_lifecycle_s=round(t1 - t0, 1), replay_s=round(t2 - t1, 1), judge_s=round(t3 - t2, 1))
    for o in outs[:2]:
        ev = [e for e in o["events"] if e["kind"] == "job"][:1]
        for e in ev:
            chk.sample({"inst": e["inst"], "step": e["step"], "history": [(s["a"], s["v"]) for s in full_case(e["case"], pools)["H"]["steps"]],
                        "verdict": verdicts[e["jkey"]]})
    finish_update_model(chk, model_future)
    chk.cov["rule"] = ("S: life-cycle machine model-checked over all histories (1-3 slots); G: exported behaviours (exhaustive <= 3 updates over "
                       "{0,a,-a,a+P,2a,3a} per slot, -simulate 10 calls, ADAPT with add_operator) replayed on every ansatz instance; V: after "
                       "every accepted call TLC judges Sem(updated) = Sem(fresh(theta)) (tableau / exact ring), theta = 0 => reference state, "
                       "rejected calls leave the gate list unchanged")
    chk.assumptions += [
        "parameter values are integer multiples of a per-parameter unit chosen so that every gate angle is a Clifford point "
        "(ring mode: the 2pi/16 grid, <= 4 qubits); gate angles are affine in the parameters for every built-in ansatz, so a wrong "
        "gate<-parameter assignment or offset already shows on this lattice unless the mixed-up parameters carry equal values "
        "(slot maps mod/block/random vary which ones do)",
        "UCC-type double excitations are 2pi-periodic as operators: on the Clifford lattice (theta in 2pi Z) a *coherent* mix-up of whole "
        "excitations is invisible; it is visible in ring/probe mode on the <= 4-qubit instances",
        "probe mode compares the two circuits exactly on |0..0> and on one fixed entangled input (necessary condition for equivalence)",
        "off-carrier angles (VSQS on a molecule): structural identity modulo 4pi accepted as sufficient, otherwise inconclusive"]


# ------------------------------------------------------------------------------------------------------------
# S: algorithm model (spec/C07UpdateModel.tla)
# ------------------------------------------------------------------------------------------------------------
MODEL_CFG = ('CONSTANTS K = %d\nT = %d\nVals = {0, 1, 2}\nMaxSteps = %d\nOffsets = "%s"\nResetTable = %s\n'
             'INIT Init\nNEXT Next\nINVARIANT Refines\n')


def model_runs(quick):
    """(name, cfg, expectation): 'holds' runs are obligations on the specification (failure = spec bug, exit 2);
    'mirror' runs model the table handling as written in upccgsd.py / qcc.py: their outcome is recorded."""
    def c(K, T, d, off, reset):
        return MODEL_CFG % (K, T, d, off, "TRUE" if reset else "FALSE")
    runs = [("cumulative_reset_K3T1", c(3, 1, 3, "cumulative", True), "holds"),
            ("cumulative_reset_K2T2", c(2, 2, 3, "cumulative", True), "holds"),
            ("previous_reset_K2T2", c(2, 2, 3, "previous", True), "mirror"),
            ("previous_reset_K3T1", c(3, 1, 2, "previous", True), "mirror"),
            ("cumulative_stale_K1T2", c(1, 2, 3, "cumulative", False), "mirror")]
    if not quick:
        runs += [("cumulative_reset_K3T2", c(3, 2, 2, "cumulative", True), "holds"),
                 ("cumulative_reset_K4T1", c(4, 1, 3, "cumulative", True), "holds"),
                 ("previous_reset_K4T1", c(4, 1, 2, "previous", True), "mirror")]
    return runs


def start_update_model(chk):
    import concurrent.futures as cf
    runs = model_runs(chk.quick)
    ex = cf.ThreadPoolExecutor(max_workers=1)
    fut = ex.submit(tlc.run_many, [dict(module="C07UpdateModel", cfg=cfg, name=WK + "/model_" + nm, workers=2, must_succeed=False,
                                        timeout=3600) for nm, cfg, _ in runs], min(4, JVMS))
    return runs, fut


def finish_update_model(chk, handle):
    runs, fut = handle
    outcome = {}
    for (nm, cfg, expect), r in zip(runs, fut.result()):
        if r.error:
            raise tlc.TLCError("C07UpdateModel (%s): %s" % (nm, r.error[-800:]))
        chk.add_tlc(r, "S_update_model_" + nm)
        holds = not r.violated
        if expect == "holds" and not holds:
            raise tlc.TLCError("C07UpdateModel: the correct table handling (%s) does not refine the abstract machine" % nm)
        outcome[nm] = "refines the abstract machine" if holds else "Refines violated (counterexample of %d calls)" % ((r.depth or 1) - 1)
    chk.part("S_update_model", **outcome)
    return outcome


# ------------------------------------------------------------------------------------------------------------
# replay of a recorded violation
# ------------------------------------------------------------------------------------------------------------
def replay(chk, rec):
    case = rec["case"]
    by_name = {i.name: i for i in instances()}
    inst = by_name[case["inst"]]
    if inst.adapt:
        inst.pool = inst._pool_fn()
    book = JobBook()
    out = {"events": [], "steps": 0, "pairs": 0, "structural_ok": 0, "inconclusive": 0, "skipped_bad": 0, "rejected_calls": 0}
    H = dict(case["H"])
    H["steps"] = H["steps"][:case.get("step", len(H["steps"]) - 1) + 1]
    replay_history(inst, H, case["mode"], case.get("smap_kind", "mod"), random.Random(0), book, out, 0, smap_override=case.get("smap"))
    verdicts = {}
    if book.payloads:
        verdicts, _, _ = judge_all(book, WK + "/replay")
    ok = True
    print("history on %s:" % inst.name)
    for s in H["steps"]:
        print("   %-11s v=%s%s" % (s["a"], s["v"], (" op=%d" % s["o"]) if s["a"] == "AddOperator" else ""))
    for e in out["events"]:
        if e["kind"] == "job":
            v = verdicts[e["jkey"]]
            print("  step %d %s: TLC verdict %s" % (e["step"], e["jkind"], v))
            ok = ok and v in ("ok", "not-clifford", "reference-not-a-basis-state", "malformed-gate")
        else:
            print("  step %d %s: %s" % (e["step"], e["kind"], e.get("detail")))
            ok = False
    return ok


if __name__ == "__main__":
    check.main("C07", run, replay)
