#!/venv/bin/python
"""C08 - variational solver energies are faithful and variational.

S  spec/C08Lemmas.tla: the oracle is checked first (spec's own JW N/Sz/S^2 against the first-principles Fock
   operators on every determinant, ring engine == stabiliser engine, InvGates, projector identity).
V  spec/C08Trace.tla: for every configuration x grid parameter vector the gate list the solver simulates
   (reference + ansatz(theta) + projective part, assembled by the harness from the property's definition),
   the Pauli words of the operators, the deflation circuits and the symmetry operators are evaluated EXACTLY by
   TLC (ring statevector engine for any grid angle <= 5 qubits, stabiliser engine for Clifford points of any
   size).  TLC decides the premises (well-formed, normalised state = premise of the variational bound, real
   expectation values, exact claims such as N = n_electrons at theta = 0) and exports e_j; the harness contracts
   them with the float coefficients ("spec-structured contraction") and compares with what VQESolver returned:
     energy_estimation(theta) = SUM_j c_j e_j (+ coeff * SUM_i overlap_i with deflation),
     operator_expectation(N | Sz | S^2) = value of the spec's own JW operator (JW) / contraction of the encoded
     operator (other encodings), simulate(): optimal_energy = energy on the rebuilt optimal_circuit.
G  spec/C08VqeEnergy.tla: TLC enumerates every call history of the solver (energy / operator expectation /
   simulate / get_rdm) up to a depth; each is replayed on the real solver; every return value must be the exact
   value of the call's own arguments and the abstract state (current parameters, target operator restored,
   optimal parameters/energy) is compared after every call.
NUMERIC TAIL (reported separately, not decided by TLC): E >= lambda_min(H) - 1e-9 with numpy eigvalsh.
"""
import os
os.environ.setdefault("OMP_NUM_THREADS", "1")
import copy
import math
import random
import sys
import time
import warnings

sys.path.insert(0, os.path.join(os.path.dirname(os.path.abspath(__file__)), "..", "harness"))
import check  # noqa: E402
import tlc  # noqa: E402
from ring import to_complex, dyadic, ring_int  # noqa: E402
from enc import gates_to_json, OffGrid, word_to_json, qubit_op_to_json  # noqa: E402

import numpy as np  # noqa: E402

warnings.filterwarnings("ignore")
TOL = 1e-8
SYM = ("N", "Sz", "S^2")
PAR = int(os.environ.get("VERIF_PAR", "16"))
WD = "%s%s" % ("c08", os.environ.get("VERIF_WTAG", ""))       # work-dir prefix (development: parallel mutant runs)

# ------------------------------------------------------------------------------------------------------
# molecules
# ------------------------------------------------------------------------------------------------------
_H4_XYZ = [["H", [0.7071067811865476, 0.0, 0.0]], ["H", [0.0, 0.7071067811865476, 0.0]],
           ["H", [-1.0071067811865476, 0.0, 0.0]], ["H", [0.0, -1.0071067811865476, 0.0]]]
_MOLDEF = {
    "H2": dict(xyz=[("H", (0., 0., 0.)), ("H", (0., 0., 0.7414))], q=0, spin=0),
    "H2-": dict(xyz=[("H", (0., 0., 0.)), ("H", (0., 0., 0.9))], q=-1, spin=1),          # 3 electrons, ROHF, 4 qubits
    "LiH_fz": dict(xyz=[("Li", (0., 0., 0.)), ("H", (0., 0., 1.5949))], q=0, spin=0, frozen=[0, 3, 4, 5]),  # 2 active MOs
    "H4": dict(xyz=_H4_XYZ, q=0, spin=0),
    "H4+": dict(xyz=_H4_XYZ, q=1, spin=1),
    "H2_uhf": dict(xyz=[("H", (0., 0., 0.)), ("H", (0., 0., 1.2))], q=0, spin=0, uhf=True),
    "H2-_uhf": dict(xyz=[("H", (0., 0., 0.)), ("H", (0., 0., 0.9))], q=-1, spin=1, uhf=True),
    "H4+_uhf": dict(xyz=_H4_XYZ, q=1, spin=1, uhf=True),
    # higher spins (the scBK encoding depends on the spin through the parity (-1)**n_alpha of its dropped qubits)
    "H3+_t": dict(xyz=[("H", (0., 0., 0.)), ("H", (0., 0., 0.9)), ("H", (0., 0.78, 0.45))], q=1, spin=2),              # triplet ROHF, 6 spin orbitals
    "H3+_t_uhf": dict(xyz=[("H", (0., 0., 0.)), ("H", (0., 0., 0.9)), ("H", (0., 0.78, 0.45))], q=1, spin=2, uhf=True),
    "H2_t": dict(xyz=[("H", (0., 0., 0.)), ("H", (0., 0., 0.8))], q=0, spin=2),                                         # triplet, no excitation left
    "H3_q": dict(xyz=[("H", (0., 0., 0.)), ("H", (0., 0., 0.9)), ("H", (0., 0.78, 0.45))], q=0, spin=3),               # quartet
    "H4_t": dict(xyz=_H4_XYZ, q=0, spin=2),
    "H4_t_uhf": dict(xyz=_H4_XYZ, q=0, spin=2, uhf=True),
    # open-shell UHF with frozen occupied sets that are non-empty AND different per spin (alpha {0,1}, beta {0}; beta also
    # freezes virtual 3): 2 active orbitals per spin, (1, 1) active electrons, 4 qubits
    "H4-_uhf_fz": dict(xyz=_H4_XYZ, q=-1, spin=1, uhf=True, frozen=[[0, 1], [0, 3]]),
}
_mols = {}


def molecule(key):
    if key not in _mols:
        from tangelo import SecondQuantizedMolecule
        d = _MOLDEF[key]
        _mols[key] = SecondQuantizedMolecule(d["xyz"], d["q"], d["spin"], basis="sto-3g", uhf=d.get("uhf", False),
                                             frozen_orbitals=d.get("frozen", "frozen_core"))
    return _mols[key]


# ------------------------------------------------------------------------------------------------------
# configurations
# ------------------------------------------------------------------------------------------------------
def C(name, mol, ansatz, mapping, utd=False, engine="ring", M=16, **kw):
    d = dict(name=name, mol=mol, ansatz=ansatz, mapping=mapping, utd=utd, engine=engine, M=M, ref=None, proj=None,
             penalty=None, defl=None, qham=False, fresh=False, nthetas=None, sym=True, hist=False, budget=6, meas=False, backend=None, init=None)
    d.update(kw)
    return d


def configs(quick):
    return [c for c in all_configs(quick) if not (quick and c["name"] in THOROUGH_ONLY)]


def all_configs(quick):
    cf = []
    # H2: every encoding x both orderings, UCCSD (ring engine, non-Clifford grid angles)
    for mp in ("jw", "bk", "scbk", "jkmn"):
        for utd in (False, True):
            cf.append(C("H2-UCCSD-%s-%s" % (mp, "utd" if utd else "alt"), "H2", "UCCSD", mp, utd,
                        hist=(mp == "scbk" and not utd) or (mp == "jw" and not utd and not quick)))
    cf.append(C("H2-UCCSD-SCBK-upper", "H2", "UCCSD", "SCBK", True))
    cf.append(C("H2-UCCSD-JW-upper", "H2", "UCCSD", "JW", False))
    # other ansaetze
    cf.append(C("H2-HEA-jw", "H2", "HEA", "jw", False, budget=5))
    cf.append(C("H2-HEA-scbk", "H2", "HEA", "scbk", True, budget=6, hist=True))
    cf.append(C("H2-HEA-bk", "H2", "HEA", "bk", True, budget=5))
    cf.append(C("H2-QCC-jw", "H2", "QCC", "jw", False, fresh=True))
    cf.append(C("H2-QCC-scbk", "H2", "QCC", "scbk", True, fresh=True))
    cf.append(C("H2-QMF-jw", "H2", "QMF", "jw", True))
    cf.append(C("H2-QMF-bk", "H2", "QMF", "bk", False))
    cf.append(C("H2-UpCCGSD-jw", "H2", "UpCCGSD", "jw", False))
    cf.append(C("H2-UpCCGSD-jkmn", "H2", "UpCCGSD", "jkmn", True))
    cf.append(C("H2-UpCCGSD-scbk", "H2", "UpCCGSD", "scbk", False))
    cf.append(C("H2-pUCCD", "H2", "pUCCD", "HCB", False))
    cf.append(C("H2-pUCCD-utd", "H2", "pUCCD", "HCB", True))
    cf.append(C("H2-UCCGD-jw", "H2", "UCCGD", "jw", False))
    # solver options
    cf.append(C("H2-UCCSD-jw-refvec", "H2", "UCCSD", "jw", False, ref="vector"))
    cf.append(C("H2-UCCSD-bk-refvec", "H2", "UCCSD", "bk", True, ref="vector"))
    cf.append(C("H2-UpCCGSD-jw-refcirc", "H2", "UpCCGSD", "jw", False, ref="circuit"))
    cf.append(C("H2-UCCSD-jw-proj", "H2", "UCCSD", "jw", False, proj="unitary"))
    cf.append(C("H2-HEA-jw-refcirc-proj", "H2", "HEA", "jw", True, ref="circuit", proj="unitary", budget=4))
    cf.append(C("H2-UCCSD-jw-penalty", "H2", "UCCSD", "jw", False, penalty={"N": [2, 1.5], "Sz": [0, 0.75], "S^2": [0, 1.25]}))
    cf.append(C("H2-UCCSD-scbk-penalty", "H2", "UCCSD", "scbk", True, penalty={"N": [2, 0.5], "S^2": [0, 2.0]}))
    cf.append(C("H2-UpCCGSD-jw-defl", "H2", "UpCCGSD", "jw", False, ref="vector", defl="two", hist=True))
    cf.append(C("H2-UCCSD-scbk-defl", "H2", "UCCSD", "scbk", True, defl="two"))
    cf.append(C("H2-QMF-jw-refvec", "H2", "QMF", "jw", True, ref="vector"))
    cf.append(C("H2-QCC-jw-refvec", "H2", "QCC", "jw", True, ref="vector", fresh=True))
    cf.append(C("H2-circuit-qham", "H2", "circuit", "jw", False, qham=True, sym=False, hist=True))
    cf.append(C("H2-circuit-qham-defl-proj", "H2", "circuit", "jw", False, qham=True, sym=False, defl="two", proj="unitary"))
    cf.append(C("H2-HEA-qham", "H2", "HEA", "jw", False, qham=True, sym=False, budget=4))
    cf.append(C("H2-circuit-qham-measproj", "H2", "circuit", "jw", False, qham=True, sym=False, proj="measure", meas=True))
    # encoding names are case-insensitive in the library: every spelling the constructor accepts must behave alike.
    # pUCCD with all spellings of "hcb" (the solver only rewrites the name when it is NOT some spelling of hcb);
    # the other encodings with a spelling drawn from the seed (recorded in the replay case)
    cf.append(C("H2-pUCCD-hcb-lower", "H2", "pUCCD", "hcb", False))
    cf.append(C("H2-pUCCD-Hcb-mixed", "H2", "pUCCD", "Hcb", True))
    cf.append(C("H4-pUCCD-hcb-lower", "H4", "pUCCD", "hcb", False, M=16))
    srng = random.Random(1000 + int(os.environ.get("VERIF_SEED", "0") or 0))
    for mp, spellings in (("jw", ("Jw", "jW")), ("bk", ("Bk", "bK")), ("scbk", ("scBK", "Scbk", "ScBk")),
                          ("jkmn", ("Jkmn", "jkMN"))):          # (all-upper / all-lower spellings have their own configurations)
        cf.append(C("H2-UCCSD-%s-spelling" % mp, "H2", "UCCSD", srng.choice(spellings), srng.random() < 0.5, nthetas=2))
    cf.append(C("LiHfz-UpCCGSD-scbk-spelling", "LiH_fz", "UpCCGSD", srng.choice(("scBK", "Scbk", "sCBk")), False, nthetas=2))
    # user-defined Backend subclass as backend_options["target"]: generic statevector expectation route of the base class
    # (complex amplitudes: RX / RZ / XX / PHASE rotations)
    cf.append(C("H2-circuit-qham-userbackend", "H2", "circuit", "jw", False, qham=True, sym=False, backend="user"))
    cf.append(C("H2-HEA-bk-userbackend", "H2", "HEA", "bk", False, budget=5, backend="user"))
    cf.append(C("H2-UCCSD-jw-userbackend-defl", "H2", "UCCSD", "jw", False, backend="user", defl="two"))
    # warm start: simulate_options["initial_statevector"] (+ ansatz reference_state="zero")
    cf.append(C("H2-HEA-jw-initprep", "H2", "HEA", "jw", False, budget=4, init="prep", hist=False))
    cf.append(C("H2-UCCSD-scbk-inithf", "H2", "UCCSD", "scbk", True, init="hf"))
    cf.append(C("H2-UpCCGSD-bk-initprep", "H2", "UpCCGSD", "bk", False, init="prep"))
    # frozen orbitals, open shell (4 qubits)
    cf.append(C("LiHfz-UCCSD-jw", "LiH_fz", "UCCSD", "jw", False))
    cf.append(C("LiHfz-UCCSD-scbk", "LiH_fz", "UCCSD", "scbk", True))
    cf.append(C("LiHfz-UpCCGSD-bk", "LiH_fz", "UpCCGSD", "bk", False))
    cf.append(C("H2m-UCCSD-jw", "H2-", "UCCSD", "jw", False))
    cf.append(C("H2m-UCCSD-scbk", "H2-", "UCCSD", "scbk", False))
    cf.append(C("H2m-UpCCGSD-jkmn", "H2-", "UpCCGSD", "jkmn", False))
    cf.append(C("H2uhf-UCCSD-jw", "H2_uhf", "UCCSD", "jw", False))
    cf.append(C("H2uhf-UCCSD-scbk", "H2_uhf", "UCCSD", "scbk", False))
    # 8 qubits: stabiliser engine at Clifford points
    cf.append(C("H4-UCCSD-jw", "H4", "UCCSD", "jw", False, engine="cliff", M=8, nthetas=2 if quick else 4))
    cf.append(C("H4-UCCSD-scbk", "H4", "UCCSD", "scbk", True, engine="cliff", M=8, nthetas=2 if quick else 4))
    cf.append(C("H4-HEA-bk", "H4", "HEA", "bk", False, engine="cliff", M=8, nthetas=2 if quick else 4))
    cf.append(C("H4-UpCCGSD-jw-utd", "H4", "UpCCGSD", "jw", True, engine="cliff", M=8, nthetas=2 if quick else 4))
    cf.append(C("H4-pUCCD", "H4", "pUCCD", "HCB", False, M=16))
    cf.append(C("H4-pUCCD-utd-jwarg", "H4", "pUCCD", "jw", True, M=16))
    if not quick:
        cf.append(C("H4-UCCSD-bk-utd", "H4", "UCCSD", "bk", True, engine="cliff", M=8, nthetas=3))
        cf.append(C("H4-UCCSD-jkmn", "H4", "UCCSD", "jkmn", False, engine="cliff", M=8, nthetas=3))
        cf.append(C("H4p-UCCSD-jw", "H4+", "UCCSD", "jw", False, engine="cliff", M=8, nthetas=3))
        cf.append(C("H4p-UCCSD-scbk", "H4+", "UCCSD", "scbk", True, engine="cliff", M=8, nthetas=3))
        cf.append(C("H4-QCC-jw", "H4", "QCC", "jw", True, engine="cliff", M=8, nthetas=3, fresh=True))
        cf.append(C("H4-UCCSD-jw-defl", "H4", "UCCSD", "jw", False, engine="cliff", M=8, nthetas=2, defl="self"))
        cf.append(C("H2-UCCSD-jw-M32", "H2", "UCCSD", "jw", False, M=32, nthetas=3))
        cf.append(C("H2-UCCSD-bk-M32", "H2", "UCCSD", "bk", False, M=32, nthetas=3))
        cf.append(C("H2-VSQS-jw", "H2", "VSQS", "jw", False, nthetas=3))
        cf.append(C("H2-ILC-jw", "H2", "ILC", "jw", True, fresh=True, nthetas=3))
    return cf


THOROUGH_ONLY = {"H2-UCCSD-jkmn-utd", "H2-UCCSD-bk-utd", "H2-HEA-bk", "H2-QMF-bk", "H2-UpCCGSD-scbk", "H2-UCCGD-jw", "H2-HEA-qham",
                 "H2m-UpCCGSD-jkmn", "LiHfz-UpCCGSD-bk", "H4-UpCCGSD-jw-utd", "H2uhf-UCCSD-scbk", "H2-UCCSD-JW-upper", "H2-QCC-scbk"}


def by_name(name):
    for c in all_configs(False) + all_configs(True):
        if c["name"] == name:
            return c
    raise KeyError(name)


QMF_FAMILY = ("QCC", "QMF", "ILC")
REF_ANSATZ = ("UCCSD", "UpCCGSD", "UCCGD", "pUCCD", "VSQS")      # all-zero parameters = the reference determinant


def eff_mapping(cfg):
    return "HCB" if cfg["ansatz"] == "pUCCD" else cfg["mapping"]


def map_label(cfg):
    """encoding name used in violation keys (the solver forces HCB for pUCCD whatever qubit_mapping says)"""
    return "HCB" if cfg["ansatz"] == "pUCCD" else cfg["mapping"]


def eff_utd(cfg):
    if cfg["ansatz"] in ("QCC", "ILC") and cfg["mapping"].lower() == "jw":
        return True
    if cfg["ansatz"] == "pUCCD":
        # hard-core bosons: one qubit per SPATIAL orbital - the operator and the state do not depend on a spin ordering;
        # the expected Hamiltonian is the HCB image of the (alternating) fermionic Hamiltonian for either setting
        return False
    return cfg["utd"]


def ref_vector(cfg):
    """A non-Hartree-Fock occupation vector with the same electron count (alternating spin-orbital order)."""
    mol = molecule(cfg["mol"])
    n = mol.n_active_sos
    na, nb = mol.n_active_ab_electrons
    v = [0] * n
    # shift the highest occupied beta (alpha if no beta) orbital one level up
    occ_a = list(range(na))
    occ_b = list(range(nb))
    if nb and nb < n // 2:
        occ_b[-1] += 1
    elif na < n // 2:
        occ_a[-1] += 1
    for i in occ_a:
        v[2 * i] = 1
    for i in occ_b:
        v[2 * i + 1] = 1
    return v


def custom_circuit(width=4):
    """A variational circuit for VariationalCircuitAnsatz (rotation angles are the parameters)."""
    from tangelo.linq import Circuit, Gate
    gs = [Gate("X", 0), Gate("H", 1), Gate("RY", 0, parameter=0.3, is_variational=True), Gate("CNOT", 2, 1),
          Gate("RX", 2, parameter=-0.4, is_variational=True), Gate("CNOT", 3, 0), Gate("RZ", 3, parameter=1.1, is_variational=True),
          Gate("S", 1), Gate("CRY", 1, 3, parameter=0.7, is_variational=True), Gate("H", 3), Gate("PHASE", 2, parameter=0.2, is_variational=True),
          Gate("XX", [0, 2], parameter=0.5, is_variational=True)]
    return Circuit(gs, n_qubits=width)


def ref_circuit(cfg, n):
    from tangelo.linq import Circuit, Gate
    gs = [Gate("X", 0), Gate("H", n - 1), Gate("CNOT", 0, n - 1), Gate("S", n - 1)]
    if n > 2:
        gs += [Gate("X", 2), Gate("RY", 1, parameter=math.pi / 2), Gate("CNOT", 2, 1)]
    return Circuit(gs, n_qubits=n)


def proj_circuit(cfg, n):
    from tangelo.linq import Circuit, Gate
    if cfg["proj"] == "measure":
        # mid-circuit measurements on qubit n-1 and 1 with post-selection (simulate_options desired_meas_result)
        return Circuit([Gate("H", n - 1), Gate("CNOT", 0, n - 1), Gate("MEASURE", n - 1), Gate("RY", 1, parameter=math.pi / 4),
                        Gate("MEASURE", 1)], n_qubits=n)
    gs = [Gate("H", 0), Gate("CNOT", n - 1, 0), Gate("S", 0), Gate("RX", n - 1, parameter=math.pi / 2)]
    if n > 2:
        gs += [Gate("CZ", 1, 2), Gate("Y", 1)]
    return Circuit(gs, n_qubits=n)


def deflation_circuits(cfg, n):
    from tangelo.linq import Circuit, Gate
    if cfg["defl"] == "self":       # deflate with the solver's own reference determinant and a second Clifford circuit
        mol = molecule(cfg["mol"])
        from tangelo.toolboxes.qubit_mappings.statevector_mapping import get_reference_circuit
        hf = get_reference_circuit(mol.n_active_sos, mol.n_active_electrons, eff_mapping(cfg), eff_utd(cfg), mol.active_spin)
        c2 = Circuit(list(hf) + [Gate("H", 0), Gate("CNOT", 1, 0), Gate("S", 3), Gate("CNOT", n - 1, 2)], n_qubits=n)
        return [Circuit(list(hf), n_qubits=n), c2]
    c1 = Circuit([Gate("X", 0), Gate("RY", 1, parameter=math.pi / 4), Gate("CNOT", 0, 1)] +
                 ([Gate("H", 2), Gate("CNOT", 3, 2), Gate("RZ", 3, parameter=3 * math.pi / 4)] if n >= 4 else []), n_qubits=n)
    c2 = Circuit([Gate("H", 0), Gate("CNOT", n - 1, 0), Gate("T", n - 1), Gate("RX", 0, parameter=math.pi / 2)], n_qubits=n)
    return [c1, c2]


DEFL_COEFF = 0.75


def init_gates(cfg, n):
    """Gate list whose action on |0...0> is the initial statevector handed to the solver through
    simulate_options["initial_statevector"] (warm start; the ansatz then uses reference_state="zero")."""
    from tangelo.linq import Gate
    if cfg["init"] == "hf":
        from tangelo.toolboxes.qubit_mappings.statevector_mapping import get_reference_circuit
        mol = molecule(cfg["mol"])
        return list(get_reference_circuit(mol.n_active_sos, mol.n_active_electrons, eff_mapping(cfg), eff_utd(cfg), mol.active_spin))
    gs = [Gate("X", 0), Gate("H", n - 1), Gate("CNOT", 0, n - 1), Gate("S", n - 1), Gate("RY", 0, parameter=math.pi / 4)]
    if n > 2:
        gs += [Gate("X", 2), Gate("RX", 1, parameter=math.pi / 2), Gate("CNOT", 2, 1), Gate("T", 2)]
    return gs


def init_statevector(cfg, n):
    """The amplitudes of that state, in the order the backend advertises (basis state: written down directly;
    otherwise simulated with the C01-validated backend)."""
    from tangelo.linq import Circuit, get_backend
    gs = init_gates(cfg, n)
    if all(g.name == "X" for g in gs):
        idx = sum(1 << (n - 1 - int(g.target[0])) for g in gs)          # lsq_first: qubit 0 is the most significant bit
        sv = np.zeros(2 ** n, dtype=complex)
        sv[idx] = 1.
        return sv
    _, sv = get_backend().simulate(Circuit(gs, n_qubits=n), return_statevector=True)
    return np.array(sv, dtype=complex)

_user_backend = []


def user_backend_class():
    """A user-defined backend (the documented extension point backend_options["target"] = subclass of Backend): a thin
    statevector backend that only implements simulate_circuit (delegated to cirq) and has NO expectation routine of
    its own, so that the solver's energies go through the generic statevector route of the Backend base class."""
    if not _user_backend:
        from tangelo.linq.target.backend import Backend
        from tangelo.linq.target.target_cirq import CirqSimulator

        class ThinStatevectorBackend(Backend):
            def __init__(self, n_shots=None, noise_model=None):
                super().__init__(n_shots=n_shots, noise_model=noise_model)
                self._inner = CirqSimulator(n_shots=n_shots, noise_model=None)

            def simulate_circuit(self, source_circuit, return_statevector=False, initial_statevector=None,
                                 desired_meas_result=None, save_mid_circuit_meas=False):
                return self._inner.simulate_circuit(source_circuit, return_statevector=return_statevector,
                                                    initial_statevector=initial_statevector, desired_meas_result=desired_meas_result,
                                                    save_mid_circuit_meas=save_mid_circuit_meas)

            @staticmethod
            def backend_info():
                return {"statevector_available": True, "statevector_order": "lsq_first", "noisy_simulation": False}
        assert not hasattr(ThinStatevectorBackend, "expectation_value_from_prepared_state")
        _user_backend.append(ThinStatevectorBackend)
    return _user_backend[0]


class Holder:
    x = None
    other = None
    cands = None
    best = None


def n_qubits_of(cfg):
    from tangelo.toolboxes.qubit_mappings.mapping_transform import get_qubit_number
    mol = molecule(cfg["mol"])
    return get_qubit_number(eff_mapping(cfg), mol.n_active_sos)


def given_qham(cfg):
    """Qubit Hamiltonian handed to the solver in qubit-Hamiltonian mode (JW H2 Hamiltonian, 4 qubits)."""
    from tangelo.toolboxes.qubit_mappings.mapping_transform import fermion_to_qubit_mapping
    mol = molecule(cfg["mol"])
    return fermion_to_qubit_mapping(mol.fermionic_hamiltonian, "jw", mol.n_active_sos, mol.n_active_electrons, cfg["utd"], mol.active_spin)


def make_solver(cfg, holder=None, initial=None):
    from tangelo.algorithms.variational import VQESolver, BuiltInAnsatze
    mol = molecule(cfg["mol"])
    n = 4 if cfg["qham"] else n_qubits_of(cfg)
    opts = {"qubit_mapping": cfg["mapping"], "up_then_down": cfg["utd"]}
    if cfg["qham"]:
        opts["qubit_hamiltonian"] = given_qham(cfg)
    else:
        opts["molecule"] = mol
    opts["ansatz"] = custom_circuit(n) if cfg["ansatz"] == "circuit" else BuiltInAnsatze[cfg["ansatz"]]
    if cfg["ansatz"] == "HEA" and cfg["qham"]:
        opts["ansatz_options"] = {"n_qubits": n, "n_layers": 1, "reference_state": "zero"}
    if cfg["ref"] == "vector":
        opts["ref_state"] = ref_vector(cfg)
    elif cfg["ref"] == "circuit":
        opts["ref_state"] = ref_circuit(cfg, n)
    if cfg["proj"]:
        opts["projective_circuit"] = proj_circuit(cfg, n)
        if cfg["proj"] == "measure":
            opts["simulate_options"] = {"desired_meas_result": MEAS_RESULT}
    if cfg["penalty"]:
        opts["penalty_terms"] = copy.deepcopy(cfg["penalty"])
    if cfg["defl"]:
        opts["deflation_circuits"] = deflation_circuits(cfg, n)
        opts["deflation_coeff"] = DEFL_COEFF
    if cfg.get("init"):
        opts.setdefault("simulate_options", {})["initial_statevector"] = init_statevector(cfg, n)
        if cfg["ansatz"] != "circuit":
            opts.setdefault("ansatz_options", {})["reference_state"] = "zero"
    if cfg.get("backend") == "user":
        opts["backend_options"] = {"target": user_backend_class()}
    if holder is not None:
        def grid_optimizer(f, x0):
            """candidate-list optimiser: evaluates the energy on a list of vectors and returns the best one; the LAST
            evaluation is never the returned optimum (simulate() has to rebuild the circuit before it snapshots it)"""
            cands = getattr(holder, "cands", None)
            if cands:
                es = [f(np.array(c)) for c in cands]
                b = int(np.argmin(es))
                if b == len(cands) - 1:
                    f(np.array(cands[0]))
                holder.best = b
                return es[b], np.array(cands[b])
            E = f(holder.x)
            if getattr(holder, "other", None) is not None:
                f(np.array(holder.other))
            return E, holder.x
        opts["optimizer"] = grid_optimizer
    if initial is not None:
        opts["initial_var_params"] = list(initial)
    v = VQESolver(opts)
    v.build()
    v._c08_H0 = v.qubit_hamiltonian          # harness bookkeeping: the operator the solver was built with
    return v


MEAS_RESULT = "10"          # outcome of the measurements of proj_circuit("measure"), in circuit order


# ------------------------------------------------------------------------------------------------------
# property-level definitions assembled by the harness (from C03/C04/C05/C12-validated parts)
# ------------------------------------------------------------------------------------------------------
def expected_hamiltonian(cfg):
    """The Hamiltonian the solver was given: the molecule's active-space fermionic Hamiltonian (+ penalties) under
    the requested encoding with the ACTIVE-space electron/spin data, or the qubit operator itself."""
    from tangelo.toolboxes.qubit_mappings.mapping_transform import fermion_to_qubit_mapping
    if cfg["qham"]:
        return given_qham(cfg)
    mol = molecule(cfg["mol"])
    kw = dict(mapping=eff_mapping(cfg), n_spinorbitals=mol.n_active_sos, n_electrons=mol.n_active_electrons,
              up_then_down=eff_utd(cfg), spin=mol.active_spin)
    H = fermion_to_qubit_mapping(fermion_operator=mol.fermionic_hamiltonian, **kw)
    if cfg["penalty"]:
        from tangelo.toolboxes.ansatz_generator.penalty_terms import combined_penalty
        H = H + fermion_to_qubit_mapping(fermion_operator=combined_penalty(mol.n_active_mos, copy.deepcopy(cfg["penalty"])), **kw)
    return H


def expected_symop(cfg, which):
    """Encoded N / Sz / S^2 of the active space under the solver's encoding (C03 encoding of the C12 operator)."""
    from tangelo.toolboxes.qubit_mappings.mapping_transform import fermion_to_qubit_mapping
    from tangelo.toolboxes.ansatz_generator import fermionic_operators as fo
    mol = molecule(cfg["mol"])
    f = {"N": fo.number_operator, "Sz": fo.spinz_operator, "S^2": fo.spin2_operator}[which](mol.n_active_sos // 2, up_then_down=False)
    return fermion_to_qubit_mapping(fermion_operator=f, mapping=eff_mapping(cfg), n_spinorbitals=mol.n_active_sos,
                                    n_electrons=mol.n_active_electrons, up_then_down=eff_utd(cfg), spin=mol.active_spin)


def expected_reference(cfg, n):
    """Reference-state circuit of a ref_state override (C05-validated helpers), or None."""
    from tangelo.toolboxes.qubit_mappings.statevector_mapping import get_mapped_vector, vector_to_circuit
    if cfg["ref"] is None or cfg["ansatz"] in QMF_FAMILY:
        return None
    if cfg["ref"] == "circuit":
        return ref_circuit(cfg, n)
    return vector_to_circuit(get_mapped_vector(ref_vector(cfg), eff_mapping(cfg), eff_utd(cfg)))


def simulated_gates(cfg, v, n):
    """Gate list of `the state its circuit prepares`: reference (if overridden) + ansatz(theta) + projective part.
    MEASURE gates of a projective circuit are returned separately as post-selection pairs."""
    gs = []
    if cfg.get("init"):
        gs += init_gates(cfg, n)              # the state the solver starts from (simulate_options["initial_statevector"])
    ref = expected_reference(cfg, n)
    if ref is not None:
        gs += list(ref)
    gs += list(v.ansatz.circuit)
    sel = []
    if cfg["proj"]:
        k = 0
        for g in proj_circuit(cfg, n):
            if g.name == "MEASURE":
                sel.append([int(g.target[0]), int(MEAS_RESULT[k])])
                k += 1
            else:
                if sel and cfg["proj"] == "measure":
                    # gates after a measurement: only allowed when they commute with the projectors (different qubits)
                    if set(g.target) & {q for q, _ in sel} or set(g.control or []) & {q for q, _ in sel}:
                        raise OffGrid("gate after measurement on the measured qubit")
                gs.append(g)
    return gs, sel


# ------------------------------------------------------------------------------------------------------
# grid parameter vectors
# ------------------------------------------------------------------------------------------------------
def is_clifford_json(g, M):
    q = M // 4
    name = g["name"]
    base = {"CNOT": "X", "CX": "X", "CY": "Y", "CZ": "Z", "CRX": "RX", "CRY": "RY", "CRZ": "RZ", "CPHASE": "PHASE"}.get(name, name)
    if not g["c"]:
        if base in ("H", "X", "Y", "Z", "S", "SDAG", "SWAP"):
            return True
        return base in ("RX", "RY", "RZ", "PHASE", "XX") and g["k"] % q == 0
    if len(g["c"]) != 1:
        return False
    return base in ("X", "Y", "Z") or (base in ("RX", "RY", "RZ", "PHASE") and g["k"] % (2 * q) == 0)


def circuit_class(gates, M):
    """'cliff' | 'ring' | None (off the grid)."""
    try:
        gj = gates_to_json(gates, M)
    except OffGrid:
        return None
    return "cliff" if all(is_clifford_json(g, M) for g in gj) else "ring"


STEP_CANDIDATES = [math.pi / 8, math.pi / 4, math.pi / 2, math.pi, 2 * math.pi, 4 * math.pi]


def param_steps(cfg, v, npar):
    """Per parameter: smallest steps s_ring, s_cliff such that the ansatz circuit at s * e_p is on the M-grid /
    is Clifford.  Probed on the implementation (inputs only; TLC re-checks the carrier)."""
    M = cfg["M"]
    base = np.zeros(npar)
    out = []
    for p in range(npar):
        sr = sc = None
        for s in STEP_CANDIDATES:
            th = base.copy()
            th[p] = s
            try:
                v.ansatz.update_var_params(th)
                cls = circuit_class(list(v.ansatz.circuit), M)
            except Exception:
                cls = None
            if cls and sr is None:
                sr = s
            if cls == "cliff":
                sc = s
                break
        out.append((sr, sc))
    return out


def theta_vectors(cfg, steps, rng, count):
    """zeros + `count` grid vectors.  Ring engine: at most cfg['budget'] parameters sit on non-Clifford grid points
    (keeps the exact integers small), the others on Clifford points; stabiliser engine: Clifford points only."""
    npar = len(steps)
    vecs = [np.zeros(npar)]
    for c in range(count):
        th = np.zeros(npar)
        nonc = set()
        if cfg["engine"] == "ring":
            cand = [p for p in range(npar) if steps[p][0] is not None and steps[p][0] != steps[p][1]]
            rng.shuffle(cand)
            nonc = set(cand[:cfg["budget"]])
        for p in range(npar):
            sr, sc = steps[p]
            if p in nonc:
                ratio = int(round(sc / sr)) if sc else 4
                m = rng.choice([x for x in range(1, 4 * ratio) if x % ratio] or [1])
                th[p] = sr * m
            elif sc is not None:
                th[p] = sc * rng.randrange(0, 4)
            elif sr is not None and cfg["engine"] == "ring" and len(nonc) < cfg["budget"] + 2:
                th[p] = sr * rng.randrange(0, 8)
                nonc.add(p)
        vecs.append(th)
    return vecs


# ------------------------------------------------------------------------------------------------------
# one (configuration, theta) sample: drive the code, build the TLC job
# ------------------------------------------------------------------------------------------------------
def words_of(op, n):
    return [(t, c) for t, c in op.terms.items()]


def ring_dyadic(num, k, M):
    c = [0] * (M // 2)
    c[0] = num
    while k > 0 and c[0] % 2 == 0:
        c[0] //= 2
        k -= 1
    if c[0] == 0:
        k = 0
    return {"c": c, "k": k}


def exact_claims(cfg, theta):
    """Exact values of N, Sz, S^2 that the property implies for this sample, or {}: at theta = 0 the state of a
    reference-type ansatz is the reference determinant."""
    if cfg["ansatz"] not in REF_ANSATZ or np.any(np.abs(theta) > 0) or cfg["proj"] or cfg["qham"] or cfg.get("init") == "prep":
        return {}
    mol = molecule(cfg["mol"])
    if cfg["ref"] == "circuit":
        return {}
    if cfg["ref"] == "vector":
        vec = ref_vector(cfg)
        na, nb = sum(vec[0::2]), sum(vec[1::2])
        return {"N": (na + nb, 0), "Sz": (na - nb, 1)}
    na, nb = mol.n_active_ab_electrons
    s2 = (na - nb) * (na - nb + 2)          # s(s+1) = (d/2)(d/2+1) = d(d+2)/4
    return {"N": (na + nb, 0), "Sz": (na - nb, 1), "S^2": (s2, 2)}


class Sample:
    pass


def drive(chk, cfg, v, theta, Hexp, symops, n):
    """Call the solver at theta; return a Sample with the code's values and the TLC job (or None)."""
    s = Sample()
    s.cfg, s.theta = cfg, [float(x) for x in theta]
    s.case = {"cfg": cfg["name"], "theta": s.theta, "mapping": cfg["mapping"], "utd": cfg["utd"]}
    s.E = s.job = None
    s.sym = {}
    s.symdefault = {}
    s.narrow = False
    M = cfg["M"]
    # the FIRST call at this theta is a symmetry expectation: the solver still holds the parameters of the previous
    # sample, so an operator_expectation that forgets to load var_params is visible in the value
    s.first_s2 = None
    if cfg["sym"] and not cfg["meas"] and eff_mapping(cfg) != "HCB":
        try:
            ref0 = expected_reference(cfg, n)
            s.first_s2 = float(np.real(v.operator_expectation("S^2", np.array(theta), **({"ref_state": ref0} if ref0 is not None else {}))))
        except Exception:
            s.first_s2 = None         # reported by the regular call below
            Hs = getattr(v, "_c08_H0", None)
            if Hs is not None:
                v.qubit_hamiltonian = Hs
    try:
        s.E = float(np.real(v.energy_estimation(np.array(theta))))
    except Exception as e:
        if cfg.get("init") and not np.any(np.array(theta)) and isinstance(e, ValueError):
            chk.violation("energy_estimation:exception-empty-ansatz-circuit-with-initial-statevector:%s" % cfg["ansatz"],
                          "%s theta=zeros: energy_estimation raised %s: %s" % (cfg["name"], type(e).__name__, e), s.case)
            return s
        chk.violation("energy_estimation:exception:%s:%s:%s:%s:%s" % (
            type(e).__name__, "utd" if eff_utd(cfg) else "alt", "theta0" if not np.any(np.array(theta)) else "generic", cfg["ansatz"],
            cfg["mapping"]), "%s theta=%s: energy_estimation raised %s: %s" % (cfg["name"], s.theta, type(e).__name__, e), s.case)
        return s
    s.narrow = v.ansatz.circuit.width < n
    try:
        gs, sel = simulated_gates(cfg, v, n)
        gj = gates_to_json(gs, M)
        defl = [gates_to_json(list(c), M) for c in deflation_circuits(cfg, n)] if cfg["defl"] else []
    except OffGrid:
        chk.inconclusive += 1
        return s
    engine = cfg["engine"]
    if engine == "cliff" and not all(is_clifford_json(g, M) for g in gj + [g for d in defl for g in d]):
        chk.inconclusive += 1
        return s
    s.hterms = words_of(Hexp, n)
    words = [word_to_json(t, n) for t, _ in s.hterms]
    # symmetry operators requested from the solver
    kw = {}
    ref = expected_reference(cfg, n)
    if ref is not None:
        kw["ref_state"] = ref
    s.symterms = {}
    ops, syms = [], []
    s.opidx, s.symidx = {}, {}
    claims = exact_claims(cfg, np.array(theta))
    H0 = getattr(v, "_c08_H0", v.qubit_hamiltonian)
    uhf = "uhf:" if molecule(cfg["mol"]).uhf else ""

    def swapped_back(what):
        """a call that raised must leave the solver as it found it (the temporary operator swap undone)"""
        if v.qubit_hamiltonian is not H0 and dict(v.qubit_hamiltonian.terms) != dict(H0.terms):
            chk.violation("operator_expectation:exception-leaves-swapped-operator",
                          "%s: %s raised and left the solver targeting the symmetry operator instead of its Hamiltonian "
                          "(later energies are those of the wrong operator)" % (cfg["name"], what), dict(s.case, op=what))
            v.qubit_hamiltonian = H0          # repair, so that the remaining samples of this configuration stay meaningful
    if cfg["sym"] and not cfg["meas"]:
        for w in SYM:
            try:
                s.sym[w] = float(np.real(v.operator_expectation(w, np.array(theta), **kw)))
            except Exception as e:
                s.sym[w] = None
                chk.violation("operator_expectation:exception:%s%s:%s:%s" % (uhf, cfg["mapping"], "utd" if eff_utd(cfg) else "alt", type(e).__name__),
                              "operator_expectation(%r) raised %s: %s" % (w, type(e).__name__, e), dict(s.case, op=w))
                swapped_back("operator_expectation(%r)" % w)
            if ref is not None and s.sym[w] is not None:
                # the solver was built with a ref_state override: asking it without repeating the reference must
                # still describe `that same state` (the one energy_estimation uses)
                try:
                    s.symdefault[w] = float(np.real(v.operator_expectation(w, np.array(theta))))
                except Exception:
                    s.symdefault[w] = None
                    swapped_back("operator_expectation(%r) without ref_state argument" % w)
            cl = claims.get(w)
            if eff_mapping(cfg) == "HCB":
                # hard-core bosons: the spec's own operators (N = sum (1 - Z_p), Sz = S^2 = 0 on the paired space)
                s.symterms[w] = None
                s.symidx[w] = len(syms)
                syms.append({"which": "hcb" + w, "utd": False, "hasclaim": cl is not None,
                             "claim": ring_dyadic(cl[0], cl[1], M) if cl else ring_int(0, M)})
                continue
            op = symops[w]
            s.symterms[w] = (len(words), words_of(op, n))
            words += [word_to_json(t, n) for t, _ in s.symterms[w][1]]
            if eff_mapping(cfg).lower() == "jw" and (engine == "cliff" or n <= 4):
                s.symidx[w] = len(syms)
                syms.append({"which": w, "utd": bool(eff_utd(cfg)), "hasclaim": cl is not None,
                             "claim": ring_dyadic(cl[0], cl[1], M) if cl else ring_int(0, M)})
            elif cl is not None:
                try:
                    s.opidx[w] = len(ops)
                    ops.append({"terms": qubit_op_to_json(op, n, M) or [{"w": [0] * n, "c": ring_int(0, M)}],
                                "hasclaim": True, "claim": ring_dyadic(cl[0], cl[1], M)})
                except OffGrid:
                    s.opidx.pop(w, None)
    # the temporary operator swap must be restored: the same call returns the same energy afterwards
    if cfg["sym"] and not cfg["meas"]:
        try:
            E2 = float(np.real(v.energy_estimation(np.array(theta))))
            if abs(E2 - s.E) > 1e-10:
                chk.violation("operator-swap-not-restored:%s" % cfg["mapping"],
                              "%s: energy %.10f before and %.10f after operator_expectation" % (cfg["name"], s.E, E2), s.case)
                v.qubit_hamiltonian = H0
        except Exception as e:
            chk.violation("energy_estimation:exception-after-opexp:%s:%s" % (cfg["ansatz"], type(e).__name__), str(e), s.case)
    s.job = {"n": n, "engine": engine, "gates": gj, "sel": sel, "words": words, "ops": ops, "syms": syms, "defl": defl}
    s.n = n
    return s


def contract(terms, evals, off, M):
    z = 0j
    for x, (t, c) in enumerate(terms):
        z += c * to_complex(evals[off + x], M)
    return z


def judge_sample(chk, s, verdict, rec, lam_min=None):
    """Compare what the solver returned with the exact values. Returns True when everything matched."""
    cfg = s.cfg
    M = cfg["M"]
    tag = "%s" % cfg["name"]
    ok = True
    if verdict != "ok":
        if verdict in ("op-claim-failed", "sym-claim-failed"):
            chk.violation("theta0-claim:%s:%s" % (cfg["mapping"], cfg["ansatz"]),
                          "%s: exact N/Sz/S^2 of the reference determinant not reproduced (%s)" % (tag, verdict), s.case)
            ok = False
        elif verdict in ("not-normalised", "complex-expectation"):
            raise tlc.TLCError("spec-level failure on %s: %s" % (tag, verdict))
        else:
            chk.inconclusive += 1
            return True
    if rec is None:
        return ok
    nrm = to_complex(rec["nrm"], M).real
    if nrm <= 1e-12:
        chk.inconclusive += 1
        return ok
    Eplain = contract(s.hterms, rec["e"], 0, M) / nrm
    s.Eplain = float(Eplain.real)
    s.hexp = [(to_complex(rec["e"][x], M) / nrm).real for x in range(len(s.hterms))]      # exact <P_j> of the Hamiltonian's words
    s.ovsum = float(sum(to_complex(o, M).real for o in rec["ov"]))
    Eexp = Eplain + DEFL_COEFF * sum(to_complex(o, M) for o in rec["ov"])
    s.Eexp = float(Eexp.real)
    if abs(Eexp.imag) > TOL or abs(s.E - Eexp.real) > TOL:
        sub = ("deflation-narrow-ansatz-circuit" if s.narrow else "deflation") if cfg["defl"] else (
            "penalty" if cfg["penalty"] else ("frozen" if "fz" in cfg["mol"] else "plain"))
        if cfg["ansatz"] == "pUCCD" and cfg["utd"]:
            sub = "hcb-up_then_down"
        what = "energy_estimation"
        if s.case.get("optimal_circuit"):
            what, sub = "simulate", ("hcb-up_then_down:" if (cfg["ansatz"] == "pUCCD" and cfg["utd"]) else "") + \
                "optimal_circuit-does-not-prepare-the-state-of-optimal_energy"
        chk.violation("%s:%s:%s:%s" % (what, sub, cfg["ansatz"], map_label(cfg)),
                      "%s theta=%s: energy_estimation=%.10f but <psi|H|psi>%s=%.10f (|diff|=%.2e)" % (
                          tag, np.round(s.theta, 4).tolist(), s.E, " + deflation" if cfg["defl"] else "", Eexp.real, abs(s.E - Eexp.real)),
                      s.case)
        ok = False
    if (cfg["ansatz"] in REF_ANSATZ and not np.any(np.array(s.theta)) and not (cfg["ref"] or cfg["proj"] or cfg["penalty"] or cfg["qham"] or cfg.get("init") == "prep")
            and not s.case.get("optimal_circuit")):
        mf = float(molecule(cfg["mol"]).mf_energy)
        if abs(Eplain.real - mf) > 1e-6:
            # the harness-assembled operator itself is off: not a verdict on the solver
            raise tlc.TLCError("oracle self-check failed on %s: <HF|H_expected|HF> = %.10f but the mean-field energy is %.10f" % (
                tag, Eplain.real, mf))
    if lam_min is not None and not cfg["defl"] and s.E < lam_min - 1e-9:
        chk.violation("variational-bound:%s" % cfg["name"], "E=%.10f < lambda_min=%.10f" % (s.E, lam_min), s.case)
        ok = False
    s.symexact = {}
    for w, val in s.sym.items():
        if w not in s.symterms:
            continue
        cands = []
        if s.symterms[w] is not None:
            off, terms = s.symterms[w]
            cands.append(("encoded-operator contraction", (contract(terms, rec["e"], off, M) / nrm).real))
        if w in s.symidx:
            cands.append(("spec %s operator" % ("HCB" if eff_mapping(cfg) == "HCB" else "JW"), to_complex(rec["syms"][s.symidx[w]], M).real / nrm))
        if w in s.opidx:
            cands.append(("exact encoded operator", to_complex(rec["ops"][s.opidx[w]], M).real / nrm))
        s.symexact[w] = cands[-1][1]
        if val is None:
            continue
        if w == "S^2" and getattr(s, "first_s2", None) is not None and abs(s.first_s2 - cands[-1][1]) > TOL:
            chk.violation("operator_expectation:stale-parameters:%s" % cfg["mapping"],
                          "%s theta=%s: operator_expectation('S^2', theta) as first call at this theta = %.10f, exact %.10f" % (
                              tag, np.round(s.theta, 4).tolist(), s.first_s2, cands[-1][1]), dict(s.case, op=w))
            ok = False
        dv = s.symdefault.get(w)
        if dv is not None and abs(dv - cands[-1][1]) > TOL:
            chk.violation("operator_expectation:default-ref_state-ignores-override:%s" % w,
                          "%s theta=%s: operator_expectation(%r) without ref_state argument = %.10f, but the solver's state "
                          "(reference override + ansatz) has %.10f" % (tag, np.round(s.theta, 4).tolist(), w, dv, cands[-1][1]), dict(s.case, op=w))
            ok = False
        for how, ex in cands:
            if abs(val - ex) > TOL:
                chk.violation("operator_expectation:%s:%s:%s" % (w, map_label(cfg), "refstate" if cfg["ref"] else "value"),
                              "%s theta=%s: operator_expectation(%r)=%.10f, exact (%s)=%.10f" % (
                                  tag, np.round(s.theta, 4).tolist(), w, val, how, ex), dict(s.case, op=w))
                ok = False
                break
    return ok


# ------------------------------------------------------------------------------------------------------
# V-part driver
# ------------------------------------------------------------------------------------------------------
def lambda_min(H, n):
    from openfermion.linalg import get_sparse_operator
    from tangelo.toolboxes.operators import QubitOperator
    q = QubitOperator()
    q.terms = dict(H.terms)
    mat = get_sparse_operator(q.to_openfermion() if hasattr(q, "to_openfermion") else q, n_qubits=n).toarray()
    return float(np.linalg.eigvalsh(mat)[0])


def prepare_config(chk, cfg, rng):
    """Build the solver, the expected operators and the grid vectors of one configuration."""
    st = Sample()
    st.cfg = cfg
    st.v = make_solver(cfg)
    st.n = 4 if cfg["qham"] else n_qubits_of(cfg)
    st.H = expected_hamiltonian(cfg)
    st.symops = {w: expected_symop(cfg, w) for w in SYM} if (cfg["sym"] and eff_mapping(cfg) != "HCB") else {}
    st.npar = len(st.v.initial_var_params)
    pv = make_solver(cfg) if cfg["fresh"] else st.v
    st.steps = param_steps(cfg, pv, st.npar)
    count = cfg["nthetas"] or (2 if chk.quick else 6)
    st.thetas = theta_vectors(cfg, st.steps, rng, count)
    try:
        st.lam = lambda_min(st.H, st.n) if st.n <= 8 else None
    except Exception:
        st.lam = None
    return st


def build_controls(samples):
    """Negative controls: corrupt one recorded field per kind (several candidates per kind). They travel in the same
    TLC round as the real records; evaluated by eval_controls once the base samples are judged."""
    ctl = []

    def count(kind):
        return sum(1 for c in ctl if c[1] == kind)
    for s in samples:
        if s.job is None or len(ctl) >= 14:
            continue
        gj = s.job["gates"]
        rot = [x for x, g in enumerate(gj) if g["name"] in ("RZ", "RX", "RY", "CRY") and g["k"] % (s.cfg["M"] // 2)]
        if rot and s.cfg["engine"] == "ring" and count("angle") < 4:
            j = copy.deepcopy(s.job)
            j["gates"][rot[0]]["k"] += 2
            ctl.append((s, "angle", j))
        xs = [x for x, g in enumerate(gj) if g["name"] == "X"]
        if xs and s.cfg["engine"] == "cliff" and count("dropped-X") < 1:
            j = copy.deepcopy(s.job)
            del j["gates"][xs[0]]
            ctl.append((s, "dropped-X", j))
        if s.cfg["engine"] == "cliff" and count("non-clifford") < 1:
            j = copy.deepcopy(s.job)
            j["gates"].append({"name": "PHASE", "t": [0], "c": [], "k": 1})
            j["words"], j["syms"], j["ops"] = j["words"][:1], [], []          # rejected by the premise: keep it cheap
            ctl.append((s, "non-clifford", j))
        if any(sy["hasclaim"] and sy["which"] == "N" for sy in s.job["syms"]) and count("claim") < 1 and s.cfg["engine"] == "ring":
            j = copy.deepcopy(s.job)
            for sy in j["syms"]:
                if sy["hasclaim"] and sy["which"] == "N":
                    sy["claim"] = ring_int(1 + to_complex(sy["claim"], s.cfg["M"]).real, s.cfg["M"])
            ctl.append((s, "claim", j))
        if s.job["defl"] and count("defl") < 3 and s.cfg["engine"] == "ring":
            j = copy.deepcopy(s.job)
            j["defl"][0] = copy.deepcopy(j["gates"])          # deflating with the state itself: overlap becomes 1
            ctl.append((s, "defl", j))
    for x, (s, what, j) in enumerate(ctl):
        j["id"] = 10 ** 6 + x
    return ctl


def eval_controls(chk, ctl, verd, recs):
    detail, used = {}, 0
    for s, what, j in ctl:
        # only controls whose base record was judged and matched are meaningful
        if getattr(s, "Eexp", None) is None or abs(s.Eexp - s.E) > TOL:
            continue
        if what == "defl" and getattr(s, "ovsum", 1.0) > 0.9:
            continue
        M = s.cfg["M"]
        used += 1
        if verd[j["id"]] != "ok":
            rej = True
        else:
            rec = recs[j["id"]]
            E = (contract(s.hterms, rec["e"], 0, M) / to_complex(rec["nrm"], M)).real + DEFL_COEFF * sum(to_complex(o, M).real for o in rec["ov"])
            rej = abs(E - s.E) > 1e-6
        detail[what] = detail.get(what, 0) + (1 if rej else 0)
    chk.part("negative_controls", corrupted=used, rejected=sum(detail.values()), kinds=detail)
    if not all(detail.values()):      # one hit per kind (a rotation the energy is insensitive to proves nothing)
        for key, det, _ in chk.violations[:20]:
            print("  (violation recorded before the machinery failure) %s: %s" % (key, str(det)[:300]))
        raise tlc.TLCError("binding failure: corrupted records accepted (%s)" % detail)


def run_samples(chk, samples, name, lam=None, controls=False):
    """Send the samples' jobs (and the negative controls derived from them) to TLC and judge them."""
    import concurrent.futures as cf
    jobs, byid = {}, {}
    for s in samples:
        if s.job is None:
            continue
        M = s.cfg["M"]
        jid = len(byid) + 1
        s.job["id"] = jid
        jobs.setdefault(M, []).append(s.job)
        byid[jid] = s
    ctl = build_controls(samples) if controls else []
    for s, what, j in ctl:
        jobs.setdefault(s.cfg["M"], []).append(j)
    verdicts, recs = {}, {}

    def one(M, js):
        # heavy jobs first so that the chunks are balanced: one job per chunk for big circuits
        js.sort(key=lambda j: -len(j["gates"]) * (len(j["words"]) + 8))
        chunks = max(1, min(len(js), PAR))
        order = [[] for _ in range(chunks)]
        for x, j in enumerate(js):
            order[x % chunks].append(j)
        flat = [j for ch in order for j in ch]
        return tlc.judge("C08Trace", flat, WD + "/%s_M%d" % (name, M), {"M": M}, max_parallel=PAR, timeout=7200,
                         chunk=max(1, (len(flat) + chunks - 1) // chunks))
    with cf.ThreadPoolExecutor(max_workers=max(1, len(jobs))) as ex:          # the grids (M) are independent TLC batches
        futs = [ex.submit(one, M, js) for M, js in sorted(jobs.items())]
        for f in futs:
            vd, results = f.result()
            verdicts.update(vd)
            for r in results:
                chk.add_tlc(r)
                for rec in r.prints("R"):
                    recs[rec["id"]] = rec
    res = {}
    for jid, s in byid.items():
        res[s] = judge_sample(chk, s, verdicts[jid], recs.get(jid), lam(s) if lam else None)
        chk.add_traces(1, "V_" + s.cfg["engine"])
    if ctl:
        eval_controls(chk, ctl, verdicts, recs)
    return res


def check_simulate(chk, cfg, st, table):
    """simulate() once with a trivial optimiser: optimal_energy = E(optimal_var_params) on the rebuilt optimal_circuit.
    Phase 1 (before TLC): drive the solver, snapshot the rebuilt optimal_circuit as one more TLC job.
    `table` maps theta index -> exact energy, or -> True when the exact value is not known yet (then the scalar
    comparisons are deferred: the returned sample carries `finish(table)`)."""
    tsel = [t for t in range(1, len(st.thetas)) if table.get(t) is not None]
    if not tsel or cfg["meas"]:
        return None
    h = Holder()
    h.cands = [np.array(st.thetas[t_]) for t_ in tsel] if len(tsel) > 1 else None
    h.x = np.array(st.thetas[tsel[0]])
    h.other = 3 * h.x if len(tsel) == 1 else None
    case = {"cfg": cfg["name"], "theta": [float(x) for x in h.x], "simulate": True, "mapping": cfg["mapping"]}
    try:
        # initial parameters differ from the optimiser's result (a stale circuit is visible) and are not all zero
        # (reference-type ansaetze have no variational gate at zero and simulate() refuses to start)
        init = np.array(st.thetas[tsel[-1]]) if len(tsel) > 1 else 3 * h.x
        if not np.any(init):
            init = h.x
        v2 = make_solver(cfg, h, initial=init)
        Eopt = float(np.real(v2.simulate()))
        t = tsel[h.best] if h.cands else tsel[0]
        h.x = np.array(st.thetas[t])
        case["theta"] = [float(x) for x in h.x]
        # directly after simulate(): the ansatz carries the optimal parameters
        loaded_ok = np.allclose(np.array(v2.ansatz.var_params, dtype=float), np.array(v2.optimal_var_params, dtype=float), atol=1e-12)
        opt_gates = [g for g in v2.optimal_circuit if g.name != "MEASURE"]      # snapshot before any further call
        opt_json = None
        try:
            opt_json = gates_to_json(opt_gates, cfg["M"])
        except OffGrid:
            pass
    except Exception as e:
        chk.violation("simulate:exception:%s:%s" % (cfg["ansatz"], type(e).__name__), "%s: %s" % (type(e).__name__, e), case)
        return None
    Eopt_attr = float(np.real(v2.optimal_energy))
    params_ok = np.allclose(np.array(v2.optimal_var_params, dtype=float), h.x, atol=1e-12)
    try:
        E2 = float(np.real(v2.energy_estimation(v2.optimal_var_params)))
    except Exception as e:
        E2 = "raised %s" % type(e).__name__

    def finish(tab):
        Eexp = tab.get(t)
        if Eexp is None or Eexp is True:
            return
        bad = []
        if abs(Eopt - Eexp) > TOL or abs(Eopt_attr - Eexp) > TOL:
            bad.append("optimal_energy=%.10f, exact E(theta_opt)=%.10f" % (Eopt, Eexp))
        if not params_ok:
            bad.append("optimal_var_params differ from the optimiser's result")
        if not loaded_ok:
            bad.append("ansatz.var_params are not optimal_var_params right after simulate()")
        if isinstance(E2, str):
            bad.append("energy_estimation(optimal_var_params) " + E2)
        elif abs(E2 - Eexp) > TOL:
            bad.append("energy_estimation(optimal_var_params)=%.10f" % E2)
        if bad:
            chk.violation("simulate:%s%s:%s" % ("hcb-up_then_down:" if (cfg["ansatz"] == "pUCCD" and cfg["utd"]) else "", cfg["ansatz"], map_label(cfg)),
                          "; ".join(bad), case)
    # the rebuilt optimal_circuit is judged by TLC like any other recorded circuit
    s = Sample()
    s.finish = finish
    s.cfg, s.theta, s.case = cfg, case["theta"], dict(case, optimal_circuit=True)
    s.sym, s.symterms, s.symidx, s.opidx = {}, {}, {}, {}
    s.symdefault = {}
    s.narrow = False
    s.E = float(np.real(v2.optimal_energy))
    s.job = None
    try:
        if opt_json is None:
            raise OffGrid("optimal circuit off the grid")
        gj = (gates_to_json(init_gates(cfg, st.n), cfg["M"]) if cfg.get("init") else []) + opt_json
        defl = [gates_to_json(list(c), cfg["M"]) for c in deflation_circuits(cfg, st.n)] if cfg["defl"] else []
        s.hterms = words_of(st.H, st.n)
        s.job = {"n": st.n, "engine": cfg["engine"], "gates": gj, "sel": [], "words": [word_to_json(t_, st.n) for t_, _ in s.hterms],
                 "ops": [], "syms": [], "defl": defl}
    except OffGrid:
        chk.inconclusive += 1
    if not any(v is True for v in table.values()):
        finish(table)
    return s


_TIMES = {}


def v_part(chk, cfgs, rng, name="v"):
    states, samples = [], []
    t0 = time.time()
    for cfg in cfgs:
        try:
            st = prepare_config(chk, cfg, rng)
        except Exception as e:
            chk.violation("build:exception:%s:%s:%s:%s" % (cfg["ansatz"], "ref_state-" + str(cfg["ref"]), cfg["mapping"], type(e).__name__),
                          "%s: building the solver raised %s: %s" % (cfg["name"], type(e).__name__, e), {"cfg": cfg["name"], "theta": None})
            continue
        st.samples = []
        for th in st.thetas:
            v = make_solver(cfg) if cfg["fresh"] else st.v
            s = drive(chk, cfg, v, th, st.H, st.symops, st.n)
            st.samples.append(s)
            samples.append(s)
        states.append(st)
    # simulate(): driven now, its rebuilt optimal_circuit travels in the same TLC round; scalars judged afterwards
    sims = []
    for st in states:
        pending = {t: (True if s.job is not None else None) for t, s in enumerate(st.samples)}
        s2 = check_simulate(chk, st.cfg, st, pending)
        if s2 is not None:
            sims.append((st, s2))
    _TIMES["V_drive_python"] = round(time.time() - t0, 1)
    t0 = time.time()
    lam_of = {id(s): st.lam for st in states for s in st.samples}
    res = run_samples(chk, samples + [s2 for _, s2 in sims if s2.job is not None], name, lam=lambda s: lam_of.get(id(s)),
                      controls="neg" not in os.environ.get("VERIF_C08_SKIP", "").split(","))
    _TIMES["V_tlc"] = round(time.time() - t0, 1)
    for st in states:
        st.table = {t: getattr(s, "Eexp", None) for t, s in enumerate(st.samples)}
    for st, s2 in sims:
        s2.finish(st.table)
    return states, samples


# ------------------------------------------------------------------------------------------------------
# G-part: call histories generated by TLC, replayed on the real solver
# ------------------------------------------------------------------------------------------------------
HIST_CFG = """CONSTANTS NTheta = %d
MaxDepth = %d
WithRdm = %s
WithSym = %s
Export = TRUE
INIT Init
NEXT Next
INVARIANT TypeOK
INVARIANT TargetRestored
INVARIANT CurIsLast
INVARIANT OptIsLastSim
"""


def gen_histories(chk, ntheta, depth, with_rdm, simulate=None, tag="h"):
    r = tlc.run("C08VqeEnergy", HIST_CFG % (ntheta, depth, "TRUE" if with_rdm else "FALSE", "TRUE" if with_rdm else "FALSE"), WD + "/" + tag, workers=4,
                simulate=simulate, depth=depth + 1 if simulate else None, seed=chk.seed + 11 if simulate else None, coverage=not simulate)
    if not r.ok:
        raise tlc.TLCError("C08VqeEnergy: %s\n%s" % (r.violated, r.out[-1500:]))
    chk.add_tlc(r, "G_histories_" + tag)
    hs = r.prints("H")
    # vacuity control: every action of the state machine must have been taken
    kinds = {}
    for h in hs:
        for c in h:
            kinds[c["kind"]] = kinds.get(c["kind"], 0) + 1
    want = {"energy", "simulate", "opexpobj", "resources"} | ({"opexp", "opexpcur", "rdm"} if with_rdm else set())
    forms = {c["op"] for h in hs for c in h if c["kind"] == "opexpobj"}
    if not simulate and not ({"qforeign", "qown"} | ({"fermion"} if with_rdm else set())) <= forms:
        raise tlc.TLCError("vacuity: operator forms never generated: %s" % forms)
    cov = r.coverage_counts() if not simulate else {}
    chk.part("G_histories_" + tag, histories=len(hs), calls_by_action=kinds,
             tlc_action_coverage={a: cov[a][1] for a in ("Do", "OpExp", "OpExpCur", "Rdm") if a in cov})
    if not simulate and want - set(kinds):
        raise tlc.TLCError("vacuity: actions never taken in generated histories: %s" % sorted(want - set(kinds)))
    uniq, seen = [], set()
    for h in hs:
        key = tuple((c["kind"], c["op"], c["t"]) for c in h)
        if key not in seen:
            seen.add(key)
            uniq.append(h)
    return uniq


_hcache = {}


def gen_histories_cached(chk, ntheta, depth):
    if (ntheta, depth) not in _hcache:
        _hcache[(ntheta, depth)] = gen_histories(chk, ntheta, depth, True, tag="bfs_d%d" % depth)
    return _hcache[(ntheta, depth)]


def replay_history(cfg, st, v, holder, hist, H0terms, state):
    """Run one history on solver v. state: dict(cur=theta index or None, opt=...). Returns None or (step, text)."""
    kw = {}
    ref = expected_reference(cfg, st.n)
    if ref is not None:
        kw["ref_state"] = ref
    for x, c in enumerate(hist):
        kind, op, t, ex = c["kind"], c["op"], c["t"], c["expect"]
        exp_t = ex if kind != "opexpcur" else state["cur"]
        th = np.array(st.thetas[t]) if kind not in ("opexpcur", "resources") else None
        try:
            if kind == "energy":
                val, want = float(np.real(v.energy_estimation(th))), st.table.get(t)
            elif kind == "opexp":
                val, want = float(np.real(v.operator_expectation(op, th, **kw))), st.symtable.get((op, t))
            elif kind == "opexpcur":
                val, want = float(np.real(v.operator_expectation(op, **kw))), st.symtable.get((op, exp_t))
            elif kind == "opexpobj":
                if op == "fermion":
                    obj, want = molecule(cfg["mol"]).fermionic_hamiltonian, (st.eplain.get(t) if not cfg["penalty"] else None)
                elif op == "qforeign":
                    obj, want = st.foreign_op(), st.foreign.get(t)
                else:
                    obj, want = st.own_op(), st.eplain.get(t)
                val = float(np.real(v.operator_expectation(obj, th, **kw)))
            elif kind == "resources":
                res = v.get_resources()
                val = float(res["qubit_hamiltonian_terms"])
                want = float(len(H0terms) + (len(v.deflation_circuits) if v.deflation_circuits else 0))
            elif kind == "simulate":
                holder.x = th
                others = [u for u in range(1, len(st.thetas)) if u != t and st.table.get(u) is not None]
                holder.other = np.array(st.thetas[others[0]]) if others else None
                val, want = float(np.real(v.simulate())), st.table.get(t)
                state["opt"] = t
                state["optcirc"] = [(g.name, tuple(g.target), tuple(g.control or ()), g.parameter) for g in v.optimal_circuit]
            elif kind == "rdm":
                # first-class action: after ANY history the RDMs are those of the requested vector
                # (energy_from_rdms(get_rdm(theta_t)) = exact plain energy of theta_t; C13 judges the tensors themselves)
                g1, g2 = v.get_rdm(th, **kw)
                val, want = float(molecule(cfg["mol"]).energy_from_rdms(np.array(g1), np.array(g2))), st.plain.get(t)
        except Exception as e:
            return x, "%s(%s, t=%s) raised %s: %s" % (kind, op, t, type(e).__name__, e)
        if kind not in ("opexpcur", "resources"):
            state["cur"] = t
        if want is not None and abs(val - want) > TOL:
            return x, "%s(%s, t=%s) returned %.10f, exact value of its arguments %.10f" % (kind, op, t, val, want)
        # abstract state after the call
        if dict(v.qubit_hamiltonian.terms) != H0terms or (state.get("H0obj") is not None and v.qubit_hamiltonian is not state["H0obj"]):
            return x, "target operator not restored after %s(%s): the solver no longer holds the Hamiltonian it was built with" % (kind, op)
        if state["cur"] is not None and not np.allclose(np.array(v.ansatz.var_params, dtype=float), st.thetas[state["cur"]], atol=1e-12):
            return x, "ansatz parameters are not those of the last call after %s" % kind
        if state.get("optcirc") is not None:
            now = [(g.name, tuple(g.target), tuple(g.control or ()), g.parameter) for g in v.optimal_circuit]
            if now != state["optcirc"]:
                return x, "optimal_circuit changed after %s: it is no longer the circuit of the last simulate()" % kind
        if state.get("opt") is not None:
            if not np.allclose(np.array(v.optimal_var_params, dtype=float), st.thetas[state["opt"]], atol=1e-12) \
                    or abs(float(np.real(v.optimal_energy)) - st.table[state["opt"]]) > TOL:
                return x, "optimal_var_params / optimal_energy not those of the last simulate() after %s" % kind
    return None


def g_part(chk, st, hists, tag):
    cfg = st.cfg
    good = [t for t in range(len(st.thetas)) if st.table.get(t) is not None]
    nt = max([t for c in hists for t in [h["t"] for h in c]] + [0])
    if len(good) <= nt:
        chk.inconclusive += 1
        return
    st.symtable = {}
    st.plain = {t: getattr(s, "Eplain", None) for t, s in enumerate(st.samples)} if not (cfg["penalty"] or cfg["qham"]) else {}
    st.eplain = {t: getattr(s, "Eplain", None) for t, s in enumerate(st.samples)}
    # a QubitOperator DIFFERENT from the Hamiltonian, over (some of) its words: exact value = contraction with TLC's <P_j>
    from tangelo.toolboxes.operators import QubitOperator
    hterms0 = words_of(st.H, st.n)
    fcoef = [((-1) ** x) * 0.125 * (x + 1) if x < 6 else 0. for x in range(len(hterms0))]

    def foreign_op():
        F = QubitOperator()
        for (term, _), c in zip(hterms0, fcoef):
            if c:
                F += QubitOperator(term, c)
        return F

    def own_op():
        O = QubitOperator()
        for term, c in hterms0:
            O += QubitOperator(term, c)
        return O
    st.foreign_op, st.own_op = foreign_op, own_op
    st.foreign = {t: (sum(c * e for c, e in zip(fcoef, s.hexp)) if getattr(s, "hexp", None) is not None else None) for t, s in enumerate(st.samples)}
    for t, s in enumerate(st.samples):
        for w in SYM:
            e = getattr(s, "symexact", {}).get(w)
            if e is not None:
                st.symtable[(w, t)] = e
    holder = Holder()
    v = None
    n_since = 0
    replayed = 0
    since = []
    for h in hists:
        if v is None or n_since >= 60:
            v = make_solver(cfg, holder)
            H0 = dict(v.qubit_hamiltonian.terms)
            state = {"cur": None, "opt": None, "optcirc": None, "H0obj": v.qubit_hamiltonian}
            n_since = 0
            since = []
        r = replay_history(cfg, st, v, holder, h, H0, state)
        n_since += 1
        replayed += 1
        since.append(h)
        if r is not None:
            # isolate: does the history fail on a fresh solver?
            v1 = make_solver(cfg, holder)
            r1 = replay_history(cfg, st, v1, holder, h, dict(v1.qubit_hamiltonian.terms), {"cur": None, "opt": None, "optcirc": None, "H0obj": v1.qubit_hamiltonian})
            step, text = r1 if r1 is not None else r
            if r1 is None:
                # needs the calls of the earlier histories on the same solver: the case is their concatenation
                # (a valid behaviour of the state machine as well)
                hh = [c for x in since for c in x]
                step = len(hh) - len(h) + step
                h = hh
            cls = "optimal_circuit-aliases-ansatz-circuit" if "optimal_circuit changed" in text else "%s:%s" % (cfg["ansatz"], h[step]["kind"])
            chk.violation("history:%s" % cls,
                          "%s history %s: step %d: %s" % (cfg["name"], [(c["kind"], c["op"], c["t"]) for c in h], step, text),
                          {"cfg": cfg["name"], "history": h, "thetas": [list(map(float, t)) for t in st.thetas], "mapping": cfg["mapping"], "utd": cfg["utd"]})
            v = None
    chk.add_traces(replayed, "G_replayed_" + tag)


# ------------------------------------------------------------------------------------------------------
def run(chk):
    rng = random.Random(chk.seed)
    np.random.seed(chk.seed)
    quick = chk.quick
    # ---- S: the oracle's lemmas ---------------------------------------------------------------------
    lem = tlc.run_many([dict(module="C08Lemmas", cfg="CONSTANT M = %d\nNQ = 4\nINIT Init\nNEXT Next\n" % M, name=WD + "/lemmas_M%d" % M)
                        for M in ((8,) if quick else (8, 16))], max_parallel=PAR)
    for r in lem:
        lc = r.tuples("LC")
        bad = [n for n, ok in lc if ok is not True]
        if bad or len(lc) < 10:
            raise tlc.TLCError("C08Lemmas failed: %s" % (bad or r.out[-1500:]))
        chk.add_tlc(r)
    chk.part("S_lemmas", checks=len(lem) * 10)
    # ---- V ----------------------------------------------------------------------------------------------
    cfgs = configs(quick)
    only = os.environ.get("VERIF_C08_ONLY")          # development aid: comma-separated name fragments
    if only:
        cfgs = [c for c in cfgs if any(f in c["name"] for f in only.split(","))]
    skip = os.environ.get("VERIF_C08_SKIP", "").split(",")      # development aid
    t0 = time.time()
    states, samples = v_part(chk, cfgs, rng)
    t_v = time.time() - t0
    t0 = time.time()
    # (negative controls travel in the same TLC round as the records: build_controls / eval_controls)
    # ---- G ----------------------------------------------------------------------------------------------
    t_neg = time.time() - t0
    t0 = time.time()
    hstates = [st for st in states if st.cfg["hist"]]
    if hstates and "g" not in skip:
        depth = 2 if quick else 3
        hs = gen_histories(chk, 2, depth, True, tag="bfs")
        nth = 2 if quick else 3
        hs_long = gen_histories(chk, nth, 6 if quick else 10, True, simulate="num=%d" % (10 if quick else 100), tag="sim")
        # solvers built from a qubit Hamiltonian: energy / simulate only (deeper)
        hq = gen_histories(chk, nth, 2 if quick else 3, False, tag="bfs_qham")
        for st in hstates:
            if st.cfg["qham"]:
                g_part(chk, st, hq, "bfs_qham")
                continue
            # depth-3 enumeration is replayed on the cheapest configurations only
            if not (quick and st.cfg["ansatz"] == "HEA"):        # quick: the HEA configuration gets the random long histories only
                # quick: the full enumeration on the 2-qubit configuration, every third history on the larger ones
                g_part(chk, st, (hs if st.n <= 2 else hs[::3]) if quick else (hs if st.n <= 2 else gen_histories_cached(chk, 2, 2)), "bfs")
            g_part(chk, st, hs_long, "sim")
    chk.part("wall_s", V=round(t_v, 1), negative_controls=round(t_neg, 1), G=round(time.time() - t0, 1), **_TIMES)
    nE = sum(1 for s in samples if getattr(s, "Eexp", None) is not None)
    chk.add_eval(nE, nE)
    chk.part("V", configurations=len(states), samples=len(samples), judged=nE,
             by_engine={e: sum(1 for s in samples if s.job is not None and s.cfg["engine"] == e) for e in ("ring", "cliff")})
    chk.part("numeric_tail_variational_bound", note="E >= eigvalsh(H)[0] - 1e-9 checked with numpy for every sample (not decided by TLC); "
             "the decided premise is the unit norm of the prepared state", configs=sum(1 for st in states if st.lam is not None))
    for s in samples[:3]:
        if s.job is not None:
            chk.sample({"cfg": s.cfg["name"], "theta": s.theta, "E_code": s.E, "E_exact": getattr(s, "Eexp", None), "n_gates": len(s.job["gates"]),
                        "n_words": len(s.job["words"])})
    chk.cov["rule"] = ("V: every configuration (molecule x ansatz x encoding x ordering x ref_state/projective/penalty/deflation/frozen) x "
                       "grid parameter vectors; circuit + operator words evaluated exactly by TLC, contraction with the float coefficients. "
                       "G: every call history to depth %d (+ random long ones) replayed." % (2 if quick else 3))
    chk.assumptions += [
        "energies are trigonometric polynomials of the parameters: agreement on several grid vectors incl. non-Clifford points "
        "stands for all real parameter vectors",
        "float Hamiltonian coefficients are contracted in Python (spec-structured contraction, 1e-8); encodings and fermionic "
        "symmetry operators used to assemble the expected operators are those validated by C03/C04/C12",
        "the variational bound follows from the decided premise <psi|psi> = 1; the eigvalsh comparison is a numeric tail"]


def replay(chk, rec):
    case = rec["case"]
    cfg = dict(by_name(case["cfg"]))
    if case.get("mapping"):
        cfg["mapping"] = case["mapping"]          # the spelling (and ordering) drawn when the case was recorded
    if case.get("utd") is not None:
        cfg["utd"] = case["utd"]
    c2 = check.Check("C08", [chk.tier])
    c2.known = []
    rng = random.Random(0)
    try:
        st = prepare_config(c2, cfg, rng)
    except Exception as e:
        print("  building the solver raised %s: %s" % (type(e).__name__, e))
        if rec["key"].startswith("build:"):
            return False
        raise
    if "history" in case:
        st.thetas = [np.array(t) for t in case["thetas"]]
    elif case.get("theta") is not None:
        st.thetas = [np.zeros(st.npar), np.array(case["theta"])]
    st.samples = []
    for th in st.thetas:
        v = make_solver(cfg) if cfg["fresh"] else st.v
        st.samples.append(drive(c2, cfg, v, th, st.H, st.symops, st.n))
    run_samples(c2, st.samples, "replay", lam=lambda s: st.lam)
    st.table = {t: getattr(s, "Eexp", None) for t, s in enumerate(st.samples)}
    if case.get("simulate"):
        s2 = check_simulate(c2, cfg, st, st.table)
        if s2 is not None and s2.job is not None:
            run_samples(c2, [s2], "replay_sim")
    if "history" in case:
        g_part(c2, st, [case["history"]], "replay")
    for key, detail, _ in c2.violations:
        print("  %s: %s" % (key, detail))
    return not any(k == rec["key"] or k.split(":")[0] == rec["key"].split(":")[0] for k, _, _ in c2.violations)


if __name__ == "__main__":
    check.main("C08", run, replay)
