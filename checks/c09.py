#!/venv/bin/python
"""C09 - circuit transformations preserve the implemented operation.

S: TLC model-checks spec/C09Transform.tla: the algorithm models of merge / cancel / drop / simplify / inverse
   (spec/C09Defs.tla) against the exact unitary (ring engine) on every generated circuit - with the correct 4pi period
   of controlled rotations they preserve the operation; with the code's 2pi period TLC must find the design-level
   counterexample; in the alternative semantics Sem2 the 2pi models are sound (this validates the class naming).
G: the same state machine generates the input circuits (sequences over an alphabet, qubit sets with gaps, angles over
   the full 4pi period incl. 0, 2pi, negative, variational flags); BFS for all short circuits, -simulate for longer ones.
V: every transformation of the public API is applied to the real Circuit/Gate objects; the recorded
   (input, args, output, input-after) tuples are judged by TLC (spec/C09Trace.tla) against the contracts.
Python only builds objects, calls the API, converts to JSON and maps TLC's verdict to report lines.
"""
import copy
import itertools
import json
import math
import os
import random
import sys

sys.path.insert(0, os.path.join(os.path.dirname(os.path.abspath(__file__)), "..", "harness"))
import check  # noqa: E402
import tlc  # noqa: E402
from ring import angle_to_k, k_to_angle  # noqa: E402
from enc import OffGrid, PARAM_GATES, ROT_GATES  # noqa: E402

M = 8
PAR = int(os.environ.get("VERIF_JVMS", "16"))

OPNAME = {"inverse": "inverse", "copy": "copy", "mul": "mul", "add": "add", "merge": "merge_rotations",
          "redundant": "remove_redundant_gates", "small": "remove_small_rotations", "simplify": "simplify",
          "split": "split", "stack": "stack", "trim": "trim_qubits", "reindex": "reindex_qubits",
          "gateeq": "Gate.__eq__", "clifford": "decompose_gate_to_cliffords"}


# ------------------------------------------------------------------------------------------------------
# format conversion
# ------------------------------------------------------------------------------------------------------
def mk_gate(j):
    from tangelo.linq import Gate
    ctrl = list(j["c"]) if j.get("c") else None
    if j["name"] in PARAM_GATES:
        return Gate(j["name"], list(j["t"]), ctrl, parameter=k_to_angle(j["k"], M), is_variational=bool(j.get("v", False)))
    return Gate(j["name"], list(j["t"]), ctrl, is_variational=bool(j.get("v", False)))


def gate_json(g):
    """Tangelo gate -> recorded gate; raises OffGrid when the parameter left the exact carrier."""
    name = g.name
    k, p = 0, 0
    if name in PARAM_GATES:
        par = g.parameter
        if isinstance(par, str):
            raise OffGrid("non numeric parameter %r" % (par,))
        try:
            par = float(par)
        except (TypeError, ValueError):
            raise OffGrid("non numeric parameter %r" % (par,))
        k = angle_to_k(par, M, 1e-9)
        if k is None or (name in ROT_GATES and k % 2):
            raise OffGrid("angle %r off the grid" % (par,))
        p = int(round(par * 1e6))
    return {"name": name, "t": [int(x) for x in g.target], "c": [int(x) for x in (g.control or [])], "k": k,
            "v": bool(g.is_variational), "p": p}


def dump(c):
    return [gate_json(g) for g in c]


def build(gs, fixed_n=0):
    from tangelo.linq import Circuit
    return Circuit([mk_gate(g) for g in gs], n_qubits=(fixed_n or None))


def thr_to_T(thr):
    """largest grid index strictly below the threshold (angle = 2 pi k / M)."""
    return int(math.ceil(thr * M / (2 * math.pi))) - 1


# ------------------------------------------------------------------------------------------------------
# executing one case against the real code -> one job for C09Trace
# ------------------------------------------------------------------------------------------------------
class EnabledRaised(Exception):
    pass


def execute(case):
    """case: {"kind", "in", "fixedN", ...args}. Runs the transformation in the implementation and returns the job
    record (without id).  Raises OffGrid (inconclusive) or EnabledRaised (exception on a valid call)."""
    from tangelo.linq import Circuit, stack as stack_fn
    from tangelo.linq import circuit as cmod
    from tangelo.linq.helpers.circuits.clifford_circuits import decompose_gate_to_cliffords
    global M
    m_saved = M
    M = int(case.get("M", 8))
    try:
        job = _execute(case)
        job["M"] = M
        return job
    finally:
        M = m_saved


def _execute(case):
    from tangelo.linq import Circuit, stack as stack_fn
    from tangelo.linq import circuit as cmod
    from tangelo.linq.helpers.circuits.clifford_circuits import decompose_gate_to_cliffords
    kind = case["kind"]
    if kind == "add":
        a0, b0 = build(case["a"], case.get("fixedNa", 0)), build(case["b"], case.get("fixedNb", 0))
    elif kind == "stack":
        ins0 = [build(g, n) for g, n in zip(case["ins"], case["fixedNs"])]
    elif kind not in ("gateeq", "clifford"):
        c0 = build(case["in"], case.get("fixedN", 0))
    try:
        if kind == "gateeq":
            g1, g2 = mk_gate(case["g1"]), mk_gate(case["g2"])
            eq = bool(g1 == g2)
            if bool(g1 != g2) == eq:
                raise EnabledRaised("== and != agree on %r %r" % (g1, g2))
            return {"kind": kind, "g1": gate_json(g1), "g2": gate_json(g2), "eq": eq}
        if kind == "clifford":
            g = mk_gate(case["g"])
            out = decompose_gate_to_cliffords(g)
            out = [out] if not isinstance(out, list) else out
            return {"kind": kind, "g": gate_json(g), "out": [gate_json(x) for x in out]}
        if kind == "add":
            a, b = a0, b0
            ja, jb, wa, wb = dump(a), dump(b), a.width, b.width
            out = a + b
            return {"kind": kind, "a": ja, "b": jb, "out": dump(out), "a_after": dump(a), "b_after": dump(b),
                    "w_a": wa, "w_b": wb, "w_out": out.width}
        if kind == "stack":
            ins = ins0
            before = [dump(c) for c in ins]
            out = ins[0].stack(*ins[1:]) if case.get("form") == "method" else stack_fn(*ins)
            return {"kind": kind, "ins": before, "out": dump(out), "afters": [dump(c) for c in ins], "w_out": out.width}
        c = c0
        jin, w_in = dump(c), c.width
        if kind == "inverse":
            out = c.inverse()
            return {"kind": kind, "in": jin, "out": dump(out), "after": dump(c), "w_in": w_in, "w_out": out.width}
        if kind == "copy":
            out = c.copy()
            return {"kind": kind, "in": jin, "out": dump(out), "after": dump(c), "w_in": w_in, "w_out": out.width, "r": 1}
        if kind == "mul":
            out = (c * case["r"]) if case.get("form") != "rmul" else (case["r"] * c)
            return {"kind": kind, "in": jin, "out": dump(out), "after": dump(c), "w_in": w_in, "w_out": out.width, "r": case["r"]}
        if kind in ("merge", "redundant", "small", "simplify"):
            form, rq, thr = case.get("form", "fn"), bool(case.get("rq", False)), case.get("thr", 1e-3)
            kw = {}
            if kind in ("redundant", "simplify"):
                kw["remove_qubits"] = rq
            if kind == "small":
                kw["remove_qubits"] = rq
                kw["param_threshold"] = thr
            if kind == "simplify":
                kw["param_threshold"] = thr
            name = OPNAME[kind]
            if form == "fn":
                out = getattr(cmod, name)(c, **kw)
                after = dump(c)
            else:
                getattr(c, name)(**kw)
                out, after = c, []
            return {"kind": kind, "in": jin, "out": dump(out), "after": after, "inplace": form != "fn", "rq": rq,
                    "T": thr_to_T(thr) if kind in ("small", "simplify") else 0, "w_in": w_in, "w_out": out.width}
        if kind == "split":
            parts = c.split(trim_qubits=bool(case["trim"]))
            return {"kind": kind, "in": jin, "parts": [dump(p) for p in parts], "trim": bool(case["trim"]), "after": dump(c)}
        if kind == "trim":
            ret = c.trim_qubits()
            return {"kind": kind, "in": jin, "out": dump(c), "w_out": c.width, "ret_self": ret is c}
        if kind == "reindex":
            c.reindex_qubits(list(case["new"]))
            return {"kind": kind, "in": jin, "fixedN": case.get("fixedN", 0), "new": list(case["new"]), "out": dump(c),
                    "w_out": c.width}
    except OffGrid:
        raise
    except EnabledRaised:
        raise
    except Exception as e:  # an exception on a call the contract declares valid
        raise EnabledRaised("%s: %s" % (type(e).__name__, str(e)[:200]))
    raise ValueError("unknown kind %r" % kind)


def input_class(case):
    """Label (not a verdict) of the input class, used to key findings narrowly."""
    gl = []
    for f in ("in", "a", "b"):
        gl += case.get(f, [])
    for x in case.get("ins", []):
        gl += x
    idx = [q for g in gl for q in g["t"] + g["c"]]
    labels = []
    if idx and max(idx) >= 8:
        labels.append("indices>=8")
    fn = case.get("fixedN", 0)
    if fn and idx and fn > max(idx) + 1:
        labels.append("fixed-wider-than-used")
    return "+".join(labels) if labels else "plain"


def violation_key(case, clause):
    op = OPNAME[case["kind"]]
    if clause in ("period-2pi", "input-mutated", "variational", "not-clifford", "self", "malformed", "exception"):
        return "%s:%s" % (op, clause)
    return "%s:%s:%s" % (op, clause, input_class(case))


# ------------------------------------------------------------------------------------------------------
# TLC runs: S (model checking) + G (generation)
# ------------------------------------------------------------------------------------------------------
S_INV = ["AlphabetOK", "InverseExact", "MergeOK", "CancelStrictOK", "DropStrictOK", "SimplifyStrictOK", "Sem2Sound", "VerdictNames"]
S_INV_LIGHT = ["InverseExact", "MergeOK", "CancelStrictOK", "DropStrictOK", "SimplifyStrictOK", "Sem2Sound"]
S_INV_STRUCT = ["UnitaryOK", "MergeOK", "SimplifyStrictOK", "TrimLemma", "SplitLemma"]

ALL0 = ["H", "X", "Y", "Z", "S", "T"]
ALLR = ["RX", "RY", "RZ"]
ALLC = ["CNOT", "CX", "CY", "CZ", "CH"]
ALLCR = ["CRX", "CRY", "CRZ"]


def sset(xs):
    return "{" + ", ".join('"%s"' % x for x in xs) + "}"


def gen_cfg(qs, maxlen, n0, nr, nc, ncr, n2, rot, ph, maxctrl=1, var="VarNo", mode="free", export=True, inv=S_INV,
            export_inv="ExportAll", m=8, outer_max_q=3):
    s = "CONSTANTS M = %d\nQs = {%s}\nMaxLen = %d\nOuterMaxQ = %d\n" % (m, ", ".join(str(q) for q in qs), maxlen, outer_max_q)
    s += "Names0 = %s\nNamesR = %s\nNamesC = %s\nNamesCR = %s\nNames2 = %s\n" % (sset(n0), sset(nr), sset(nc), sset(ncr), sset(n2))
    s += "RotK <- %s\nPhaseK <- %s\nMaxCtrl = %d\nVarSet <- %s\nMode = \"%s\"\nExport = %s\n" % (
        rot, ph, maxctrl, var, mode, "TRUE" if export else "FALSE")
    s += "INIT Init\nNEXT Next\n" + "".join("INVARIANT %s\n" % i for i in inv)
    if export:
        s += "INVARIANT %s\n" % export_inv
    return s


def plan_runs(chk):
    """(name, kwargs for tlc.run, meta) ; meta: qs, widths offered for the replay, role."""
    q = chk.quick
    runs = []

    def add(name, cfg, meta, **kw):
        meta.setdefault("M", 8)
        runs.append((name, dict(module="C09Transform", cfg=cfg, name="c09/" + name, timeout=7200, heap="3g", **kw), meta))
    # interleaving patterns (sandwiches g1 ; p* ; m ; g'), generic angles on the 2pi/16 grid: every combination of outer gate,
    # interleaved gate (controlled with the outer qubit as control or target, 2 controls, SWAP, XX, subset one-qubit gate) and
    # related closing gate, with and without differing previous gates on the other qubits of m
    add("sw2", gen_cfg([0, 1], 4, ["H"], ALLR, ["CNOT", "CZ"], ["CRX", "CRZ"], ["PHASE", "CPHASE", "SWAP", "XX"], "RotKGen", "PhaseKGen",
                       mode="sandwich", inv=["SandwichOK", "SandwichBlocks"], export_inv="ExportSandwich", m=16),
        dict(qs=[0, 1], role="sandwich", M=16), workers=6)
    add("sw3", gen_cfg([0, 1, 2], 5, ["H"], ["RX"] if q else ["RX", "RY"], ["CNOT"], ["CRX"], ["CSWAP"], "RotKGen", "PhaseKGen", maxctrl=2,
                       mode="sandwich", inv=["SandwichBlocks"] if q else ["SandwichOK", "SandwichBlocks"], export_inv="ExportSandwich",
                       m=8 if q else 16, outer_max_q=1 if q else 2),
        dict(qs=[0, 1, 2], role="sandwich", M=8 if q else 16), workers=6 if q else 8)

    # alphabet for Gate.__eq__ (all ordered pairs) and the Clifford decomposition (every multiple of pi/2 in -2pi..4pi)
    add("alpha1", gen_cfg([1], 1, ALL0, ALLR, [], [], ["PHASE"], "RotKFull", "PhaseKFull", inv=["AlphabetOK", "UnitaryOK", "InverseExact"]),
        dict(qs=[1], role="alpha"), workers=1)
    # A: all pairs of gates on the same targets/controls (cancel / merge / drop / eq classes), exhaustive
    rot, ph = ("RotKSmall", "PhaseKSmall") if q else ("RotKFull", "PhaseKMid")
    add("pairs01", gen_cfg([0, 1], 2, ALL0, ALLR, ALLC, ALLCR, ["PHASE", "CPHASE", "XX", "SWAP"], rot, ph, mode="pairs"),
        dict(qs=[0, 1], role="pairs"), workers=6 if q else 8)
    # B: every circuit of length <= 3 over a reduced alphabet (interleaving: merge/cancel across another gate)
    add("free01", gen_cfg([0, 1], 3, ["H"], ["RZ"], ["CNOT"], ["CRZ"], [], "RotKTiny", "PhaseKTiny",
                          inv=["MergeOK", "SimplifyStrictOK", "Sem2Sound"] if q else S_INV_LIGHT),
        dict(qs=[0, 1], role="free"), workers=6 if q else 8)
    if not q:
        add("free02x", gen_cfg([0, 2], 3, ["X", "S"], ["RX"], ["CX"], ["CRX"], ["PHASE", "CPHASE"], "RotKTiny", "PhaseKTiny",
                               inv=S_INV_LIGHT), dict(qs=[0, 2], role="free"), workers=8)
        # every circuit of length <= 4 over a NON-commuting alphabet (RX / CRX / CNOT / SWAP): all interleavings
        add("free4x", gen_cfg([0, 1], 4, [], ["RX"], ["CNOT"], ["CRX"], ["SWAP"], "RotKPair", "PhaseKTiny",
                              inv=["MergeOK", "CancelStrictOK", "SimplifyStrictOK"]), dict(qs=[0, 1], role="free"), workers=8)
        add("pairs3c2", gen_cfg([0, 1, 2], 2, [], [], ["CNOT", "CX", "CZ"], ALLCR, ["CPHASE", "CSWAP"], "RotKMid", "PhaseKSmall",
                                maxctrl=2, mode="pairs", inv=S_INV_LIGHT), dict(qs=[0, 1, 2], role="pairs"), workers=8)
    # C..F: random longer circuits (tlc -simulate), qubit sets with gaps / wide indices, variational flags, 2 controls
    sims = [("sim_gap3", [0, 2, 3], 4, 60 if q else 500, 2, "RotKSmall", "PhaseKSmall"),
            ("sim_13", [1, 3], 4, 60 if q else 500, 1, "RotKMid", "PhaseKMid"),
            ("sim_wide", [1, 8], 3, 40 if q else 300, 1, "RotKSmall", "PhaseKSmall"),
            ("sim_4q", [0, 1, 2, 3], 5, 25 if q else 250, 1, "RotKSmall", "PhaseKSmall")]
    if not q:
        sims += [("sim_134", [1, 3, 4], 6, 300, 2, "RotKMid", "PhaseKMid"), ("sim_01", [0, 1], 6, 500, 1, "RotKFull", "PhaseKFull"),
                 ("sim_wide3", [2, 9, 16], 4, 200, 1, "RotKSmall", "PhaseKSmall")]
    for si, (name, qs, ln, num, mc, rot, ph) in enumerate(sims):
        n2 = ["PHASE", "CPHASE", "XX", "SWAP"] + (["CSWAP"] if len(qs) >= 3 else [])
        add(name, gen_cfg(qs, ln, ALL0, ALLR, ALLC, ALLCR, n2, rot, ph, maxctrl=mc, var="VarBoth",
                          inv=(S_INV_STRUCT if q else S_INV_LIGHT + S_INV_STRUCT) if len(qs) <= 3 else ["MergeOK", "SplitLemma"],
                          export_inv="ExportEnd"),
            dict(qs=qs, role="sim"), workers=1, simulate="num=%d" % num, depth=ln + 1, seed=chk.seed + 101 * (si + 1))
    return runs


def account(chk, r, part):
    """chk.add_tlc, plus the state counter of -simulate runs (TLC prints it in a different line)."""
    import re
    chk.add_tlc(r, part)
    m = re.search(r"The number of states generated: (\d+)", r.out)
    if m and not r.generated:
        n = int(m.group(1))
        chk.cov["states"] += n
        chk.cov["transitions"] += n
        chk.part(part, tlc_states=n, tlc_transitions=n, mode="simulate")


def expected_counterexample(chk):
    """The 2pi-period models must be refuted by TLC on the design level (otherwise the oracle cannot see the class)."""
    jobs = []
    for inv in ("CancelCodeOK", "DropCodeOK"):
        cfg = gen_cfg([0, 1], 2, [], [], [], ALLCR, [], "RotKSmall", "PhaseKSmall", mode="pairs", export=False, inv=[inv])
        jobs.append(dict(module="C09Transform", cfg=cfg, name="c09/cex_" + inv, workers=1, must_succeed=False))
    res = tlc.run_many(jobs, max_parallel=2)
    for inv, r in zip(("CancelCodeOK", "DropCodeOK"), res):
        if r.error or inv not in r.violated:
            raise tlc.TLCError("S: the 2pi-period model %s was NOT refuted by TLC: %s" % (inv, (r.error or r.out)[-800:]))
        chk.add_tlc(r, "S_design_counterexample_" + inv)
    chk.part("S_design_counterexamples", refuted=["CancelAlgo(period 2pi)", "DropAlgo(period 2pi)"],
             note="TLC finds CR(a) CR(2pi-a) / CR(2pi): the period-2pi identification of controlled rotations is unsound")


# ------------------------------------------------------------------------------------------------------
# cases
# ------------------------------------------------------------------------------------------------------
SIMP_CORE = [dict(kind="merge", form="fn"), dict(kind="redundant", form="fn", rq=False),
             dict(kind="small", form="fn", rq=False, thr=1e-3), dict(kind="simplify", form="fn", rq=False)]
SIMP_MORE = [dict(kind="merge", form="method"), dict(kind="redundant", form="method", rq=True),
             dict(kind="small", form="method", rq=True, thr=2.0), dict(kind="simplify", form="method", rq=True)]


def cases_for(gs, qs, rng, others, full, fixed_opts):
    """All (or the simplification family of) transformation calls for one generated circuit."""
    out = []
    used = sorted({q for g in gs for q in g["t"] + g["c"]})
    fixed_n = rng.choice(fixed_opts)
    if fixed_n and used and fixed_n <= max(used):
        fixed_n = max(used) + 1 + (fixed_n % 2)
    base = {"in": gs, "fixedN": fixed_n}
    out.append(dict(base, kind="inverse"))
    for f in SIMP_CORE:
        out.append(dict(base, **f))
    if not full:
        return out
    for f in SIMP_MORE:
        out.append(dict(base, **f))
    out.append(dict(base, kind="small", form="fn", rq=True, thr=2.0))
    out.append(dict(base, kind="small", form="method", rq=False, thr=1e-9))
    out.append(dict(base, kind="redundant", form="fn", rq=True))
    out.append(dict(base, kind="simplify", form="fn", rq=True))
    out.append(dict(base, kind="simplify", form="method", rq=False))
    out.append(dict(base, kind="copy"))
    out.append(dict(base, kind="mul", r=rng.choice([1, 2, 3]), form=rng.choice(["mul", "rmul"])))
    o1 = rng.choice(others)
    o2 = rng.choice(others)
    out.append(dict(kind="add", a=gs, b=o1, fixedNa=fixed_n, fixedNb=rng.choice([0, 0, max(qs) + 2])))
    out.append(dict(kind="add", a=o2, b=gs, fixedNa=0, fixedNb=fixed_n))
    out.append(dict(base, kind="split", trim=True))
    out.append(dict(base, kind="split", trim=False))
    def nused(x):
        return len({q for g in x for q in g["t"] + g["c"]})
    if nused(gs) + nused(o1) <= 5:
        out.append(dict(kind="stack", ins=[gs, o1], fixedNs=[fixed_n, 0], form="fn"))
    if nused(o2) + 2 * nused(gs) <= 5:
        out.append(dict(kind="stack", ins=[o2, gs, gs], fixedNs=[0, fixed_n, 0], form="method"))
    out.append(dict(kind="stack", ins=[gs], fixedNs=[fixed_n], form="fn"))
    out.append(dict(base, kind="trim"))
    if gs:
        # reindex: the documented domain is the circuit's qubits in increasing order (all of 0..n-1 when fixed)
        dom = list(range(fixed_n)) if fixed_n else used
        n = len(dom)
        out.append(dict(base, kind="reindex", new=list(range(n))[::-1]))
        out.append(dict(base, kind="reindex", new=[2 * i + 1 for i in range(n)]))
        perm = list(range(2, 2 + n))
        rng.shuffle(perm)
        out.append(dict(base, kind="reindex", new=perm))
    return out


def gate_cases(alphabet, alphabet3, rng, quick):
    """Gate.__eq__ on all ordered pairs of the TLC-generated 1/2-qubit alphabet (quick: every related pair + a seeded sample
    of the unrelated ones) and on the related pairs of the 3-qubit alphabet; Clifford decomposition of every Clifford-angle
    rotation of the alphabet."""
    cases = []
    al = alphabet
    if quick and len(al) > 160:
        # keep every (name, placement) class, thin the angle sets deterministically
        keep = {}
        for g in al:
            keep.setdefault((g["name"], tuple(g["t"]), tuple(g["c"])), []).append(g)
        al = [g for k in sorted(keep) for g in keep[k][:7]]
    def place(g):
        return (tuple(g["t"]), tuple(g["c"]))
    for g1, g2 in itertools.product(al, al):
        # every ordered pair sharing the name or the placement (or CNOT/CX); a seeded 1/25 sample of the rest
        related = g1["name"] == g2["name"] or place(g1) == place(g2) or {g1["name"], g2["name"]} <= {"CNOT", "CX"}
        if related or rng.random() < (0.04 if quick else 0.5):
            cases.append(dict(kind="gateeq", g1=g1, g2=g2))
    by_place = {}
    for g in alphabet3:
        by_place.setdefault((place(g), g["name"][:2]), []).append(g)
    for k in sorted(by_place):
        for g1, g2 in itertools.product(by_place[k], by_place[k]):
            cases.append(dict(kind="gateeq", g1=g1, g2=g2))
    seen = set()
    for g in alphabet:
        if g["name"] in ("RX", "RY", "RZ", "PHASE") and g["k"] % (M // 4) == 0 and not g["v"]:
            key = (g["name"], g["k"], g["t"][0])
            if key not in seen:
                seen.add(key)
                cases.append(dict(kind="clifford", g=g))
    return cases


# ------------------------------------------------------------------------------------------------------
# negative controls: corrupt one recorded field per kind; C09Trace must reject
# ------------------------------------------------------------------------------------------------------
XG = lambda q: {"name": "X", "t": [q], "c": [], "k": 0, "v": False, "p": 0}  # noqa: E731


def corrupt(job):
    """Returns a list of (what, corrupted job)."""
    res = []
    k = job["kind"]

    def used(gs):
        return sorted({q for g in gs for q in g["t"] + g["c"]})

    def c(what, **upd):
        j = copy.deepcopy(job)
        j.update(upd)
        res.append((what, j))
    if k in ("inverse", "copy", "mul", "merge", "redundant", "small", "simplify", "trim", "reindex", "clifford"):
        ref = job.get("in", [job["g"]] if k == "clifford" else [])
        qs = used(ref) or [0]
        c("out+X", out=copy.deepcopy(job["out"]) + [XG(qs[0])])
    if k in ("inverse", "copy", "mul") or (k in ("merge", "redundant", "small", "simplify") and not job["inplace"]):
        c("after+X", after=copy.deepcopy(job["after"]) + [XG(0)])
    if k in ("inverse", "copy", "mul", "trim", "reindex"):
        c("width+1", w_out=job["w_out"] + 1)
    if k == "add":
        c("out+X", out=copy.deepcopy(job["out"]) + [XG((used(job["out"]) or [0])[0])])
        c("b_after+X", b_after=copy.deepcopy(job["b_after"]) + [XG(0)])
    if k == "split" and job["parts"]:
        p = copy.deepcopy(job["parts"])
        p[0] = p[0] + [XG((used(p[0]) or [0])[0])]
        c("part+X", parts=p)
    if k == "stack":
        c("out+X", out=copy.deepcopy(job["out"]) + [XG((used(job["out"]) or [0])[0])])
        a = copy.deepcopy(job["afters"])
        a[0] = a[0] + [XG(0)]
        c("after+X", afters=a)
    if k == "gateeq" and not job["eq"] and job["g1"]["name"] in ("H", "X") and job["g2"]["name"] in ("Z", "S") \
            and job["g1"]["t"] == job["g2"]["t"]:
        c("eq-flipped", eq=True)
    return res


# ------------------------------------------------------------------------------------------------------
# option arguments: every documented keyword at non-default values, method form == function form, stated threshold obeyed
# ------------------------------------------------------------------------------------------------------
def gate_fx(g):
    """Gate -> fixed-point record (angle in micro-radians); no grid needed."""
    par = g.parameter
    p = 0
    if not isinstance(par, str):
        try:
            p = int(round(float(par) * 1e6))
        except (TypeError, ValueError):
            p = 0
    return {"name": g.name, "t": [int(x) for x in g.target], "c": [int(x) for x in (g.control or [])], "p": p,
            "v": bool(g.is_variational)}


def dump_fx(c):
    return [gate_fx(g) for g in c]


def build_fx(gs, fixed_n=0):
    from tangelo.linq import Gate, Circuit
    gl = []
    for j in gs:
        ctrl = list(j["c"]) if j["c"] else None
        if j["name"] in PARAM_GATES:
            gl.append(Gate(j["name"], list(j["t"]), ctrl, parameter=j["p"] * 1e-6, is_variational=bool(j["v"])))
        else:
            gl.append(Gate(j["name"], list(j["t"]), ctrl))
    return Circuit(gl, n_qubits=(fixed_n or None))


def call_form(gs, fixed_n, op, form, kw):
    """Run one pass in function or method form. Returns (raised, gate dump, width, input-after dump)."""
    from tangelo.linq import circuit as cmod
    c = build_fx(gs, fixed_n)
    try:
        if form == "fn":
            out = getattr(cmod, OPNAME[op])(c, **kw)
        else:
            getattr(c, OPNAME[op])(**kw)
            out = c
    except Exception:
        return True, [], 0, dump_fx(c)
    return False, dump_fx(out), int(out.width), dump_fx(c)


THR_VALUES = [0.0, 1e-8, 1e-5, None, 2e-3, 0.5]          # None = keyword omitted (default 1e-3)


def option_grid(op):
    """Every documented keyword of the pass, below / at / above its default."""
    if op == "merge":
        return [{}]
    if op == "redundant":
        return [{"remove_qubits": rq} for rq in (False, True)]
    if op == "small":
        return [dict(({"param_threshold": t} if t is not None else {}), remove_qubits=rq) for t in THR_VALUES for rq in (False, True)]
    out = []
    for t in THR_VALUES:
        for mc in (None, 0, 1, 2):
            kw = {"remove_qubits": (mc == 1)}
            if t is not None:
                kw["param_threshold"] = t
            if mc is not None:
                kw["max_cycles"] = mc
            out.append(kw)
    return out


def operator_distance(gs_in, gs_out, n):
    """Numeric tail: || U_out - e^{i phi} U_in ||_2 through the cirq translator (trusted: C01)."""
    import numpy as np
    import cirq
    from tangelo.linq.translator import translate_circuit
    us = []
    for gs in (gs_in, gs_out):
        cc = translate_circuit(build_fx(gs, n), "cirq")
        us.append(cirq.unitary(cc) if n else np.eye(1))
    tr = np.trace(us[0].conj().T @ us[1])
    ph = tr / abs(tr) if abs(tr) > 1e-12 else 1.0
    return float(np.linalg.norm(us[1] - ph * us[0], 2))


def options_part(chk, rng, grid_corpus):
    """(a) method form == function form for every keyword value; (b) stated threshold obeyed (fixed point, TLC);
    (c) numeric tail: operator distance <= deleted gates * threshold / 2."""
    quick = chk.quick
    cfg = "CONSTANTS MaxLen = 2\nExport = TRUE\nINIT Init\nNEXT Next\nINVARIANT DropModelSound\nINVARIANT ThresholdMatters\nINVARIANT ExportAll\n"
    tag = "grid" if grid_corpus is not None else "fx"
    pick = []
    if grid_corpus is None:
        r = tlc.run("C09Threshold", cfg, "c09/thr_gen", workers=4, timeout=3600)
        if not r.ok:
            raise tlc.TLCError("C09Threshold: drop model violates the deletion contract: %s\n%s" % (r.violated, r.out[-2000:]))
        account(chk, r, "S_thresholds")
        circs = r.prints("CIRC")
        singles = [c for c in circs if len(c) == 1]
        pairs = [c for c in circs if len(c) == 2]
        pick = singles + [pairs[i] for i in sorted(rng.sample(range(len(pairs)), min(len(pairs), 500 if quick else 4000)))]
        chk.part("S_thresholds", circuits_exported=len(circs), replayed=len(pick))
    jobs, meta = [], {}

    def add(job, case):
        job["id"] = len(jobs) + 1
        jobs.append(job)
        meta[job["id"]] = case
    tail = []
    # fixed-point circuits: all passes, all keyword values, both forms
    for ci, gs in enumerate(pick):
        fixed_n = rng.choice([0, 0, 2, 4])
        for op in ("small", "simplify", "redundant", "merge"):
            grid = option_grid(op)
            if op == "simplify" and ci % 4:
                grid = grid[ci % 3::3]
            for kw in grid:
                case = {"opt": True, "in": gs, "fixedN": fixed_n, "op": op, "kw": kw}
                rf, of, wf, af = call_form(gs, fixed_n, op, "fn", kw)
                rm, om, wm, _ = call_form(gs, fixed_n, op, "method", kw)
                add({"kind": "formeq", "op": op, "out_fn": of, "out_m": om, "w_fn": wf, "w_m": wm, "r_fn": rf, "r_m": rm}, dict(case, check="formeq"))
                if op in ("small", "simplify") and not rf:
                    thr = kw.get("param_threshold", 1e-3)
                    t6 = int(round(thr * 1e6))
                    jin = dump_fx(build_fx(gs, fixed_n))
                    if op == "small" or kw.get("max_cycles") != 0:
                        add({"kind": "thr", "op": op, "in": jin, "out": of, "after": af, "inplace": False, "T6": t6}, dict(case, check="thr", form="fn"))
                        if not rm:
                            add({"kind": "thr", "op": op, "in": jin, "out": om, "after": [], "inplace": True, "T6": t6}, dict(case, check="thr", form="method"))
                    if (len(gs) == 1 and not kw.get("remove_qubits") and "max_cycles" not in kw) or (ci + len(tail)) % (7 if quick else 3) == 0:
                        tail.append((case, jin, of, om if not rm else None, thr))
    # grid corpus (TLC circuits of C09Transform): method == function on every keyword value
    sub = [g for g in (grid_corpus or []) if 1 <= len(g[0]) <= 6]
    for gs, m in [sub[i] for i in sorted(rng.sample(range(len(sub)), min(len(sub), 150 if quick else 1500)))]:
        gfx = [{"name": g["name"], "t": g["t"], "c": g["c"], "v": g["v"], "p": int(round(k_to_angle(g["k"], m["M"]) * 1e6))} for g in gs]
        for op in ("small", "simplify", "redundant", "merge"):
            for kw in option_grid(op)[:: (1 if op != "simplify" else 2)]:
                rf, of, wf, _ = call_form(gfx, 0, op, "fn", kw)
                rm, om, wm, _ = call_form(gfx, 0, op, "method", kw)
                add({"kind": "formeq", "op": op, "out_fn": of, "out_m": om, "w_fn": wf, "w_m": wm, "r_fn": rf, "r_m": rm},
                    {"opt": True, "in": gfx, "fixedN": 0, "op": op, "kw": kw, "check": "formeq"})
    # negative controls
    ctl = []
    for j in jobs:
        if j["kind"] == "thr" and j["T6"] <= 10 and len(ctl) < 20 and any(g["name"] in ("RX", "RZ", "CRZ") and 300 <= abs(g["p"]) <= 900 for g in j["out"]):
            c = copy.deepcopy(j)
            c["out"] = [g for g in c["out"] if not (g["name"] in ("RX", "RZ", "CRZ") and 300 <= abs(g["p"]) <= 900)]
            c["id"] = 10 ** 7 + len(ctl)
            ctl.append(c)
        if j["kind"] == "formeq" and not j["r_fn"] and j["out_m"] and j["out_m"] == j["out_fn"] and len(ctl) < 40 and j["id"] % 50 == 0:
            c = copy.deepcopy(j)
            c["out_m"] = c["out_m"][:-1]
            c["id"] = 10 ** 7 + len(ctl)
            ctl.append(c)
    verdicts, results = tlc.judge("C09ThrTrace", jobs + ctl, "c09/thr_" + tag, {}, max_parallel=min(PAR, 6), timeout=3600)
    for rr in results:
        chk.add_tlc(rr)
    stat = {"formeq": 0, "thr": 0, "failing": 0}
    for j in jobs:
        chk.add_traces(1, "options_" + j["kind"])
        stat[j["kind"]] += 1
        case = meta[j["id"]]
        for cl in json.loads(verdicts[j["id"]]):
            stat["failing"] += 1
            kwname = "+".join(sorted(case["kw"])) or "no-keyword"
            chk.violation("%s:%s:%s" % (OPNAME[case["op"]], cl, kwname),
                          "%s(%s) on %s: clause '%s'" % (OPNAME[case["op"]], case["kw"], json.dumps(case["in"])[:300], cl), case)
    bad_ctl = [c["id"] for c in ctl if not json.loads(verdicts[c["id"]])]
    if bad_ctl or (not ctl and grid_corpus is None):
        raise tlc.TLCError("binding failure: corrupted option records accepted by C09ThrTrace (%d of %d)" % (len(bad_ctl), len(ctl)))
    # (c) numeric tail (labelled: numpy/cirq, not TLC): operator distance allowed by the STATED threshold
    worst = 0.0
    for case, jin, of, om, thr in tail:
        n = max([q for g in jin for q in g["t"] + g["c"]] + [0]) + 1
        for form, out in (("fn", of), ("method", om)):
            if out is None:
                continue
            d = operator_distance(jin, out, n)
            bound = len(jin) * thr / 2 + 1e-7
            worst = max(worst, d - bound)
            if d > bound:
                chk.violation("%s:numeric-tail-distance-exceeds-threshold-bound:%s" % (OPNAME[case["op"]], form),
                              "operator distance %.3g > %d gates * threshold %g / 2" % (d, len(jin), thr), dict(case, check="tail", form=form))
    chk.part("options_" + tag, **stat, negative_controls=len(ctl), numeric_tail_records=len(tail),
             numeric_tail_note="operator distance via cirq unitaries (numpy), bound = gates * stated threshold / 2; labelled numeric tail, "
                               "not decided by TLC", keyword_values={"param_threshold": [t for t in THR_VALUES], "max_cycles": [None, 0, 1, 2],
                                                                     "remove_qubits": [False, True]})


# ------------------------------------------------------------------------------------------------------
def run(chk):
    rng = random.Random(chk.seed)
    quick = chk.quick
    expected_counterexample(chk)
    runs = plan_runs(chk)
    import concurrent.futures as cf
    with cf.ThreadPoolExecutor(max_workers=1) as ex:      # the fixed-point option checks run next to the ring-engine S phase
        fut = ex.submit(options_part, chk, random.Random(chk.seed + 7), None)
        results = tlc.run_many([r[1] for r in runs], max_parallel=min(PAR, 6))
        fut.result()
    corpus = []          # (gates, meta)
    alphabet, alphabet3 = {}, {}
    for (name, kw, meta), r in zip(runs, results):
        if not r.ok:
            raise tlc.TLCError("C09Transform: an algorithm model / lemma is violated in the specification itself (%s): %s\n%s"
                               % (name, r.violated, r.out[-2500:]))
        account(chk, r, "S_" + name)
        circs = r.prints("CIRC")
        seen = set()
        n = 0
        for gs in circs:
            key = json.dumps(gs, sort_keys=True)
            if key in seen:
                continue
            seen.add(key)
            corpus.append((gs, meta))
            n += 1
            if len(gs) == 1 and meta["role"] in ("pairs", "alpha"):
                (alphabet if len(meta["qs"]) <= 2 else alphabet3)[key] = gs[0]
        chk.part("S_" + name, circuits_exported=n, qubits=meta["qs"], role=meta["role"])
    if not corpus:
        raise tlc.TLCError("generator exported no circuit")
    options_part(chk, random.Random(chk.seed + 8), corpus)
    # ---- cases ------------------------------------------------------------------------------------------
    cases = []
    by_role = {}
    for gs, meta in corpus:
        by_role.setdefault((meta["role"], tuple(meta["qs"])), []).append((gs, meta))
    for (role, _), lst in sorted(by_role.items()):
        if role == "alpha":
            continue
        if role == "sim":
            full_idx = set(range(len(lst)))
        else:
            n_full = min(len(lst), 100 if quick else 1500)
            full_idx = set(rng.sample(range(len(lst)), n_full))
        for i, (gs, meta) in enumerate(lst):
            qs = meta["qs"]
            others = [lst[rng.randrange(len(lst))][0] for _ in range(3)]
            fixed_opts = [0, 0, max(qs) + 1, max(qs) + 2, max(qs) + 3]
            if role == "sandwich":
                # every sandwich goes through the three passes that track the last gate per qubit (function forms);
                # a seeded subset additionally through the method forms and the rest of the family
                base = {"in": gs, "fixedN": rng.choice(fixed_opts), "M": meta["M"]}
                new = [dict(base, kind="merge", form="fn"), dict(base, kind="redundant", form="fn", rq=False),
                       dict(base, kind="simplify", form="fn", rq=False)]
                if i in full_idx:
                    new += [dict(base, **f) for f in SIMP_MORE] + [dict(base, kind="inverse")]
                cases += new
                continue
            if role != "sim" and quick and i not in full_idx and len(gs) == 3 and i % 4:
                continue          # thin the length-3 BFS corpus in the quick tier
            new = cases_for(gs, qs, rng, others, i in full_idx, fixed_opts)
            for c in new:
                c["M"] = meta["M"]
            cases += new
    al = sorted(alphabet.values(), key=lambda g: json.dumps(g, sort_keys=True))
    # variational twins and a 3-qubit placement so that flags / extra controls are part of the == pairs
    extra = [dict(g, v=True) for g in al if g["name"] in PARAM_GATES][::5]
    extra += [dict(g, c=g["c"] + [2]) for g in al if g["c"]][::4]
    al3 = sorted(alphabet3.values(), key=lambda g: json.dumps(g, sort_keys=True))
    gcases = gate_cases(al + extra, al3, rng, quick)
    cases += gcases
    # ---- execute against the implementation ----------------------------------------------------------------
    jobs, meta = [], {}
    for case in cases:
        try:
            job = execute(case)
        except OffGrid:
            chk.inconclusive += 1
            continue
        except EnabledRaised as e:
            chk.add_traces(1, case["kind"])
            chk.violation(violation_key(case, "exception"), "valid call raised: %s" % e, case)
            continue
        job["id"] = len(jobs) + 1
        jobs.append(job)
        meta[job["id"]] = case
    # ---- negative controls -------------------------------------------------------------------------------------
    ctl = []
    per_kind = {}
    for job in jobs:
        k = job["kind"]
        if per_kind.get(k, 0) >= (3 if quick else 12):
            continue
        if k != "gateeq" and not (job.get("out") or job.get("parts")):
            continue
        cs = corrupt(job)
        if cs:
            per_kind[k] = per_kind.get(k, 0) + 1
        for what, cj in cs:
            cj["id"] = 10 ** 7 + len(ctl)
            ctl.append((what, cj))
    # ---- judge --------------------------------------------------------------------------------------------------
    alljobs = jobs + [c for _, c in ctl]
    random.Random(chk.seed + 1).shuffle(alljobs)       # balance the chunks (3/4-qubit records are the expensive ones)
    verdicts, results = {}, []
    groups = {}
    for j in alljobs:                                   # one batch per angle grid (the ring constant M of the judge)
        groups.setdefault(j.get("M", 8), []).append(j)

    def judge_group(mm):
        sub = groups[mm]
        wsum = sum(len(g) * (m2 // 8) ** 2 for m2, g in groups.items())          # ring products cost ~ M^2
        par = max(2, min(PAR, PAR * len(sub) * (mm // 8) ** 2 // wsum + 1))
        return tlc.judge("C09Trace", sub, "c09/v%d" % mm, {"M": mm}, max_parallel=par, timeout=7200, heap="3g",
                         chunk=min(4000, max(1, (len(sub) + par - 1) // par)))
    import concurrent.futures as cf
    with cf.ThreadPoolExecutor(max_workers=len(groups)) as ex:
        for v, r in ex.map(judge_group, sorted(groups)):
            verdicts.update(v)
            results += r
    for r in results:
        chk.add_tlc(r)
    stats = {}
    for job in jobs:
        case = meta[job["id"]]
        clauses = json.loads(verdicts[job["id"]])
        st = stats.setdefault(job["kind"], {"n": 0, "failing": 0, "drift": 0})
        st["n"] += 1
        if "too-big" in clauses:
            chk.inconclusive += 1
            continue
        chk.add_traces(1, job["kind"])
        if "spec-inconsistent" in clauses or "unknown-kind" in clauses:
            raise tlc.TLCError("C09Trace inconsistent on job %s: %s" % (json.dumps(case)[:500], clauses))
        bad = [c for c in clauses if not c.startswith("~")]
        if "~drift" in clauses and not bad:
            st["drift"] += 1
            chk.spec_drift("%s: output differs from the algorithm model although the contract holds, e.g. %s"
                           % (OPNAME[job["kind"]], json.dumps(case)[:300])) if st["drift"] == 1 else None
        if bad:
            st["failing"] += 1
        for cl in bad:
            chk.violation(violation_key(case, cl), "%s: contract clause '%s' fails (TLC verdict %s)" % (OPNAME[job["kind"]], cl, clauses),
                          case)
    bad_ctl = [(what, cj["kind"]) for what, cj in ctl if not [c for c in json.loads(verdicts[cj["id"]]) if not c.startswith("~")]]
    chk.part("negative_controls", corrupted=len(ctl), rejected=len(ctl) - len(bad_ctl),
             kinds=sorted({cj["kind"] + ":" + what for what, cj in ctl}))
    if bad_ctl:
        raise tlc.TLCError("binding failure: corrupted records accepted by C09Trace: %s" % bad_ctl[:10])
    seen_rec, nontriv = set(), 0
    for job in jobs:
        key = json.dumps({k: v for k, v in job.items() if k != "id"}, sort_keys=True)
        if key in seen_rec:
            continue
        seen_rec.add(key)
        k = job["kind"]
        if k == "gateeq":
            nt = job["eq"]
        elif k == "split":
            nt = len(job["parts"]) > 1 or (job["trim"] and job["parts"] and job["parts"][0] != job["in"])
        elif k in ("add", "stack"):
            nt = bool(job["out"])
        elif k == "clifford":
            nt = bool(job["out"])
        else:
            nt = job["out"] != job["in"]
        nontriv += 1 if nt else 0
    chk.add_eval(len(jobs), nontriv)
    chk.part("V_distinct", distinct_records=len(seen_rec), nontrivial=nontriv,
             rule="distinct recorded tuples; non-trivial = output gate list differs from the input's (== returned True for gate pairs, "
                  "more than one / re-labelled part for split, non-empty result for + / stack / Clifford decomposition)")
    missing = [k for k in OPNAME if k not in stats]
    if missing:
        raise tlc.TLCError("vacuity: no record judged for %s" % missing)
    chk.part("V", jobs=len(jobs), by_kind=stats, circuits=len(corpus), gate_pairs=sum(1 for c in gcases if c["kind"] == "gateeq"))
    for kind in ("simplify", "stack", "reindex"):
        ex = next((j for j in jobs if j["kind"] == kind and j.get("out")), None)
        if ex:
            chk.sample({"kind": kind, "case": meta[ex["id"]], "verdict": json.loads(verdicts[ex["id"]])})
    chk.cov["rule"] = ("TLC (C09Transform) generates the circuits: all pairs on equal targets/controls over the alphabet x angle set, "
                       "all circuits of length<=3 over a reduced alphabet, -simulate circuits on qubit sets with gaps/wide indices; "
                       "each is built as a real Circuit (random fixed width >= used or free), every transformation is called and the "
                       "record (in, args, out, in-after) is judged by TLC (C09Trace) with exact unitaries up to phase")
    chk.assumptions += ["angles on the 2pi/8 grid (entries of the gate matrices are degree-1 trigonometric polynomials in theta/2; the "
                        "period classes 0, 2pi, 4pi, negative are on the grid)",
                        "equivalence is judged on the qubits touched by input or output (idle qubits carry the identity), at most 5",
                        "remove_small_rotations thresholds: 1e-9, 1e-3 (nothing but exact identities dropped on the grid) and 2.0 "
                        "(contract: only rotations within the threshold of an identity-up-to-phase may be deleted)"]


def replay(chk, rec):
    """Re-executes the recorded call against the implementation and lets TLC judge the fresh record.  The case is
    reproduced when the clause named in the report key fails again (other clauses of the same record - e.g. a listed
    known finding - are printed but do not decide)."""
    case = rec["case"]
    clause = rec.get("key", "::").split(":")[1] if rec.get("key") else None
    if case.get("opt"):
        gs, n, op, kw = case["in"], case["fixedN"], case["op"], case["kw"]
        rf, of, wf, af = call_form(gs, n, op, "fn", kw)
        rm, om, wm, _ = call_form(gs, n, op, "method", kw)
        print("%s(%s) on %s" % (OPNAME[op], kw, json.dumps(gs)))
        print("  function form: raised=%s width=%s gates=%s" % (rf, wf, json.dumps(of)))
        print("  method form  : raised=%s width=%s gates=%s" % (rm, wm, json.dumps(om)))
        jin = dump_fx(build_fx(gs, n))
        t6 = int(round(kw.get("param_threshold", 1e-3) * 1e6))
        jobs = [{"id": 1, "kind": "formeq", "op": op, "out_fn": of, "out_m": om, "w_fn": wf, "w_m": wm, "r_fn": rf, "r_m": rm}]
        if (op == "small" or (op == "simplify" and kw.get("max_cycles") != 0)) and not rf and not rm:
            jobs += [{"id": 2, "kind": "thr", "op": op, "in": jin, "out": of, "after": af, "inplace": False, "T6": t6},
                     {"id": 3, "kind": "thr", "op": op, "in": jin, "out": om, "after": [], "inplace": True, "T6": t6}]
        v, _ = tlc.judge("C09ThrTrace", jobs, "c09/replay", {})
        cl = [c for k in v for c in json.loads(v[k])]
        if case.get("check") == "tail":
            nq = max([q for g in jin for q in g["t"] + g["c"]] + [0]) + 1
            thr = kw.get("param_threshold", 1e-3)
            out = of if case.get("form") == "fn" else om
            d = operator_distance(jin, out, nq)
            print("  numeric tail: distance %.3g, bound %.3g" % (d, len(jin) * thr / 2 + 1e-7))
            return d <= len(jin) * thr / 2 + 1e-7
        print("  TLC verdict:", cl)
        return clause not in cl
    try:
        job = execute(case)
    except EnabledRaised as e:
        print("valid call raised:", e)
        return clause not in (None, "exception")
    job["id"] = 1
    verdicts, _ = tlc.judge("C09Trace", [job], "c09/replay", {"M": job["M"]})
    clauses = json.loads(verdicts[1])
    print("case:", json.dumps(case)[:1500])
    print("recorded job:", json.dumps({k: v for k, v in job.items() if k != "id"})[:2500])
    print("TLC verdict (failing clauses):", clauses, " clause of the report:", clause)
    bad = [c for c in clauses if not c.startswith("~")]
    return (clause not in bad) if clause else not bad


if __name__ == "__main__":
    check.main("C09", run, replay)
