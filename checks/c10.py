#!/venv/bin/python
"""C10 - mid-circuit measurement and classical control follow the Born rule.

S: TLC model-checks spec/C10Measure.tla: TLC itself builds programs over {H, X, RY(pi/2), T, CNOT, MEASURE, CMEASURE
   (nested)} (exhaustively for small bounds, -simulate for larger ones) and runs the exact one-shot Born-rule machine on
   them (unnormalised branch vectors over the ring R_8).  Invariants in every run state: conservation of probability over
   the terminal branches (sum_b p_b = 1), agreement of sum_b |psi_b[i]|^2 with an independent density-matrix semantics
   (spec/Density.tla), applied gates = structural selection by the outcome string, prefix-freeness of outcome strings.
G: every program is exported with its complete branch table (live and probability-zero leaves).  The driver renders the
   control map as dictionary / function / ClassicalControl subclass and replays every (program, outcome string) on the
   cirq backend: success probability, sqrt(p_b) * statevector = psi_b (phase included), frequencies, all_frequencies,
   mid_circuit_meas_freqs, applied_gates, generate_applied_gates; probability-0 and wrong-length strings must raise;
   sampled modes (n_shots, save_mid_circuit_meas on/off, desired result, one shot + statevector) within 6-sigma bands
   of the exact values with support inside the exact support.
W: "wide register" families (spec/C10Wide.tla, M = 64): product circuits of 1-2 qubit blocks on 8-10 qubits with 2-4 MEASURE
   gates, and 3 qubits with 12 MEASURE gates, i.e. MORE THAN TEN key positions; TLC gives the exact block distributions
   (product lemma checked) with pairwise different marginals on all key positions; every bit position of all_frequencies /
   mid_circuit_meas_freqs / (post-selected) frequencies is compared with its own marginal, block joints and support included.
"""
import copy
import math
import os
import random
import sys
import warnings

sys.path.insert(0, os.path.join(os.path.dirname(os.path.abspath(__file__)), "..", "harness"))
import check  # noqa: E402
import tlc  # noqa: E402
from ring import to_complex  # noqa: E402
from enc import json_to_gate, gate_to_json, OffGrid  # noqa: E402

import numpy as np  # noqa: E402

M = 8
TOL = 1e-9
SPLICE = "cmeasure:nested-measure-before-outer-measure"
INIT_IGNORED = "sampled:static:save_mid:initial_statevector"

CFG = """CONSTANTS M = 8
N = %(N)d
MaxLen = %(L)d
MaxMeas = %(MM)d
MinMeas = %(mm)d
MaxNest = %(nest)d
UNames <- %(names)s
Export = %(exp)s
CheckRho = %(rho)s
INIT Init
NEXT Next
INVARIANT Conservation
INVARIANT TotalProbabilityOne
INVARIANT DephasedAgree
INVARIANT AppliedIsSelection
INVARIANT PrefixFree
INVARIANT DeadUnreachable
INVARIANT AlphabetOK
"""
ACTIONS = ["AddU", "AddM", "OpenC", "Switch", "Close", "Done", "Unitary", "MeasureTo", "Expand", "Finish"]


def cfg(N, L, MM, mm, nest, names="NamesFull", export=True, rho=True):
    return CFG % dict(N=N, L=L, MM=MM, mm=mm, nest=nest, names=names, exp="TRUE" if export else "FALSE",
                      rho="TRUE" if rho else "FALSE")



class Res:
    """Light-weight view of a TLC result (what the driver needs); cacheable for mutation experiments
    (VERIF_DEV_CACHE=<dir> is a development aid only: the registered commands never set it)."""
    def __init__(self, d):
        self.__dict__.update(d)

    def prints(self, tag):
        return self.p.get(tag, [])

    def tuples(self, tag):
        return self.t.get(tag, [])

    def coverage_counts(self):
        return self.cov


def run_jobs(jobs, tags, ttags, cache_name, max_parallel=int(os.environ.get("VERIF_MAXPAR", "10"))):
    import json as _json
    cdir = os.environ.get("VERIF_DEV_CACHE")
    path = os.path.join(cdir, cache_name + ".json") if cdir else None
    if path and os.path.exists(path):
        with open(path) as f:
            return [Res(d) for d in _json.load(f)]
    rs = tlc.run_many(jobs, max_parallel=max_parallel)
    out = [dict(name=r.name, ok=r.ok, violated=r.violated, out=r.out[-2500:], generated=r.generated, distinct=r.distinct, wall=r.wall,
                p={t: r.prints(t) for t in tags}, t={t: r.tuples(t) for t in ttags}, cov=r.coverage_counts()) for r in rs]
    if path:
        os.makedirs(cdir, exist_ok=True)
        with open(path, "w") as f:
            _json.dump(out, f)
    return [Res(d) for d in out]

def bitstr(i, n):
    return format(i, "0%db" % n) if n else ""


# ------------------------------------------------------------------------------------------------------------
# program records (TLC export) -> Python
# ------------------------------------------------------------------------------------------------------------
def is_meas(ins):
    return ins["name"] in ("MEASURE", "CMEASURE")


def has_cm(prog):
    return any(ins["name"] == "CMEASURE" for ins in prog)


def prepare(pg):
    n = pg["n"]
    pg["_s0"] = np.array([to_complex(e, M) for e in pg["s0"]], dtype=complex)
    pg["_marg"] = {bitstr(i, n): to_complex(e, M).real for i, e in enumerate(pg["marg"])}
    for b in pg["br"]:
        b["_outs"] = "".join(str(x) for x in b["outs"])
        b["_p"] = to_complex(b["p"], M).real
        b["_psi"] = np.array([to_complex(e, M) for e in b["psi"]], dtype=complex)
    pg["br"].sort(key=lambda b: b["_outs"])
    pg["_cm"] = has_cm(pg["prog"])
    return pg


def strip(pg):
    """JSON-able copy without the derived fields."""
    out = {k: v for k, v in pg.items() if not k.startswith("_")}
    out["br"] = [{k: v for k, v in b.items() if not k.startswith("_")} for b in pg["br"]]
    return out


def splice_class(prog, outs):
    """Structural class of (program, outcome string): some executed CMEASURE selects a sub-program that itself contains a
    measurement while further measurements are still pending at the enclosing levels."""
    pending = list(prog)
    o = [int(x) for x in outs]
    while pending:
        ins = pending.pop(0)
        if ins["name"] == "MEASURE":
            if not o:
                return False
            o.pop(0)
        elif ins["name"] == "CMEASURE":
            if not o:
                return False
            sub = ins["ctl"][o.pop(0)]
            if any(is_meas(x) for x in sub) and any(is_meas(x) for x in pending):
                return True
            pending = list(sub) + pending
    return False


def is_nested(pg):
    return any(has_cm(ins["ctl"][0]) or has_cm(ins["ctl"][1]) for ins in pg["prog"] if ins["name"] == "CMEASURE")


def klass(pg, outs=None):
    if not pg["_cm"]:
        return "static"
    if outs is None:
        hit = any(splice_class(pg["prog"], b["_outs"]) for b in pg["br"])
    else:
        hit = splice_class(pg["prog"], outs)
    return SPLICE if hit else "cmeasure"


# ------------------------------------------------------------------------------------------------------------
# rendering of the control map: dictionary parameter / function / ClassicalControl subclass
# ------------------------------------------------------------------------------------------------------------
def control_table(prog):
    """history of CMEASURE outcomes (string) -> sub-program selected by the last of them."""
    table = {}

    def walk(pending, hist):
        for idx, ins in enumerate(pending):
            if ins["name"] == "CMEASURE":
                for b in (0, 1):
                    sub = ins["ctl"][b]
                    table[hist + str(b)] = sub
                    walk(list(sub) + list(pending[idx + 1:]), hist + str(b))
                return
    walk(list(prog), "")
    return table


def to_gates(prog, style):
    from tangelo.linq import Gate
    out = []
    for ins in prog:
        if ins["name"] == "MEASURE":
            out.append(Gate("MEASURE", ins["t"][0]))
        elif ins["name"] == "CMEASURE":
            if style == "dict":
                out.append(Gate("CMEASURE", ins["t"][0], parameter={"0": to_gates(ins["ctl"][0], style),
                                                                    "1": to_gates(ins["ctl"][1], style)}))
            else:
                out.append(Gate("CMEASURE", ins["t"][0]))
        else:
            out.append(json_to_gate(ins, M))
    return out


_ctl_cls = {}


def control_object(prog, style):
    from tangelo.linq import ClassicalControl
    table = {h: to_gates(sub, style) for h, sub in control_table(prog).items()}
    if "cls" not in _ctl_cls:
        class TableControl(ClassicalControl):
            def __init__(self, table):
                self.table, self.hist, self.finalized = table, "", 0

            def return_gates(self, measurement):
                self.hist += measurement
                return list(self.table[self.hist])

            def finalize(self):
                self.hist = ""
                self.finalized += 1

        class TableFunction:      # a plain callable with state (reset by the driver between runs)
            def __init__(self, table):
                self.table, self.hist = table, ""

            def __call__(self, measurement):
                self.hist += measurement
                return list(self.table[self.hist])
        _ctl_cls["cls"], _ctl_cls["func"] = TableControl, TableFunction
    return _ctl_cls["cls" if style == "class" else "func"](table)


def render(pg, style):
    """-> (Circuit, control object or None)."""
    from tangelo.linq import Circuit
    ctl = None
    if pg["_cm"] and style in ("func", "class"):
        ctl = control_object(pg["prog"], style)
    c = Circuit(to_gates(pg["prog"], style), n_qubits=pg["n"], cmeasure_control=ctl)
    return c, ctl


def reset(ctl):
    if ctl is not None:
        ctl.hist = ""


def init_vec(pg, explicit_zero=False):
    if pg["src"] == "zero" and not explicit_zero:
        return None
    return np.array(pg["_s0"], dtype=complex)


_backends = {}


def backend(**kw):
    from tangelo.linq import get_backend
    key = tuple(sorted(kw.items()))
    if key not in _backends:
        _backends[key] = get_backend("cirq", **kw)
    return _backends[key]


def applied_json(gs, keep_outcome=True):
    out = []
    for g in gs:
        if g.name in ("MEASURE", "CMEASURE"):
            par = g.parameter
            k = int(par) if (isinstance(par, str) and par in ("0", "1")) else None
            out.append({"name": g.name, "t": [int(x) for x in g.target], "c": [], "k": k if keep_outcome else None})
        else:
            try:
                out.append(gate_to_json(g, M))
            except OffGrid:
                out.append({"name": g.name, "t": list(g.target), "c": list(g.control or []), "k": "offgrid"})
    return out


def spec_applied(applied, keep_outcome=True):
    return [{"name": a["name"], "t": list(a["t"]), "c": list(a["c"]),
             "k": (a["k"] if (keep_outcome or a["name"] not in ("MEASURE", "CMEASURE")) else None)} for a in applied]


def cmp_dist(got, exp, tol=TOL):
    """exact comparison of a frequency dictionary with the exact distribution (keys = exact support)."""
    exp = {k: v for k, v in exp.items() if v > 1e-12}
    try:
        got = {k: float(np.real(v)) for k, v in got.items()}
    except Exception as e:
        return "malformed dictionary %r (%s)" % (got, e)
    if set(got) != set(exp):
        return "keys %s != exact support %s" % (sorted(got), sorted(exp))
    err = max(abs(got[k] - exp[k]) for k in exp)
    if err > tol:
        return "values differ by %.3g: %s vs exact %s" % (err, got, exp)
    return None


def band(got, exp, shots, what):
    """6-sigma band + support inside the exact support."""
    exp = {k: v for k, v in exp.items() if v > 1e-12}
    if abs(sum(got.values()) - 1) > 1e-9:
        return "%s sums to %r" % (what, sum(got.values()))
    for k in got:
        if k not in exp:
            return "%s: sampled key %r outside the exact support %s" % (what, k, sorted(exp))
    for k in set(exp) | set(got):
        p, f = exp.get(k, 0.0), got.get(k, 0.0)
        if abs(f - p) > 6 * math.sqrt(max(p * (1 - p), 0) / shots) + 1.5 / shots:
            return "%s: frequency %.4f of %r outside the 6-sigma band of p=%.6f (n_shots=%d)" % (what, f, k, p, shots)
    return None


# ------------------------------------------------------------------------------------------------------------
# exact mode: one (program, outcome string)
# ------------------------------------------------------------------------------------------------------------
def exact_branch(pg, br, style, circ=None, ctl=None, explicit_zero=False):
    """Replay one live branch. Returns list of (aspect, detail)."""
    n, bs, p, psi = pg["n"], br["_outs"], br["_p"], br["_psi"]
    if circ is None:
        circ, ctl = render(pg, style)
    reset(ctl)
    sim = backend()
    fails = []
    try:
        with warnings.catch_warnings():
            warnings.simplefilter("ignore")
            f, sv = sim.simulate(circ, desired_meas_result=bs, return_statevector=True,
                                 initial_statevector=init_vec(pg, explicit_zero))
    except Exception as e:
        return [("exception", "live outcome string %r (p=%.6g) raised %s: %s" % (bs, p, type(e).__name__, str(e)[:200]))]
    got_p = circ.success_probabilities.get(bs)
    if got_p is None or abs(got_p - p) > TOL:
        fails.append(("probability", "success_probabilities[%r] = %r, exact p_b = %.12g" % (bs, got_p, p)))
    sv = np.array(sv, dtype=complex).ravel()
    if sv.shape != psi.shape:
        fails.append(("statevector", "statevector of length %d" % len(sv)))
    else:
        err = float(np.max(np.abs(sv * math.sqrt(p) - psi)))
        if err > TOL:
            fails.append(("statevector", "sqrt(p_b)*statevector differs from the exact unnormalised branch vector by %.3g" % err))
    fexp = {bitstr(i, n): abs(a) ** 2 / p for i, a in enumerate(psi)}
    bad = cmp_dist(f, fexp)
    if bad:
        fails.append(("frequencies", bad))
    bad = cmp_dist(getattr(sim, "all_frequencies", {}), {bs + k: v for k, v in fexp.items()})
    if bad:
        fails.append(("all_frequencies", bad))
    bad = cmp_dist(getattr(sim, "mid_circuit_meas_freqs", {}), {bs: 1.0})
    if bad:
        fails.append(("mid_circuit_meas_freqs", bad))
    got_app = applied_json(circ.applied_gates, keep_outcome=pg["_cm"])
    exp_app = spec_applied(br["applied"], keep_outcome=pg["_cm"])
    if got_app != exp_app:
        fails.append(("applied_gates", "applied_gates %s != gates selected by the outcomes %s" % (got_app, exp_app)))
    if style == "class" and ctl is not None and ctl.hist != "":
        fails.append(("finalize", "ClassicalControl.finalize not called after the run"))
    return fails


def must_raise(pg, bs, style, what):
    """A string that denotes no branch of non-zero probability must be rejected."""
    circ, ctl = render(pg, style)
    sim = backend()
    try:
        with warnings.catch_warnings():
            warnings.simplefilter("ignore")
            f, sv = sim.simulate(circ, desired_meas_result=bs, return_statevector=True, initial_statevector=init_vec(pg))
    except Exception:
        return []
    return [(what, "desired_meas_result=%r accepted (returned p=%r, frequencies %s)" % (bs, circ.success_probabilities.get(bs), f))]


def gen_applied(pg, br, style):
    from tangelo.linq import generate_applied_gates
    circ, ctl = render(pg, style)
    try:
        with warnings.catch_warnings():
            warnings.simplefilter("ignore")
            gs = generate_applied_gates(circ, desired_meas_result=br["_outs"])
    except Exception as e:
        return [("generate_applied_gates", "raised %s: %s" % (type(e).__name__, str(e)[:200]))]
    got, exp = applied_json(gs), spec_applied(br["applied"])
    if got != exp:
        return [("generate_applied_gates", "%s != gates selected by %r: %s" % (got, br["_outs"], exp))]
    return []


_seen = {}


def viol(chk, key, detail, case):
    """chk.violation keeps at most 50 replay files: report each key at most twice, count the rest."""
    if chk.match_known(key) is None:
        _seen[key] = _seen.get(key, 0) + 1
        if _seen[key] > 2:
            return
    chk.violation(key, detail, case)


def report(chk, pg, outs, fails, kind, style, extra=None):
    for aspect, detail in fails:
        key = "%s:%s" % (klass(pg, outs), aspect)
        case = {"kind": kind, "pg": strip(pg), "outs": outs, "style": style}
        if extra:
            case.update(extra)
        viol(chk, key, "[%s rendering, n=%d, init=%s] %s" % (style, pg["n"], pg["src"], detail), case)


def replay_program_exact(chk, pg, styles, rng, count=True):
    live = [b for b in pg["br"] if not b["dead"]]
    dead = [b for b in pg["br"] if b["dead"]]
    n_checked = 0
    for style in styles:
        circ, ctl = render(pg, style)
        for br in live:
            fails = exact_branch(pg, br, style, circ, ctl)
            report(chk, pg, br["_outs"], fails, "exact", style)
            n_checked += 1
        # the probabilities recorded on the circuit object accumulate over the calls and sum to one
        if klass(pg) != SPLICE:
            sp = dict(circ.success_probabilities)
            bad = cmp_dist(sp, {b["_outs"]: b["_p"] for b in live})
            if bad is None and abs(sum(sp.values()) - 1) > 1e-9:
                bad = "recorded branch probabilities sum to %r" % sum(sp.values())
            if bad:
                report(chk, pg, None, [("success_probabilities", bad)], "exact-all", style)
        for br in dead:
            report(chk, pg, br["_outs"], must_raise(pg, br["_outs"], style, "zero-prob-accepted"), "dead", style)
            n_checked += 1
        if pg["_cm"]:
            for br in pg["br"]:
                report(chk, pg, br["_outs"], gen_applied(pg, br, style), "gen_applied", style)
                n_checked += 1
    # wrong-length strings (dictionary rendering)
    style = styles[0]
    if not pg["_cm"]:
        bs = live[0]["_outs"]
        for w in (bs[:-1], bs + "0", bs + "1"):
            report(chk, pg, w, must_raise(pg, w, style, "wrong-length-accepted"), "wrong-length", style)
            n_checked += 1
    else:
        full = {b["_outs"] for b in pg["br"]}
        pre = sorted({b["_outs"][:j] for b in live for j in range(1, len(b["_outs"]))} - full)
        for w in pre[:3]:
            report(chk, pg, w, must_raise(pg, w, style, "wrong-length-accepted"), "wrong-length", style)
            n_checked += 1
    # explicit |0..0> initial vector must equal the default
    if pg["src"] == "zero" and live:
        br = rng.choice(live)
        report(chk, pg, br["_outs"], exact_branch(pg, br, styles[0], explicit_zero=True), "exact-zero-init", styles[0])
        n_checked += 1
    if count:
        chk.add_traces(n_checked, "exact_" + ("cmeasure" if pg["_cm"] else "static"))
    return n_checked


# ------------------------------------------------------------------------------------------------------------
# sampled modes
# ------------------------------------------------------------------------------------------------------------
def sampled(pg, mode, shots, seed, style, outs=None):
    """Returns list of (aspect, detail)."""
    n = pg["n"]
    live = [b for b in pg["br"] if not b["dead"]]
    joint = {b["_outs"] + bitstr(i, n): abs(a) ** 2 for b in live for i, a in enumerate(b["_psi"])}
    mid = {b["_outs"]: b["_p"] for b in live}
    circ, ctl = render(pg, style)
    iv = init_vec(pg)
    fails = []
    np.random.seed(seed)
    try:
        with warnings.catch_warnings():
            warnings.simplefilter("ignore")
            if mode == "nosave":
                sim = backend(n_shots=shots)
                f, _ = sim.simulate(circ, initial_statevector=iv)
                bad = band(f, pg["_marg"], shots, "frequencies")
                return [("sampled:nosave", bad)] if bad else []
            if mode == "save":
                sim = backend(n_shots=shots)
                f, _ = sim.simulate(circ, save_mid_circuit_meas=True, initial_statevector=iv)
                for what, got, exp in (("frequencies", f, pg["_marg"]), ("all_frequencies", sim.all_frequencies, joint),
                                       ("mid_circuit_meas_freqs", sim.mid_circuit_meas_freqs, mid)):
                    bad = band(got, exp, shots, what)
                    if bad:
                        fails.append(("sampled:save", bad))
                return fails
            if mode in ("desired", "desired+sv"):
                br = [b for b in live if b["_outs"] == outs][0]
                fexp = {bitstr(i, n): abs(a) ** 2 / br["_p"] for i, a in enumerate(br["_psi"])}
                sim = backend(n_shots=shots)
                f, sv = sim.simulate(circ, desired_meas_result=outs, initial_statevector=iv, return_statevector=(mode == "desired+sv"))
                allf, midf = dict(sim.all_frequencies), dict(sim.mid_circuit_meas_freqs)
                # two conforming behaviours: every shot is a success (all keys start with the desired string), or the
                # shots are unconditioned draws and the returned frequencies are post-selected from them
                n_succ = int(round(shots * sum(v for k, v in allf.items() if k.startswith(outs))))
                conditioned = all(k.startswith(outs) for k in allf)
                if n_succ == 0:
                    return [("inconclusive", "no shot showed the desired outcome")]
                if mode == "desired+sv":
                    sv = np.array(sv, dtype=complex).ravel()
                    err = float(np.max(np.abs(sv * math.sqrt(br["_p"]) - br["_psi"])))
                    if err > TOL:
                        fails.append(("sampled:desired", "returned statevector differs from the exact branch state by %.3g" % err))
                checks = [("frequencies", f, fexp, n_succ)]
                if conditioned:
                    checks += [("all_frequencies", allf, {outs + k: v for k, v in fexp.items()}, shots),
                               ("mid_circuit_meas_freqs", midf, {outs: 1.0}, shots)]
                else:
                    checks += [("all_frequencies", allf, joint, shots), ("mid_circuit_meas_freqs", midf, mid, shots)]
                for what, got, exp, ns in checks:
                    bad = band(got, exp, ns, what)
                    if bad:
                        fails.append(("sampled:desired", bad))
                if style == "class" and ctl is not None and ctl.finalized != shots:
                    fails.append(("sampled:desired", "finalize called %d times for %d shots" % (ctl.finalized, shots)))
                return fails
            if mode == "oneshot":
                sim = backend(n_shots=1)
                f, sv = sim.simulate(circ, save_mid_circuit_meas=True, return_statevector=True, initial_statevector=iv)
                keys = list(sim.mid_circuit_meas_freqs)
                if len(keys) != 1 or keys[0] not in mid or mid[keys[0]] < 1e-12:
                    return [("oneshot", "one shot reported the outcome strings %s, live strings are %s" % (keys, sorted(mid)))]
                br = [b for b in live if b["_outs"] == keys[0]][0]
                sv = np.array(sv, dtype=complex).ravel()
                err = float(np.max(np.abs(sv * math.sqrt(br["_p"]) - br["_psi"])))
                if err > TOL:
                    fails.append(("oneshot", "statevector after the sampled outcomes %r differs from the exact branch state by %.3g" % (keys[0], err)))
                if len(f) != 1 or abs(br["_psi"][int(list(f)[0], 2)]) ** 2 < 1e-12:
                    fails.append(("oneshot", "final sample %s outside the support of branch %r" % (f, keys[0])))
                return fails
    except Exception as e:
        return [("sampled:%s:exception" % mode, "%s: %s" % (type(e).__name__, str(e)[:300]))]
    raise ValueError(mode)


def sampled_circuit_state(pg, shots, seed, style, outs=None):
    """State left on the Circuit object by sampled runs of a CMEASURE program (two successive simulate() calls on the SAME
    object): success_probabilities is a deterministic function of the branch, not a statistic - every entry must equal the
    exact p_b, the keys are exactly the outcome strings observed so far, applied_gates are the gates of the LAST shot's branch."""
    tab = {b["_outs"]: b for b in pg["br"] if not b["dead"]}
    circ, ctl = render(pg, style)
    sim = backend(n_shots=shots)
    iv = init_vec(pg)
    fails, seen = [], set()
    np.random.seed(seed)
    for call in (1, 2):
        try:
            with warnings.catch_warnings():
                warnings.simplefilter("ignore")
                kw = {"desired_meas_result": outs} if outs is not None else {}
                sim.simulate(circ, initial_statevector=iv, **kw)
        except Exception as e:
            return fails + [("circuit-state:exception", "call %d: %s: %s" % (call, type(e).__name__, str(e)[:200]))]
        obs = set(sim.mid_circuit_meas_freqs)
        if outs is not None and obs != {outs}:
            fails.append(("circuit-state:keys", "call %d: observed outcome strings %s with desired_meas_result=%r" % (call, sorted(obs), outs)))
        seen |= obs
        sp = dict(circ.success_probabilities)
        if set(sp) != seen:
            fails.append(("circuit-state:keys", "call %d: success_probabilities has keys %s, outcome strings observed so far %s" % (call, sorted(sp), sorted(seen))))
        for k, v in sp.items():
            if k not in tab:
                fails.append(("circuit-state:keys", "call %d: success_probabilities[%r] for a string that is no live branch" % (call, k)))
            elif abs(v - tab[k]["_p"]) > TOL:
                fails.append(("circuit-state:success_probabilities", "call %d (n_shots=%d): success_probabilities[%r] = %r, exact branch probability %.12g"
                              % (call, shots, k, v, tab[k]["_p"])))
        got = applied_json(circ.applied_gates)
        last = "".join(str(g["k"]) for g in got if g["name"] in ("MEASURE", "CMEASURE"))
        if last not in obs:
            fails.append(("circuit-state:applied_gates", "call %d: applied_gates record the outcomes %r, observed strings %s" % (call, last, sorted(obs))))
        elif last in tab and got != spec_applied(tab[last]["applied"]):
            fails.append(("circuit-state:applied_gates", "call %d: applied_gates %s are not the gates of the last shot's branch %r: %s"
                          % (call, got, last, spec_applied(tab[last]["applied"]))))
        if style == "class" and ctl is not None and (ctl.hist != "" or ctl.finalized != call * shots):
            fails.append(("circuit-state:finalize", "call %d: finalize called %d times after %d shots (history %r)" % (call, ctl.finalized, call * shots, ctl.hist)))
    return fails


def sampled_key(pg, mode, aspect):
    k = klass(pg)
    # both modes go through cirq_simulator.run (all shots at once) when no statevector is requested
    if k == "static" and mode in ("save", "desired") and pg["src"] != "zero":
        return INIT_IGNORED + ":" + aspect
    return "%s:%s" % (k, aspect)


_cs_count = [0]


def replay_program_sampled(chk, pg, rng, shots_small, shots_big):
    live = [b for b in pg["br"] if not b["dead"]]
    todo = []
    if not pg["_cm"]:
        todo += [("nosave", shots_big, "dict", None), ("save", shots_big, "dict", None),
                 ("desired", shots_small, "dict", rng.choice(live)["_outs"]),
                 ("desired+sv", shots_small, "dict", rng.choice(live)["_outs"]), ("oneshot", 1, "dict", None)]
    else:
        st = rng.choice(["dict", "class"])
        todo += [("save", shots_small, st, None), ("desired", max(10, shots_small // 4), rng.choice(["dict", "class"]), rng.choice(live)["_outs"]),
                 ("oneshot", 1, rng.choice(["dict", "class", "func"]), None)]
    if pg["_cm"]:
        # the state carried on the Circuit object after sampled runs: n_shots in {2, 5, 50}, with and without a requested string
        _cs_count[0] += 1
        for shots in ((2, 5, 50) if _cs_count[0] % 3 == 0 else (2, 5)):
            todo += [("circuit-state", shots, rng.choice(["dict", "class"]), None),
                     ("circuit-state", shots, rng.choice(["dict", "class"]), rng.choice(live)["_outs"])]
    for mode, shots, style, outs in todo:
        seed = rng.randrange(2 ** 31)
        fails = sampled_circuit_state(pg, shots, seed, style, outs) if mode == "circuit-state" else sampled(pg, mode, shots, seed, style, outs)
        chk.add_traces(1, "sampled_" + mode)
        for aspect, detail in fails:
            if aspect == "inconclusive":
                chk.inconclusive += 1
                continue
            viol(chk, sampled_key(pg, mode, aspect), "[%s rendering, n=%d, init=%s, n_shots=%d] %s" % (style, pg["n"], pg["src"], shots, detail),
                          {"kind": "sampled", "pg": strip(pg), "mode": mode, "shots": shots, "seed": seed, "style": style, "outs": outs})


def mode_rows(chk, rows, pgs, rng):
    """Enabledness of the call configurations of simulate() (spec: ModeEnabled)."""
    stat = [p for p in pgs if not p["_cm"] and p["src"] == "zero"]
    cm = [p for p in pgs if p["_cm"] and klass(p) == "cmeasure" and p["src"] == "zero"]
    for row in sorted(rows, key=lambda r: sorted(r.items())):
        cand = cm if row["cm"] else stat
        if not cand:
            continue
        pg = rng.choice(cand)
        live = [b for b in pg["br"] if not b["dead"]]
        circ, ctl = render(pg, "dict")
        sim = backend(**({} if row["shots"] == "none" else {"n_shots": 1 if row["shots"] == "one" else 20}))
        kw = dict(save_mid_circuit_meas=row["save"], return_statevector=row["sv"])
        if row["desired"]:
            kw["desired_meas_result"] = max(live, key=lambda b: b["_p"])["_outs"]
        raised = None
        np.random.seed(rng.randrange(2 ** 31))
        try:
            with warnings.catch_warnings():
                warnings.simplefilter("ignore")
                sim.simulate(circ, **kw)
        except Exception as e:
            raised = e
        chk.add_traces(1, "mode_rows")
        case = {"kind": "mode", "pg": strip(pg), "row": row}
        if row["enabled"] and raised is not None:
            viol(chk, "mode:enabled-configuration-raised", "simulate(%s) with n_shots=%s raised %s: %s" % (kw, row["shots"], type(raised).__name__, raised), case)
        if not row["enabled"] and raised is None:
            viol(chk, "mode:mixed-state-configuration-accepted", "simulate(%s) with n_shots=%s on a circuit with measurements did not raise" % (kw, row["shots"]), case)


# ------------------------------------------------------------------------------------------------------------
# wide registers: more than ten key positions (spec/C10Wide.tla, product circuits, M = 64)
# ------------------------------------------------------------------------------------------------------------
MW = 64
WIDE_CFG = 'CONSTANTS M = 64\nFamily = "%s"\nExport = TRUE\nINIT Init\nNEXT Next\nINVARIANT WellFormedLayout\nINVARIANT Distinct\nINVARIANT CondTotal\n'


def prepare_wide(w):
    w["_marg"] = [to_complex(e, MW).real for e in w["marg"]]
    w["_blocks"] = [(list(b["pos"]), {tuple(e["bits"]): to_complex(e["p"], MW).real for e in b["dist"]}) for b in w["blocks"]]
    w["_cond"] = {}
    for c in w["cond"]:
        p = to_complex(c["p"], MW).real
        w["_cond"]["".join(str(x) for x in c["d"])] = (p, [to_complex(e, MW).real / p for e in c["j1"]])
    return w


def strip_wide(w):
    return {k: v for k, v in w.items() if not k.startswith("_")}


def wide_circuit(w):
    from tangelo.linq import Circuit, Gate
    gs = [Gate("MEASURE", g["t"][0]) if g["name"] == "MEASURE" else json_to_gate(g, MW) for g in w["gates"]]
    return Circuit(gs, n_qubits=w["n"])


def pos_band(f, p, shots):
    if p < 1e-12:
        return f == 0.0
    if p > 1 - 1e-12:
        return abs(f - 1.0) < 1e-12
    return abs(f - p) <= 6 * math.sqrt(p * (1 - p) / shots) + 1.5 / shots


def position_marginals(freqs, length, exp, shots, what, tol=None):
    """every key has the right length and every bit POSITION has its own exact marginal."""
    for k in freqs:
        if len(k) != length or set(k) - {"0", "1"}:
            return "%s: malformed key %r (expected %d bits)" % (what, k, length)
    tot = sum(freqs.values())
    if abs(tot - 1) > 1e-9:
        return "%s sums to %r" % (what, tot)
    for pos in range(length):
        f = sum(v for k, v in freqs.items() if k[pos] == "1")
        ok = abs(f - exp[pos]) <= tol if tol is not None else pos_band(f, exp[pos], shots)
        if not ok:
            return "%s: P(bit %d = 1) = %.4f, exact %.6f (n=%d)" % (what, pos, f, exp[pos], shots)
    return None


def joint_blocks(freqs, blocks, shots, what):
    """support inside the exact support and every block's joint distribution within its band."""
    for pos, dist in blocks:
        got = {}
        for k, v in freqs.items():
            sub = tuple(int(k[i]) for i in pos)
            got[sub] = got.get(sub, 0.0) + v
        for sub, f in got.items():
            if dist.get(sub, 0.0) < 1e-12:
                return "%s: bits %s at key positions %s lie outside the exact support" % (what, sub, pos)
        for sub, pr in dist.items():
            if not pos_band(got.get(sub, 0.0), pr, shots):
                return "%s: key positions %s = %s has frequency %.4f, exact %.6f (n=%d)" % (what, pos, sub, got.get(sub, 0.0), pr, shots)
    return None


def permute_keys(freqs, perm):
    out = {}
    for k, v in freqs.items():
        k2 = "".join(k[j] for j in perm)
        out[k2] = out.get(k2, 0.0) + v
    return out


def wide_run(w, mode, shots, seed, record=None):
    """One call on a wide circuit. Returns list of (aspect, detail). record (dict) receives the observed dictionaries."""
    n, nm = w["n"], w["nm"]
    K = n + nm
    circ = wide_circuit(w)
    d = max(w["_cond"], key=lambda x: (w["_cond"][x][0], x))
    pd, cmarg = w["_cond"][d]
    fails = []
    np.random.seed(seed)
    try:
        with warnings.catch_warnings():
            warnings.simplefilter("ignore")
            if mode == "exact":
                sim = backend()
                f, sv = sim.simulate(circ, desired_meas_result=d, return_statevector=True)
                got = circ.success_probabilities.get(d)
                if got is None or abs(got - pd) > TOL:
                    fails.append(("probability", "success_probabilities[%r] = %r, exact %.12g" % (d, got, pd)))
                bad = position_marginals(f, n, cmarg, 1, "frequencies", tol=TOL) or \
                    position_marginals(sim.all_frequencies, K, [float(x) for x in d] + cmarg, 1, "all_frequencies", tol=TOL) or \
                    cmp_dist(sim.mid_circuit_meas_freqs, {d: 1.0})
                if bad:
                    fails.append(("frequencies", bad))
                dead = [x for x in ("".join("1" if (i == 3) != (c == "1") else "0" for i, c in enumerate(d)),) if x not in w["_cond"]]
                for x in dead:      # W2: flipping the second outcome of qubit 0 gives a probability-zero string
                    try:
                        backend().simulate(wide_circuit(w), desired_meas_result=x)
                        fails.append(("zero-prob-accepted", "desired_meas_result=%r accepted" % x))
                    except Exception:
                        pass
                return fails
            if mode in ("save", "desired"):
                sim = backend(n_shots=shots)
                kw = {"save_mid_circuit_meas": True} if mode == "save" else {"desired_meas_result": d}
                f, _ = sim.simulate(circ, **kw)
                allf, midf = dict(sim.all_frequencies), dict(sim.mid_circuit_meas_freqs)
                if record is not None:
                    record.update(allf=allf, midf=midf, f=dict(f))
                conditioned = mode == "desired" and all(k.startswith(d) for k in allf)
                if conditioned:
                    bad = position_marginals(allf, K, [float(x) for x in d] + cmarg, shots, "all_frequencies") or cmp_dist(midf, {d: 1.0})
                else:
                    bad = position_marginals(allf, K, w["_marg"], shots, "all_frequencies") or \
                        joint_blocks(allf, w["_blocks"], shots, "all_frequencies") or \
                        position_marginals(midf, nm, w["_marg"][:nm], shots, "mid_circuit_meas_freqs") or \
                        band(midf, {x: v[0] for x, v in w["_cond"].items()}, shots, "mid_circuit_meas_freqs")
                if bad:
                    fails.append(("joint", bad))
                if mode == "save":
                    bad = position_marginals(f, n, w["_marg"][nm:], shots, "frequencies")
                else:
                    n_succ = shots if conditioned else int(round(shots * sum(v for k, v in allf.items() if k.startswith(d))))
                    if n_succ == 0:
                        return fails + [("inconclusive", "no success")]
                    bad = position_marginals(f, n, cmarg, n_succ, "post-selected frequencies")
                if bad:
                    fails.append(("frequencies", bad))
                return fails
            if mode == "desired+sv":
                sim = backend(n_shots=shots)
                f, sv = sim.simulate(circ, desired_meas_result=d, return_statevector=True)
                allf = dict(sim.all_frequencies)
                bad = position_marginals(f, n, cmarg, shots, "frequencies") or \
                    position_marginals(allf, K, [float(x) for x in d] + cmarg, shots, "all_frequencies") or cmp_dist(sim.mid_circuit_meas_freqs, {d: 1.0})
                if bad:
                    fails.append(("frequencies", bad))
                svm = [float(sum(abs(a) ** 2 for i, a in enumerate(np.array(sv).ravel()) if (i >> (n - 1 - q)) & 1)) for q in range(n)]
                if max(abs(a - b) for a, b in zip(svm, cmarg)) > TOL:
                    fails.append(("statevector", "qubit marginals of the returned state %s differ from the exact branch %s" % (svm, cmarg)))
                return fails
            if mode == "oneshot":
                sim = backend(n_shots=1)
                f, sv = sim.simulate(circ, save_mid_circuit_meas=True, return_statevector=True)
                bad = None
                for k in sim.all_frequencies:
                    if len(k) != K:
                        bad = "key %r has not %d bits" % (k, K)
                    for pos, dist in w["_blocks"]:
                        if len(k) == K and dist.get(tuple(int(k[i]) for i in pos), 0.0) < 1e-12:
                            bad = "one-shot key %r outside the exact support at positions %s" % (k, pos)
                mk = list(sim.mid_circuit_meas_freqs)
                if not bad and (len(mk) != 1 or mk[0] not in w["_cond"]):
                    bad = "mid_circuit_meas_freqs %s is not one live outcome string" % mk
                if not bad:
                    cm = w["_cond"][mk[0]][1]
                    svm = [float(sum(abs(a) ** 2 for i, a in enumerate(np.array(sv).ravel()) if (i >> (n - 1 - q)) & 1)) for q in range(n)]
                    if max(abs(a - b) for a, b in zip(svm, cm)) > TOL:
                        bad = "qubit marginals of the returned state differ from the exact branch %r" % mk[0]
                return [("oneshot", bad)] if bad else []
            if mode == "nosave":
                sim = backend(n_shots=shots)
                f, _ = sim.simulate(circ)
                bad = position_marginals(f, n, w["_marg"][nm:], shots, "frequencies")
                return [("frequencies", bad)] if bad else []
    except Exception as e:
        return fails + [("exception", "%s: %s" % (type(e).__name__, str(e)[:300]))]
    raise ValueError(mode)


def wide_controls(w, rec, shots):
    """Binding control on the recorded data: permuting key positions (the string order '0','1','10','11',...,'2',... and a
    transposition of the last two positions) must be noticed by the position checks."""
    K = w["n"] + w["nm"]
    perms = [sorted(range(K), key=str), list(range(K - 2)) + [K - 1, K - 2], [1, 0] + list(range(2, K))]
    noticed = 0
    for perm in perms:
        pf = permute_keys(rec["allf"], perm)
        if position_marginals(pf, K, w["_marg"], shots, "x") or joint_blocks(pf, w["_blocks"], shots, "x"):
            noticed += 1
    if noticed != len(perms):
        raise tlc.TLCError("binding failure: a permutation of key positions went unnoticed on a wide register (%d/%d)" % (noticed, len(perms)))
    return len(perms)


def replay_wide(chk, wds, rng, quick):
    shots = 3000
    n_ctl = 0
    for w in wds:
        fam = w["family"]
        modes = ["exact", "desired" if fam == "W1" else "save", "desired+sv", "oneshot", "nosave"]
        if not quick:
            modes += ["save" if fam == "W1" else "desired"]
        for mode in modes:
            seed = rng.randrange(2 ** 31)
            rec = {}
            ns = 1 if mode in ("exact", "oneshot") else (shots if mode in ("save", "desired", "nosave") else 2000)
            fails = wide_run(w, mode, ns, seed, rec)
            chk.add_traces(1, "wide_" + mode)
            for aspect, detail in fails:
                if aspect == "inconclusive":
                    chk.inconclusive += 1
                    continue
                viol(chk, "wide:%s:%s:%s" % (fam, mode, aspect), "[%d qubits, %d MEASURE gates, %d keys, n_shots=%s] %s" % (w["n"], w["nm"], w["n"] + w["nm"], ns, detail),
                     {"kind": "wide", "w": strip_wide(w), "mode": mode, "shots": ns, "seed": seed})
            if rec.get("allf") and not fails and any(not k.startswith(max(w["_cond"], key=lambda x: (w["_cond"][x][0], x))) for k in rec["allf"]):
                n_ctl += wide_controls(w, rec, ns)
    chk.part("wide_registers", circuits=len(wds), keys=sorted({w["n"] + w["nm"] for w in wds}), permutation_controls_noticed=n_ctl)


# ------------------------------------------------------------------------------------------------------------
# NUMERIC TAIL (not model checked): near-deterministic measurements, angles OFF the exact grid
# ------------------------------------------------------------------------------------------------------------
# The oracle of this part is plain float arithmetic written out here (statevectors of <= 8 amplitudes): np_apply / np_enum.
# It is validated against TLC's exact branch table on every unperturbed program before it is used on the perturbed one.
TAIL_DELTAS = [1e-2, -1e-2, 3e-3, -3e-3, 1e-3, -1e-3, 1e-4, -1e-4, 1e-6, -1e-6]
TAIL_TOL_P = 1e-9          # recorded probability vs Born probability
TAIL_TOL_STATE = 1e-11     # normalised branch state (an un-projected state is off by sin(delta/2) >= 5e-7)
DEAD2 = 1e-24              # squared norm below which a branch is an exact zero (float residue); rare live branches are >= 2.5e-13


def np_apply(psi, ins, n):
    name, out = ins["name"], np.zeros_like(psi)
    if name == "CNOT":
        c, t = ins["c"][0], ins["t"][0]
        for i in range(len(psi)):
            j = i ^ (1 << (n - 1 - t)) if (i >> (n - 1 - c)) & 1 else i
            out[j] = psi[i]
        return out
    if name == "H":
        m = np.array([[1, 1], [1, -1]], dtype=complex) / math.sqrt(2)
    elif name == "X":
        m = np.array([[0, 1], [1, 0]], dtype=complex)
    elif name == "T":
        m = np.array([[1, 0], [0, np.exp(1j * math.pi / 4)]], dtype=complex)
    elif name == "RY":
        th = ins["theta"] if "theta" in ins else 2 * math.pi * ins["k"] / M
        m = np.array([[math.cos(th / 2), -math.sin(th / 2)], [math.sin(th / 2), math.cos(th / 2)]], dtype=complex)
    else:
        raise ValueError(name)
    q = ins["t"][0]
    sh = n - 1 - q
    for i in range(len(psi)):
        b = (i >> sh) & 1
        i0, i1 = i & ~(1 << sh), i | (1 << sh)
        out[i] = m[b, 0] * psi[i0] + m[b, 1] * psi[i1]
    return out


def np_enum(prog, psi0, n):
    """All outcome strings (exact-zero ones flagged dead) with unnormalised branch vectors, and the measurement events
    (path of the instruction, squared norm before, squared norms of the two projections)."""
    leaves, events = [], []

    def go(pending, psi, outs):
        pending = list(pending)
        while pending:
            ins, path = pending.pop(0)
            if ins["name"] not in ("MEASURE", "CMEASURE"):
                psi = np_apply(psi, ins, n)
                continue
            q = ins["t"][0]
            sh = n - 1 - q
            pr = []
            for b in (0, 1):
                pb = np.array([a if ((i >> sh) & 1) == b else 0 for i, a in enumerate(psi)], dtype=complex)
                pr.append(pb)
            events.append((path, float(np.vdot(psi, psi).real), float(np.vdot(pr[0], pr[0]).real), float(np.vdot(pr[1], pr[1]).real)))
            for b in (0, 1):
                sub = [(x, path + (b, i)) for i, x in enumerate(ins["ctl"][b])] if ins["name"] == "CMEASURE" else []
                go(sub + pending, pr[b], outs + str(b))
            return
        p = float(np.vdot(psi, psi).real)
        leaves.append({"outs": outs, "p": p, "psi": psi, "dead": p < DEAD2})
    go([(x, (i,)) for i, x in enumerate(prog)], np.array(psi0, dtype=complex), "")
    return leaves, events


def insert_before(prog, path, new):
    prog = copy.deepcopy(prog)
    lst = prog
    for j in range(0, len(path) - 1, 2):
        lst = lst[path[j]]["ctl"][path[j + 1]]
    lst[path[-1]:path[-1]] = copy.deepcopy(new)
    return prog


def tail_gates(prog):
    from tangelo.linq import Gate
    out = []
    for ins in prog:
        if ins["name"] == "MEASURE":
            out.append(Gate("MEASURE", ins["t"][0]))
        elif ins["name"] == "CMEASURE":
            out.append(Gate("CMEASURE", ins["t"][0], parameter={"0": tail_gates(ins["ctl"][0]), "1": tail_gates(ins["ctl"][1])}))
        elif "theta" in ins:
            out.append(Gate("RY", ins["t"][0], parameter=ins["theta"]))
        else:
            out.append(json_to_gate(ins, M))
    return out


def tail_case(prog, n, s0, zero_init):
    """Replay every outcome string of one perturbed program. Returns list of (aspect, outs, detail)."""
    from tangelo.linq import Circuit
    leaves, _ = np_enum(prog, s0, n)
    circ = Circuit(tail_gates(prog), n_qubits=n)
    sim = backend()
    fails = []
    iv = None if zero_init else np.array(s0, dtype=complex)
    total = 0.0
    for lf in leaves:
        bs = lf["outs"]
        try:
            with warnings.catch_warnings():
                warnings.simplefilter("ignore")
                f, sv = sim.simulate(circ, desired_meas_result=bs, return_statevector=True, initial_statevector=iv)
        except Exception as e:
            if not lf["dead"]:
                fails.append(("exception", bs, "live outcome string %r (Born probability %.6g) raised %s: %s" % (bs, lf["p"], type(e).__name__, str(e)[:160])))
            continue
        got = circ.success_probabilities.get(bs)
        if lf["dead"]:
            fails.append(("zero-prob-accepted", bs, "outcome string %r has Born probability 0 but was accepted with p = %r" % (bs, got)))
            continue
        total += got if got is not None else 0.0
        if got is None or abs(got - lf["p"]) > TAIL_TOL_P:
            fails.append(("probability", bs, "recorded probability %r, Born probability %.15g (difference %.3g)" % (got, lf["p"], (got or 0) - lf["p"])))
        sv = np.array(sv, dtype=complex).ravel()
        ref = lf["psi"] / math.sqrt(lf["p"])
        err = float(np.max(np.abs(sv - ref)))
        # float residues (~1e-16) of the state before the measurement are amplified by the renormalisation of a RARE branch by
        # 1/sqrt(p); dominant branches (where a missing projection shows, off by sin(delta/2) >= 5e-7) keep the tight tolerance
        if err > TAIL_TOL_STATE + 1e-14 / math.sqrt(lf["p"]):
            fails.append(("projection", bs, "conditional state differs from the exactly projected, renormalised branch state by %.3g "
                          "(amplitudes that contradict the measured bits must vanish)" % err))
        fexp = {bitstr(i, n): abs(a) ** 2 for i, a in enumerate(ref) if abs(a) ** 2 >= 1e-10}
        fgot = {k: float(v) for k, v in f.items()}
        if set(fgot) != set(fexp) or max(abs(fgot[k] - fexp[k]) for k in fexp) > TAIL_TOL_P:
            fails.append(("frequencies", bs, "branch distribution %s, exact %s" % (fgot, fexp)))
    live = [lf for lf in leaves if not lf["dead"]]
    if not any(a in ("exception",) for a, _, _ in fails) and abs(total - 1) > TAIL_TOL_P:
        fails.append(("sum", None, "recorded branch probabilities sum to %.12g over all %d live outcome strings" % (total, len(live))))
    return fails


def numeric_tail(chk, pgs, rng, quick):
    """Near-deterministic measurements: a rotation by delta is inserted in front of a measurement whose outcome is deterministic."""
    want = 14 if quick else 120
    stats = dict(programs=0, perturbed_circuits=0, replayed_outcome_strings=0, start_insertions=0, interior_insertions=0, oracle_validated=0)
    cand = [p for p in pgs if p["n"] <= 3]
    rng.shuffle(cand)
    di = 0
    for pg in cand:
        if stats["programs"] >= want:
            break
        n = pg["n"]
        s0 = pg["_s0"]
        # ---- the float oracle must reproduce TLC's exact table on the unperturbed program -------------
        leaves, events = np_enum(pg["prog"], s0, n)
        tab = {b["_outs"]: b for b in pg["br"]}
        ok = set(tab) == {lf["outs"] for lf in leaves}
        for lf in leaves:
            b = tab.get(lf["outs"])
            ok = ok and b is not None and bool(b["dead"]) == lf["dead"] and abs(b["_p"] - lf["p"]) < 1e-12 and float(np.max(np.abs(b["_psi"] - lf["psi"]))) < 1e-12
        if not ok:
            raise tlc.TLCError("numeric tail: the float oracle disagrees with TLC's exact branch table on %s" % pg["prog"])
        stats["oracle_validated"] += 1
        variants = []
        # (a) at the start of a program run from |0..0>: RY(delta) or RY(pi + delta) on q, then q measured TWICE (idempotence)
        if pg["src"] == "zero":
            q = rng.randrange(n)
            variants.append(("start", (0,), q, rng.choice([0.0, math.pi]), True))
        # (b) in front of an interior measurement whose outcome is deterministic on a live prefix
        det = [(path, p0, p1) for path, pn, p0, p1 in events if pn > 1e-6 and min(p0, p1) < DEAD2]
        if det:
            path, p0, p1 = rng.choice(det)
            ins = pg["prog"]
            for j in range(0, len(path) - 1, 2):
                ins = ins[path[j]]["ctl"][path[j + 1]]
            variants.append(("interior", path, ins[path[-1]]["t"][0], 0.0, False))
        if not variants:
            continue
        stats["programs"] += 1
        for kind, path, q, base, twice in variants:
            for _ in range(2 if quick else 4):
                delta = TAIL_DELTAS[di % len(TAIL_DELTAS)]
                di += 1
                new = [{"name": "RY", "t": [q], "c": [], "k": 0, "theta": base + delta}]
                if twice:
                    new += [{"name": "MEASURE", "t": [q], "c": [], "k": 0}, {"name": "MEASURE", "t": [q], "c": [], "k": 0}]
                prog = insert_before(pg["prog"], path, new)
                fails = tail_case(prog, n, s0, pg["src"] == "zero")
                stats["perturbed_circuits"] += 1
                stats[kind + "_insertions"] += 1
                stats["replayed_outcome_strings"] += len(np_enum(prog, s0, n)[0])
                for aspect, outs, detail in fails:
                    viol(chk, "numeric-tail:%s" % aspect, "[n=%d, RY(%s%+.0e) inserted in front of a deterministic measurement of qubit %d (%s)] %s"
                         % (n, "pi" if base else "0", delta, q, kind, detail),
                         {"kind": "tail", "prog": prog, "n": n, "s0": [[float(z.real), float(z.imag)] for z in s0], "zero": pg["src"] == "zero"})
    chk.part("numeric_tail_near_deterministic_measurements_NOT_model_checked",
             oracle="plain float statevector algebra written out in checks/c10.py (np_apply / np_enum, <= 8 amplitudes); validated against TLC's exact "
                    "branch table on every unperturbed program it is used on",
             deltas=TAIL_DELTAS, tolerance_probability=TAIL_TOL_P, tolerance_state=TAIL_TOL_STATE,
             checked="for every outcome string: recorded probability = Born probability; conditional state = exactly projected renormalised branch "
                     "state; branch distribution; probabilities over all strings sum to 1; contradicting strings (e.g. '01' on a repeated "
                     "measurement) must raise", **stats)


# ------------------------------------------------------------------------------------------------------------
def density_selfcheck(chk):
    r = tlc.run("DensityCheck", "CONSTANT M = 8\nINIT Init\nNEXT Next\n", "c10/density_check", timeout=1800)
    res = r.tuples("LC")
    bad = [t for t in res if t[1] is not True]
    if bad or len(res) < 15:
        raise tlc.TLCError("Density.tla self-check failed: %s" % (bad or "too few checks"))
    chk.part("density_selfcheck", checks=len(res), wall_s=round(r.wall, 1))


def negative_controls(chk, pgs):
    """Binding control: a perturbed branch record must be noticed by the replay (the comparison is not vacuous).
    Only records whose unperturbed replay passes are used (otherwise the failure is reported by the replay itself)."""
    caught = tried = 0
    for pg in pgs:
        live = [b for b in pg["br"] if not b["dead"]]
        if len(live) < 2 or klass(pg) == SPLICE:
            continue
        base = [a for a, _ in exact_branch(pg, live[0], "dict") if a != "mid_circuit_meas_freqs"]
        if base:
            continue
        for field in ("p", "psi", "applied", "outs"):
            q = copy.deepcopy(pg)
            b = [x for x in q["br"] if not x["dead"]][0]
            if field == "p":
                b["_p"] = b["_p"] / 2
                expect = {"probability", "statevector", "frequencies"}
            elif field == "psi":
                b["_psi"] = b["_psi"] * 1j
                expect = {"statevector"}
            elif field == "applied":
                if not pg["_cm"] or not b["applied"]:
                    continue
                b["applied"] = list(reversed(b["applied"]))
                if b["applied"] == list(reversed(b["applied"])):
                    continue
                expect = {"applied_gates"}
            else:
                other = [x for x in q["br"] if not x["dead"]][1]
                if len(other["_outs"]) != len(b["_outs"]):
                    continue
                b["_outs"], other["_outs"] = other["_outs"], b["_outs"]
                expect = {"probability", "statevector", "frequencies", "exception", "applied_gates"}
            fails = exact_branch(q, b, "dict")
            tried += 1
            if {a for a, _ in fails} & expect:
                caught += 1
            else:
                raise tlc.TLCError("binding failure: corrupted %s of a branch record went unnoticed (%s)" % (field, fails))
        if tried >= 12:
            break
    chk.part("negative_controls", corrupted=tried, noticed=caught)


def run(chk):
    rng = random.Random(chk.seed)
    quick = chk.quick
    density_job = dict(module="DensityCheck", cfg="CONSTANT M = 8\nINIT Init\nNEXT Next\n", name="c10/density_check", timeout=1800)
    # ---- S + G: exhaustive small bounds -----------------------------------------------------------
    bfs = [dict(N=1, L=3, MM=2, mm=1, nest=2, names="NamesFull"),
           dict(N=2, L=3, MM=3, mm=2, nest=2, names="NamesHX"),
           dict(N=1, L=4, MM=2, mm=2, nest=2, names="NamesHX")]      # nested CMEASURE with inner gate and tail
    if not quick:
        bfs += [dict(N=1, L=4, MM=3, mm=1, nest=2, names="NamesHX"),
                dict(N=2, L=4, MM=3, mm=2, nest=2, names="NamesHX")]
    sims = [dict(N=2, L=8, MM=3, mm=1, nest=2, names="NamesFull", num=30 if quick else 400),
            dict(N=3, L=9, MM=3, mm=1, nest=2, names="NamesFull", num=20 if quick else 300),
            dict(N=2, L=7, MM=3, mm=2, nest=2, names="NamesSmall", num=30 if quick else 400),
            dict(N=3, L=8, MM=3, mm=3, nest=2, names="NamesSmall", num=10 if quick else 200),
            dict(N=2, L=8, MM=3, mm=3, nest=2, names="NamesHX", num=30 if quick else 400)]
    jobs = [density_job]
    for i, b in enumerate(bfs):
        jobs.append(dict(module="C10Measure", cfg=cfg(b["N"], b["L"], b["MM"], b["mm"], b["nest"], b["names"]),
                         name="c10/bfs%d" % i, workers=4, coverage=(i == 0), heap="6g", timeout=7200))
    for i, s in enumerate(sims):
        jobs.append(dict(module="C10Measure", cfg=cfg(s["N"], s["L"], s["MM"], s["mm"], s["nest"], s["names"]),
                         name="c10/sim%d" % i, workers=1, simulate="num=%d" % s["num"], depth=80, seed=chk.seed + 31 * i + 7,
                         heap="4g", timeout=7200))
    n_main = len(jobs)
    for fam, num in (("W1", 10 if quick else 24), ("W2", 1 if quick else 4)):
        jobs.append(dict(module="C10Wide", cfg=WIDE_CFG % fam, name="c10/wide_" + fam, workers=1, simulate="num=%d" % num, depth=20,
                         seed=chk.seed + 5, coverage=True, timeout=3600))
    results = run_jobs(jobs, ["PG", "MR", "WD"], ["LC"], "c10_" + chk.tier + "_%d" % chk.seed)
    wide_res, results, jobs = results[n_main:], results[:n_main], jobs[:n_main]
    dres = results[0].tuples("LC")
    if len(dres) < 15 or any(t[1] is not True for t in dres):
        raise tlc.TLCError("Density.tla self-check failed: %s" % [t for t in dres if t[1] is not True])
    chk.part("density_selfcheck", checks=len(dres), wall_s=round(results[0].wall, 1))
    pgs_bfs, pgs_sim = [], []
    cov = {}
    for j, r in zip(jobs[1:], results[1:]):
        if not r.ok:
            raise tlc.TLCError("C10Measure: invariant violated in the specification itself: %s\n%s" % (r.violated, r.out[-2500:]))
        chk.add_tlc(r, j["name"].split("/")[1])
        recs = [prepare(pg) for pg in r.prints("PG")]
        (pgs_bfs if "bfs" in j["name"] else pgs_sim).append(recs)
        for a, c in r.coverage_counts().items():
            if a in ACTIONS:
                cov[a] = cov.get(a, 0) + c[1]
    missing = [a for a in ACTIONS if not cov.get(a)]
    if missing:
        raise tlc.TLCError("vacuity: actions never taken in the coverage run: %s" % missing)
    chk.part("action_coverage", **cov)
    # ---- G: replay --------------------------------------------------------------------------------
    n_prog = n_nested = n_splice = 0
    all_pgs = []
    for recs in pgs_bfs:
        # exhaustive sets are large: static programs are sampled, CMEASURE programs kept (seeded)
        nested = [p for p in recs if is_nested(p)]                      # always kept
        cm = [p for p in recs if p["_cm"] and not is_nested(p)]
        stat = [p for p in recs if not p["_cm"]]
        keep_cm = len(cm) if not quick else 160
        keep_st = len(stat) if not quick else 50
        sel = nested + rng.sample(cm, min(keep_cm, len(cm))) + rng.sample(stat, min(keep_st, len(stat)))
        big = len(sel) > 5000           # the largest exhaustive set: second rendering on a seeded third of it
        for pg in sel:
            styles = ["dict"] if (quick or (big and rng.random() > 1 / 3.0)) else ["dict", "class"]
            replay_program_exact(chk, pg, styles, rng)
            n_prog += 1
        all_pgs += sel
    for recs in pgs_sim:
        for i, pg in enumerate(recs):
            styles = ["dict", "func", "class"] if pg["_cm"] else ["dict"]
            replay_program_exact(chk, pg, styles, rng)
            n_prog += 1
            if i % (3 if quick else 2) == 0:
                replay_program_sampled(chk, pg, rng, 200 if quick else 400, 2000 if quick else 10000)
        all_pgs += recs
    for pg in all_pgs:
        if is_nested(pg):
            n_nested += 1
        if klass(pg) == SPLICE:
            n_splice += 1
    # a few exhaustive-set programs also in sampled mode
    for recs in pgs_bfs:
        for pg in rng.sample(recs, min(len(recs), 10 if quick else 60)):
            replay_program_sampled(chk, pg, rng, 200, 2000)
    rows = [r.prints("MR") for r in results[1:] if r.prints("MR")]
    if not rows:
        raise tlc.TLCError("mode table not exported")
    mode_rows(chk, rows[0][0], [p for recs in pgs_sim for p in recs], rng)
    # ---- wide registers (more than ten key positions) ---------------------------------------------------
    wds = []
    wcov = {}
    for r in wide_res:
        if not r.ok or [t for t in r.tuples("LC") if t[1] is not True] or not r.tuples("LC"):
            raise tlc.TLCError("C10Wide: invariant / product lemma violated in the specification itself: %s\n%s" % (r.violated, r.out[-2500:]))
        chk.add_tlc(r, r.name.split("/")[1])
        recs = [prepare_wide(w) for w in r.prints("WD")]
        for a, c in r.coverage_counts().items():
            wcov[a] = wcov.get(a, 0) + c[1]
        if recs and recs[0]["family"] == "W1":
            # distinct (qubits, measurements) shapes, the widest first; quick keeps the widest and one with 11 keys
            by = {}
            for w in recs:
                by.setdefault((w["n"] + w["nm"], w["n"]), w)
            order = sorted(by, reverse=True)
            recs = [by[k] for k in order] if not quick else [by[order[0]]] + ([by[order[-1]]] if len(order) > 1 else [])
        wds += recs
    if not wds or any(not wcov.get(a) for a in ("AddS", "AddM", "AddB", "PickW2", "Finish")):
        raise tlc.TLCError("vacuity: wide-register layouts not generated (%s)" % wcov)
    replay_wide(chk, wds, rng, quick)
    # ---- numeric tail (float oracle, labelled) -------------------------------------------------------------
    numeric_tail(chk, [p for recs in pgs_sim for p in recs], random.Random(chk.seed + 101), quick)
    negative_controls(chk, [p for recs in pgs_sim for p in recs])
    chk.part("programs", replayed=n_prog, with_cmeasure=sum(1 for p in all_pgs if p["_cm"]), nested=n_nested,
             nested_measure_before_outer_measure=n_splice,
             branches=sum(len(p["br"]) for p in all_pgs), dead_branches=sum(1 for p in all_pgs for b in p["br"] if b["dead"]))
    ex = [p for p in all_pgs if p["_cm"] and len(p["br"]) >= 3][:1] + all_pgs[:1]
    for p in ex:
        chk.sample({"n": p["n"], "init": p["src"], "prog": p["prog"],
                    "branches": [{"outs": b["_outs"], "p": b["_p"], "dead": b["dead"]} for b in p["br"]]})
    chk.cov["rule"] = ("TLC builds the programs (exhaustive small bounds + -simulate) and runs the exact Born-rule machine; every "
                       "(program, outcome string) of the exported branch tables - live, probability-zero and wrong-length - is "
                       "replayed on the cirq backend in exact mode (3 renderings of the control map) and a seeded subset in the "
                       "sampled modes")
    chk.assumptions += ["programs over {H, X, RY(pi/2), T, CNOT} on n <= 3 with <= 3 MEASURE/CMEASURE, nesting depth <= 2, initial vector "
                        "|0..0> or one fixed generic entangled vector: entries in Z[zeta_8][1/2], compared with complex128 at 1e-9",
                        "sampled modes: 6-sigma band (+1.5/n_shots) under a fixed numpy seed, support inside the exact support",
                        "NUMERIC TAIL (chk.part numeric_tail_..._NOT_model_checked): near-deterministic measurements use angles off the exact grid and a "
                        "float oracle written out in the driver; they are not counted in states/transitions/traces",
                        "desired_meas_result longer than the executed measurements of a CMEASURE circuit is not judged (the statement "
                        "does not fix it; the code ignores the surplus)"]


def replay(chk, rec):
    case = rec["case"]
    kind = case["kind"]
    pg = prepare(case["pg"]) if "pg" in case else None
    style = case.get("style", "dict")
    if kind in ("exact", "exact-zero-init"):
        br = [b for b in pg["br"] if b["_outs"] == case["outs"]][0]
        fails = exact_branch(pg, br, style, explicit_zero=(kind == "exact-zero-init"))
    elif kind == "exact-all":
        circ, ctl = render(pg, style)
        live = [b for b in pg["br"] if not b["dead"]]
        fails = []
        for br in live:
            fails += exact_branch(pg, br, style, circ, ctl)
        bad = cmp_dist(dict(circ.success_probabilities), {b["_outs"]: b["_p"] for b in live})
        if bad:
            fails.append(("success_probabilities", bad))
    elif kind == "dead":
        fails = must_raise(pg, case["outs"], style, "zero-prob-accepted")
    elif kind == "wrong-length":
        fails = must_raise(pg, case["outs"], style, "wrong-length-accepted")
    elif kind == "gen_applied":
        br = [b for b in pg["br"] if b["_outs"] == case["outs"]][0]
        fails = gen_applied(pg, br, style)
    elif kind == "sampled" and case["mode"] == "circuit-state":
        fails = sampled_circuit_state(pg, case["shots"], case["seed"], style, case.get("outs"))
    elif kind == "sampled":
        fails = sampled(pg, case["mode"], case["shots"], case["seed"], style, case.get("outs"))
    elif kind == "tail":
        fails = tail_case(case["prog"], case["n"], np.array([complex(a, b) for a, b in case["s0"]]), case["zero"])
        hit = False
        for a, o, d in fails:
            same = "numeric-tail:%s" % a == rec["key"]
            hit = hit or same
            print("  FAIL" if same else "  (other aspect)", a, o, "-", d)
        print("program:", case["prog"])
        return not hit
    elif kind == "wide":
        w = prepare_wide(case["w"])
        fails = wide_run(w, case["mode"], case["shots"], case["seed"])
        hit = False
        for a, d in fails:
            key = "wide:%s:%s:%s" % (w["family"], case["mode"], a)
            hit = hit or key == rec["key"]
            print("  FAIL" if key == rec["key"] else "  (other aspect)", key, "-", d)
        return not hit
    elif kind == "mode":
        c2 = check.Check("C10", ["quick"])
        c2.known = []
        mode_rows(c2, [case["row"]], [pg], random.Random(0))
        print(case["row"], "->", [v[:2] for v in c2.violations])
        return not c2.violations
    else:
        print("unknown case kind", kind)
        return False
    print("program:", case["pg"]["prog"])
    print("outcome string:", case.get("outs"), " rendering:", style, " init:", pg["src"])
    hit = False
    for a, d in fails:
        key = sampled_key(pg, case["mode"], a) if kind == "sampled" else "%s:%s" % (klass(pg, case.get("outs")), a)
        same = key == rec["key"]
        hit = hit or same
        print("  FAIL" if same else "  (other aspect, not the recorded one)", key, "-", d)
    return not hit


if __name__ == "__main__":
    check.main("C10", run, replay)
