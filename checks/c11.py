#!/venv/bin/python
"""C11 - circuit metadata stays consistent under any operation history.

S: TLC model-checks spec/C11CircuitObject.tla (heap of named circuit objects; metadata are DEFINITIONS recomputed from the
   gate list; consistency of the definitions; frame condition as an action property).
G: the same state machine produces operation histories: BFS = every history of bounded depth, -simulate = random long ones.
   Each history is replayed into real Circuit objects through the public API; after EVERY step EVERY live object is dumped
   (list(circuit) + reported width/size/counts/counts_n_qubit/is_variational/is_mixed_state/depth()).
V: TLC (spec/C11Trace.tla) validates each recorded behaviour step by step: outcome (valid => succeeds, invalid => raises and
   nothing changes), frame (objects not written are bit-identical), specified gate lists of structural operations, reported
   metadata == definitions applied to the object's own gate list, documented width rules.
   Thorough tier: the same validator judges traces harvested from tangelo/linq/tests/test_circuits.py via runtime wrappers.
"""
import copy
import json
import os
import random
import re
import subprocess
import sys

sys.path.insert(0, os.path.join(os.path.dirname(os.path.abspath(__file__)), "..", "harness"))
import check  # noqa: E402
import tlc  # noqa: E402
from ring import angle_to_k, k_to_angle  # noqa: E402
from enc import PARAM_GATES  # noqa: E402

M = 8
PAR = int(os.environ.get("VERIF_JVMS", "16"))
ALL_OPS = ["new", "add", "addbad", "concat", "repeat", "copy", "inverse", "trim", "reindex", "split", "stack", "small",
           "redundant", "merge", "simplify", "translate", "simulate", "depth", "iterate", "str", "eq", "setparam"]
DERIVED_OPS = ["stack0", "stack1"]        # offered together with "stack"
OUT_OF_PLACE = {"concat", "repeat", "copy", "inverse", "stack", "stack0", "stack1", "small", "redundant", "merge", "simplify", "split"}
FN = {"small": "remove_small_rotations", "redundant": "remove_redundant_gates", "merge": "merge_rotations", "simplify": "simplify"}


# ------------------------------------------------------------------------------------------------------
# format conversion
# ------------------------------------------------------------------------------------------------------
def mk_gate(j):
    from tangelo.linq import Gate
    ctrl = list(j["c"]) if j.get("c") else None
    if j.get("s"):
        return Gate(j["name"], list(j["t"]), ctrl, parameter=j["s"], is_variational=bool(j["v"]))
    if j["name"] in PARAM_GATES:
        return Gate(j["name"], list(j["t"]), ctrl, parameter=k_to_angle(j["k"], M), is_variational=bool(j["v"]))
    return Gate(j["name"], list(j["t"]), ctrl, is_variational=bool(j["v"]))


def gate_dump(g):
    par = g.parameter
    k, p, s, pt = 0, 0, "", "none"
    if isinstance(par, str):
        if par != "":
            s, pt = par, "str"
    elif type(par).__module__.startswith("sympy"):
        s, pt = str(par), "sympy:" + type(par).__name__
    else:
        try:
            f = float(par)
            pt = "num"
            p = int(round(f * 1e6))
            kk = angle_to_k(f, M, 1e-9)
            if kk is None:
                pt = "num-offgrid"
            else:
                k = kk
        except (TypeError, ValueError):
            pt = "other:" + type(par).__name__
    ctrl = g.control
    return {"name": str(g.name), "t": [int(x) for x in g.target], "c": [int(x) for x in (ctrl or [])], "k": k,
            "v": bool(g.is_variational), "s": s, "pt": pt, "p": p}


DEAD = {"live": False, "gates": [], "width": 0, "size": 0, "counts": [], "cnq": [], "isvar": False, "mixed": False, "depth": 0}


def dump(c):
    """Everything the property talks about, through the public API only."""
    if c is None:
        return dict(DEAD)
    return {"live": True, "gates": [gate_dump(g) for g in c],
            "width": int(c.width), "size": int(c.size),
            "counts": sorted([str(k), int(v)] for k, v in c.counts.items()),
            "cnq": sorted([int(k), int(v)] for k, v in c.counts_n_qubit.items()),
            "isvar": bool(c.is_variational), "mixed": bool(c.is_mixed_state), "depth": int(c.depth())}


def bad_gate(kind):
    """Arguments of an INVALID gate (Gate() itself must raise)."""
    from tangelo.linq import Gate
    return {"negative-target": lambda: Gate("H", -1),
            "negative-control": lambda: Gate("CNOT", 0, control=-1),
            "float-index": lambda: Gate("H", 1.0),
            "duplicate": lambda: Gate("CNOT", 1, control=1),
            "too-many-targets": lambda: Gate("H", [0, 1]),
            "too-few-targets": lambda: Gate("SWAP", [0]),
            "string-index": lambda: Gate("H", "0"),
            "controlled-too-many-targets": lambda: Gate("CNOT", [1, 2], control=0),
            "crot-too-many-targets": lambda: Gate("CRZ", [0, 1], control=3, parameter=0.5),
            "control-on-uncontrolled": lambda: Gate("H", 0, control=1)}[kind]


_sim = {}


NOISY_NAMES = ["H", "X", "RX", "RY", "RZ", "PHASE", "CNOT", "CX", "CRZ", "SWAP"]


def noise_model(kind):
    """Noise on every gate name of the alphabet (one-target, controlled, multi-controlled, two-target gates)."""
    from tangelo.linq.noisy_simulation import NoiseModel
    nm = NoiseModel()
    for name in NOISY_NAMES:
        if kind in ("depol", "both"):
            nm.add_quantum_error(name, "depol", 0.05)
        if kind in ("pauli", "both"):
            nm.add_quantum_error(name, "pauli", [0.01, 0.02, 0.03])
    return nm


def cirq_sim(n_shots=None, noise=None):
    from tangelo.linq import get_backend
    key = (n_shots, noise)
    if key not in _sim:
        _sim[key] = get_backend("cirq", n_shots=n_shots, noise_model=noise_model(noise) if noise else None)
    return _sim[key]


def do_translate(o, fmt):
    from tangelo.linq.translator import translate_circuit
    if ":" not in fmt:
        return translate_circuit(o, fmt)
    target, opt = fmt.split(":")
    options = {"save_measurements": True} if opt == "savemeas" else {"noise_model": noise_model(opt)}
    return translate_circuit(o, target, output_options=options)


def do_simulate(o, form):
    import numpy as np
    np.random.seed(1)
    mixed = o.is_mixed_state
    if form in ("depol", "pauli"):
        return cirq_sim(20, form).simulate(o)
    if form == "initsv":
        sv = np.zeros(2 ** o.width, dtype=complex)
        sv[-1] = 1.0
        return cirq_sim(10 if mixed else None).simulate(o, initial_statevector=sv, return_statevector=not mixed)
    if form == "desired":
        return cirq_sim(None).simulate(o, desired_meas_result="0" * o.counts.get("MEASURE", 0), return_statevector=True)
    if form == "savemid":
        return cirq_sim(10).simulate(o, save_mid_circuit_meas=True)
    if mixed:
        return cirq_sim(10).simulate(o)
    return cirq_sim(None).simulate(o, return_statevector=True)


def apply(heap, act):
    """Execute one operation of a history on the real objects. heap: list (index = slot-1) of Circuit or None.
    Returns (raised, results)."""
    from tangelo.linq import Circuit, stack
    from tangelo.linq import circuit as cmod
    from tangelo.linq.translator import translate_circuit
    op = act["op"]
    o = heap[act["o"] - 1] if act["o"] else None
    o2 = heap[act["o2"] - 1] if act["o2"] else None
    d = act["dst"] - 1
    results = []
    try:
        if op == "new":
            heap[d] = Circuit([mk_gate(g) for g in act["gs"]], n_qubits=(act["n"] or None))
        elif op == "add":
            o.add_gate(mk_gate(act["g"]))
        elif op == "addbad":
            o.add_gate(bad_gate(act["bad"])())
        elif op == "concat":
            heap[d] = o + o2
        elif op == "repeat":
            heap[d] = o * act["n"]
        elif op == "copy":
            heap[d] = o.copy()
        elif op == "inverse":
            heap[d] = o.inverse()
        elif op == "trim":
            o.trim_qubits()
        elif op == "reindex":
            o.reindex_qubits(list(act["new"]))
        elif op == "split":
            results = o.split(trim_qubits=bool(act["rq"]))
        elif op == "stack":
            heap[d] = stack(o, o2)
        elif op == "stack0":
            heap[d] = stack()
        elif op == "stack1":
            heap[d] = stack(o) if act["form"] == "fn" else o.stack()
        elif op == "setparam":
            # in-place change of a gate parameter through iteration (documented as allowed for variational gates)
            for g in o:
                if g.name in PARAM_GATES and not isinstance(g.parameter, str) and not type(g.parameter).__module__.startswith("sympy"):
                    g.parameter = g.parameter + k_to_angle(2, M)
                    break
        elif op in FN:
            kw = {} if op == "merge" else {"remove_qubits": bool(act["rq"])}
            opt = act.get("bad", "")
            if opt in ("mc0", "mc1"):
                kw["max_cycles"] = int(opt[2])
            elif opt == "thr2":
                kw["param_threshold"] = 2.0
            elif opt == "thr0":
                kw["param_threshold"] = 1e-9
            if act["form"] == "fn":
                heap[d] = getattr(cmod, FN[op])(o, **kw)
            else:
                getattr(o, FN[op])(**kw)
        elif op == "translate":
            do_translate(o, act["fmt"])
        elif op == "simulate":
            do_simulate(o, act.get("form", ""))
        elif op == "depth":
            o.depth()
        elif op == "iterate":
            _ = [g for g in o]
            _ = list(iter(o))
        elif op == "str":
            _ = str(o)
            _ = [repr(g) for g in o]
        elif op == "eq":
            _ = (o == o2)
            _ = (o != o2)
        else:
            raise RuntimeError("unknown op " + op)
    except RuntimeError:
        raise
    except Exception:
        return True, []
    return False, results


def gate_objects(c):
    """ids of the gate objects of a circuit and of their index lists (for the freshness observation)."""
    ids = set()
    for g in c:
        ids.add(id(g))
        ids.add(id(g.target))
        if g.control is not None:
            ids.add(id(g.control))
    return ids


def aliases(heap, act, results):
    """Slots (other than the one written) whose object is the result of this out-of-place operation or shares a gate
    object / index list with it. Recorded observation; judged by C11Trace (clause result-aliases-operand)."""
    if act["op"] not in OUT_OF_PLACE or (act["op"] in FN and act.get("form") == "method"):
        return []
    new = list(results) if act["op"] == "split" else ([heap[act["dst"] - 1]] if act["dst"] else [])
    out = []
    for r in new:
        if r is None:
            continue
        rid = gate_objects(r)
        for s, c in enumerate(heap, 1):
            if c is None or (act["op"] != "split" and s == act["dst"]):
                continue
            if c is r or (rid & gate_objects(c)):
                out.append(s)
    return sorted(set(out))


def replay_history(hist, nslots):
    """-> list of step records (act, raised, heap dumps, result dumps)."""
    heap = [None] * nslots
    steps = []
    for act in hist:
        if (act["o"] and heap[act["o"] - 1] is None) or (act["o2"] and heap[act["o2"] - 1] is None):
            break       # an earlier operation failed in the implementation: the rest of the generated history does not apply
        raised, results = apply(heap, act)
        steps.append({"act": act, "raised": bool(raised), "heap": [dump(c) for c in heap], "results": [dump(r) for r in results],
                      "alias": [] if raised else aliases(heap, act, results)})
        if act["op"] == "reindex" and act.get("bad") == "invalid-new-indices" and not raised:
            break       # the implementation accepted arguments the specification rejects: the object left the state space
    return steps


def diff_label(a, b):
    """Which recorded fields differ between two dumps of one object (label for the report key, not a verdict)."""
    if a["live"] != b["live"]:
        return "liveness"
    out = []
    if len(a["gates"]) != len(b["gates"]):
        out.append("gate-list-length")
    else:
        fields = set()
        for x, y in zip(a["gates"], b["gates"]):
            fields |= {f for f in x if x[f] != y[f]}
        names = {"name": "gate-name", "t": "targets", "c": "controls", "k": "angle", "p": "angle", "v": "variational-flag",
                 "s": "parameter-symbol", "pt": "parameter-type"}
        out += sorted({names[f] for f in fields})
    out += [f for f in ("width", "size", "counts", "cnq", "isvar", "mixed", "depth") if a[f] != b[f]]
    return "+".join(out) if out else "nothing"


# ------------------------------------------------------------------------------------------------------
def gen_cfg(nslots, depth, ops, rich, export="leaf", frame=True, thin=1, prefix="PrefixNone"):
    return ("CONSTANTS M = %d\nNSlots = %d\nMaxDepth = %d\nOps = {%s}\nRich = %s\nExport = \"%s\"\nThin = %d\nPrefix <- %s\n"
            "INIT Init\nNEXT Next\nINVARIANT ExportLeaf\n%s" % (M, nslots, depth, ", ".join('"%s"' % o for o in ops),
                                           "TRUE" if rich else "FALSE", export, thin, prefix,
                                           "INVARIANT MetaConsistent\nPROPERTY FrameOK\nPROPERTY ReadOnlyOK\n" if frame else ""))


def plan(chk):
    q = chk.quick
    runs = []

    def add(name, nslots, maxdepth, ops, rich, thin=1, prefix="PrefixNone", **kw):
        if "simulate" in kw:
            kw["depth"] = maxdepth + 2
        runs.append((name, nslots, dict(module="C11CircuitObject", cfg=gen_cfg(nslots, maxdepth, ops, rich, frame="simulate" not in kw, thin=thin,
                                                                              prefix=prefix),
                                        name="c11/" + name, timeout=7200, heap="3g", **kw)))
    ops_nonew = [o for o in ALL_OPS if o != "new"]
    core = ["add", "addbad", "concat", "copy", "trim", "reindex", "translate", "merge", "repeat", "inverse", "redundant"]
    add("bfs1_rich", 2, 1, ops_nonew, True, workers=4)
    add("bfs2_core", 2, 2, core if q else ops_nonew, False, thin=8 if q else 1, workers=6)
    # scenario: two successive in-place index rewritings (reindex up / sparse, reindex down, trim) and then every
    # width-sensitive operation (copy, inverse, *, add_gate at the boundaries, remove_*, +, stack), on fixed and free objects
    add("bfs3_index", 2, 3, ["reindex", "trim", "add", "copy", "inverse", "repeat", "small", "redundant", "concat", "stack"], False,
        thin=3 if q else 1, prefix="PrefixIndex2", workers=6)
    # freshness scenario: every out-of-place operation with every documented optional argument, on empty / non-empty,
    # free / fixed-width circuits, followed by a mutation (add_gate, trim_qubits, reindex_qubits, in-place parameter change)
    # of any object - in particular of the result: the operands must not change (frame)
    add("bfs2_fresh", 2, 2, ["concat", "repeat", "copy", "inverse", "stack", "small", "redundant", "merge", "simplify", "split",
                             "add", "trim", "setparam", "reindex"], False, thin=6 if q else 1, prefix="PrefixFresh", workers=6)
    if not q:
        add("bfs2_rich", 2, 2, core + ["small", "simplify", "stack", "split"], True, thin=3, workers=8)
        add("bfs3_small", 2, 3, ["add", "copy", "trim", "reindex", "translate", "redundant", "concat"], False, thin=8, workers=8)
    for s in range(2 if q else 8):
        add("sim%d" % s, 3, 15, ALL_OPS, True, workers=1, simulate="num=%d" % (60 if q else 400), seed=chk.seed + 7 + 13 * s)
    return runs


def sim_states(r):
    m = re.search(r"The number of states generated: (\d+)", r.out)
    return int(m.group(1)) if m else 0


def corrupt(job, rng):
    """Negative controls: one recorded field perturbed; C11Trace must reject."""
    res = []
    steps = job["steps"]
    k = len(steps) - 1
    st = steps[k]
    live = [s for s, d in enumerate(st["heap"]) if d["live"]]
    if not live or st["raised"]:
        return res

    def c(what, fn):
        j = copy.deepcopy(job)
        if fn(j) is not False:
            res.append((what, j))
    w = None
    act = st["act"]
    for s in live:
        if k == 0 or st["heap"][s] != steps[k - 1]["heap"][s]:
            w = s
    if w is not None:
        c("size+1", lambda j: j["steps"][k]["heap"][w].__setitem__("size", st["heap"][w]["size"] + 1))
        if act["op"] in ("new", "add", "concat", "repeat", "copy", "inverse", "trim", "reindex", "stack"):
            c("width+1", lambda j: j["steps"][k]["heap"][w].__setitem__("width", st["heap"][w]["width"] + 1))
        c("depth+1", lambda j: j["steps"][k]["heap"][w].__setitem__("depth", st["heap"][w]["depth"] + 1))
        c("isvar-flipped", lambda j: j["steps"][k]["heap"][w].__setitem__("isvar", not st["heap"][w]["isvar"]))
        c("mixed-flipped", lambda j: j["steps"][k]["heap"][w].__setitem__("mixed", not st["heap"][w]["mixed"]))
        if st["heap"][w]["counts"]:
            def f(j):
                j["steps"][k]["heap"][w]["counts"][0][1] += 1
            c("count+1", f)

            def f2(j):
                j["steps"][k]["heap"][w]["cnq"][0][1] += 1
            c("arity-count+1", f2)
    others = [s for s in live if s != w and k > 0 and st["heap"][s]["gates"]]
    if others:
        s = others[0]

        def f3(j):
            j["steps"][k]["heap"][s]["gates"][0]["name"] = "Y" if st["heap"][s]["gates"][0]["name"] != "Y" else "Z"
        c("unwritten-gate-renamed", f3)
    if act["op"] == "add" and w is not None:
        def f4(j):
            j["steps"][k]["heap"][w]["gates"].pop()
        c("added-gate-missing", f4)
        c("raised-flag-flipped", lambda j: j["steps"][k].__setitem__("raised", True))
    return res


# ------------------------------------------------------------------------------------------------------
# MakeGate: constructor arguments enumerated by TLC (spec/C11Gate.tla), accept/reject decided by the spec
# ------------------------------------------------------------------------------------------------------
def py_index(x):
    import numpy as np
    v, ty = x["v"], x["ty"]
    return {"int": lambda: int(v), "float": lambda: float(v), "str": lambda: str(v), "bool": lambda: bool(v),
            "npint": lambda: np.int64(v)}[ty]()


def py_container(xs, kind):
    import numpy as np
    vals = [py_index(x) for x in xs]
    if kind == "scalar" and len(vals) == 1:
        return vals[0]
    if kind == "tuple":
        return tuple(vals)
    if kind == "ndarray" and all(x["ty"] == "int" for x in xs):
        return np.array(vals, dtype=np.int32)
    return vals


def make_gate_job(cand):
    """Call Gate(name, targets, controls) with the candidate's arguments; record what happened."""
    from tangelo.linq import Gate, Circuit
    job = {"cand": cand, "raised": False, "out": {"name": "", "t": [], "c": []}, "dump": dict(DEAD)}
    try:
        kw = {"control": py_container(cand["c"], cand["ck"])} if cand["hasc"] else {}
        if cand["name"] in PARAM_GATES:
            kw["parameter"] = 0.5
        g = Gate(cand["name"], py_container(cand["t"], cand["tk"]), **kw)
    except Exception:
        job["raised"] = True
        return job
    job["out"] = {"name": str(g.name), "t": [int(x) for x in g.target], "c": [int(x) for x in (g.control or [])]}
    try:
        job["dump"] = dump(Circuit([g]))
    except Exception as e:
        job["dump"] = dict(DEAD, error=type(e).__name__)
    return job


def cand_class(cand):
    from_sets = "custom"
    if cand["name"] in ("XX", "SWAP", "CSWAP"):
        from_sets = "two-target"
    elif cand["name"] not in ("MEASURE", "POTATO", "CPOTATO", "CH"):
        from_sets = "one-target"
    sp = sorted({x["ty"] for x in cand["t"] + cand["c"]} - {"int"}) + (["negative"] if any(x["v"] < 0 for x in cand["t"] + cand["c"]) else [])
    return "%s/%dtargets/%s%s" % (from_sets, len(cand["t"]), ("%dcontrols" % len(cand["c"])) if cand["hasc"] else "nocontrol",
                                  ("/" + "+".join(sp)) if sp else "")


def make_gate_part(chk, rng):
    parts = ["ints", "special", "containers"]
    res = tlc.run_many([dict(module="C11Gate", name="c11/gate_" + p, workers=2, timeout=3600,
                             cfg="CONSTANTS M = %d\nPart = \"%s\"\nINIT Init\nNEXT Next\nINVARIANT AcceptedIsWellFormed\n"
                                 "INVARIANT RejectedIsIllFormed\nINVARIANT Export\n" % (M, p)) for p in parts], max_parallel=3)
    jobs = []
    for p, r in zip(parts, res):
        if not r.ok:
            raise tlc.TLCError("C11Gate (%s): specification inconsistent: %s\n%s" % (p, r.violated, r.out[-2000:]))
        chk.add_tlc(r, "G_makegate_" + p)
        cands = r.prints("CAND")
        chk.part("G_makegate_" + p, candidates=len(cands))
        for cd in cands:
            job = make_gate_job(cd)
            job["id"] = len(jobs) + 1
            jobs.append(job)
    if len(jobs) < 1000:
        raise tlc.TLCError("C11Gate exported too few candidates (%d)" % len(jobs))
    # negative controls: outcome flipped
    ctl = []
    for job in jobs[:: max(1, len(jobs) // 60)]:
        c = copy.deepcopy(job)
        c["raised"] = not c["raised"]
        if c["raised"]:
            c["dump"] = dict(DEAD)
        else:
            g = {"name": c["cand"]["name"], "t": [x["v"] for x in c["cand"]["t"]], "c": [x["v"] for x in c["cand"]["c"]] if c["cand"]["hasc"] else [],
                 "k": 0, "v": False, "s": "", "pt": "none", "p": 0}
            c["out"] = {"name": g["name"], "t": g["t"], "c": g["c"]}
            c["dump"] = dict(DEAD, live=True, gates=[g], size=1, width=max(g["t"] + g["c"] + [-1]) + 1,
                             counts=[[g["name"], 1]], cnq=[[len(g["t"]) + len(g["c"]), 1]], depth=1)
        c["id"] = 10 ** 7 + len(ctl)
        c["origin"] = job["id"]
        ctl.append(c)
    verdicts, results = tlc.judge("C11GateTrace", jobs + ctl, "c11/gatev", {"M": M}, max_parallel=min(PAR, 8), timeout=3600)
    for r in results:
        chk.add_tlc(r)
    stat = {"accepted": 0, "raised": 0, "failing": 0}
    for job in jobs:
        chk.add_traces(1, "makegate")
        stat["raised" if job["raised"] else "accepted"] += 1
        cl = json.loads(verdicts[job["id"]])
        if cl:
            stat["failing"] += 1
        for clause in cl:
            chk.violation("Gate():%s:%s" % (clause, cand_class(job["cand"])),
                          "Gate(%r, targets=%s, controls=%s): clause '%s' (raised=%s)" % (
                              job["cand"]["name"], [(x["v"], x["ty"]) for x in job["cand"]["t"]],
                              [(x["v"], x["ty"]) for x in job["cand"]["c"]] if job["cand"]["hasc"] else None, clause, job["raised"]),
                          {"makegate": job["cand"], "clause": clause})
    clean_ctl = [c for c in ctl if not json.loads(verdicts[c["origin"]])]
    # a flipped outcome must be rejected unless the spec leaves the candidate open ("either" is not judged)
    accepted = [c["origin"] for c in clean_ctl if not json.loads(verdicts[c["id"]])]
    undecided = len(accepted)
    chk.part("makegate", **stat, negative_controls=len(clean_ctl), controls_on_undocumented_candidates=undecided)
    if clean_ctl and undecided > len(clean_ctl) // 2:
        raise tlc.TLCError("binding failure: flipped MakeGate outcomes accepted by C11GateTrace: %s" % accepted[:10])
    chk.sample({"makegate_candidate": jobs[len(jobs) // 3]["cand"], "raised": jobs[len(jobs) // 3]["raised"]})


def judge_and_report(chk, jobs, info, part):
    """jobs: [{id, steps}] ; info: id -> replayable case. Returns verdict map."""
    verdicts, results = tlc.judge("C11Trace", jobs, "c11/" + part, {"M": M}, max_parallel=PAR, timeout=7200, heap="3g",
                                  chunk=min(1500, max(1, (len(jobs) + PAR - 1) // PAR)))
    for r in results:
        chk.add_tlc(r)
    for job in jobs:
        v = json.loads(verdicts[job["id"]])
        chk.add_traces(1, part)
        for (k, clause, slot, prov) in v:
            st = job["steps"][k - 1]
            act = st["act"]
            op = act["op"] + ("(%s)" % act["fmt"] if act.get("fmt") else "") + ("(%s)" % act["form"] if act["op"] == "simulate" and act.get("form") else "")
            key = "%s:%s" % (op, clause)
            if act["op"] == "reindex" and act.get("bad"):
                key += ":" + act["bad"]
            if clause in ("frame", "state-changed-on-raise") and slot >= 1 and k >= 2:
                key += ":" + diff_label(job["steps"][k - 2]["heap"][slot - 1], st["heap"][slot - 1])
            if prov:
                key = prov + ":" + key
            detail = "step %d %s: clause '%s' fails for slot %d (raised=%s)" % (k, json.dumps({f: act[f] for f in act if act[f] not in (0, "", [], False) and f != "g" or (f == "g" and act["op"] == "add")})[:300], clause, slot, st["raised"])
            chk.violation(key, detail, dict(info[job["id"]], upto=k, clause=clause, slot=slot))
    return verdicts


def run(chk):
    rng = random.Random(chk.seed)
    quick = chk.quick
    make_gate_part(chk, rng)
    runs = plan(chk)
    results = tlc.run_many([r[2] for r in runs], max_parallel=min(PAR, 6))
    jobs, info = [], {}
    opstat = {}
    for (name, nslots, kw), r in zip(runs, results):
        if not r.ok:
            raise tlc.TLCError("C11CircuitObject: the specification itself is inconsistent (%s): %s\n%s" % (name, r.violated, r.out[-2500:]))
        chk.add_tlc(r, "G_" + name)
        if not r.generated:
            n = sim_states(r)
            chk.cov["states"] += n
            chk.cov["transitions"] += n
            chk.part("G_" + name, tlc_states=n, tlc_transitions=n, mode="simulate")
        hists = r.prints("BH")
        if not hists:
            raise tlc.TLCError("generator run %s exported no behaviour" % name)
        chk.part("G_" + name, behaviours=len(hists), steps=sum(len(h) for h in hists))
        for h in hists:
            steps = replay_history(h, nslots)
            jid = len(jobs) + 1
            jobs.append({"id": jid, "steps": steps})
            info[jid] = {"history": h, "nslots": nslots}
            for st in steps:
                s = opstat.setdefault(st["act"]["op"], [0, 0])
                s[0] += 1
                s[1] += 1 if st["raised"] else 0
    seen_h, nontriv, nsteps = set(), 0, 0
    for job in jobs:
        nsteps += len(job["steps"])
        key = json.dumps(info[job["id"]]["history"], sort_keys=True)
        if key in seen_h:
            continue
        seen_h.add(key)
        st = job["steps"]
        if any(st[k]["heap"] != st[k - 1]["heap"] or st[k]["raised"] for k in range(1, len(st))):
            nontriv += 1
    chk.add_eval(nsteps, nontriv)
    chk.part("behaviour_stats", distinct_histories=len(seen_h), nontrivial=nontriv, steps=nsteps,
             rule="evaluations = replayed steps; non-trivial = distinct histories with at least one step after `new` that changes "
                  "an object or is rejected")
    missing = [o for o in ALL_OPS + DERIVED_OPS if o not in opstat]
    if missing:
        raise tlc.TLCError("vacuity: operations never generated: %s" % missing)
    chk.part("operations", counts={k: {"steps": v[0], "raised": v[1]} for k, v in sorted(opstat.items())})
    verdicts = judge_and_report(chk, jobs, info, "behaviours")
    # negative controls: derived from behaviours the validator accepted; one recorded field perturbed -> must be rejected
    clean = [j for j in jobs if json.loads(verdicts[j["id"]]) == []]
    ctl = []
    for job in clean[:: max(1, len(clean) // (40 if quick else 200))]:
        for what, cj in corrupt(job, rng):
            cj["origin"] = job["id"]
            cj["id"] = 10 ** 7 + len(ctl)
            ctl.append((what, cj))
    cv, res2 = tlc.judge("C11Trace", [c for _, c in ctl], "c11/ctl", {"M": M}, max_parallel=PAR, timeout=3600)
    accepted = [(what, c["origin"]) for what, c in ctl if json.loads(cv[c["id"]]) == []]
    chk.part("negative_controls", corrupted=len(ctl), rejected=len(ctl) - len(accepted), kinds=sorted({w for w, _ in ctl}))
    if accepted or (not ctl and clean):
        raise tlc.TLCError("binding failure: corrupted behaviours not rejected by C11Trace: %s" % accepted[:10])
    if not quick:
        harvest(chk)
    chk.sample({"history": [{k: v for k, v in a.items() if v not in (0, "", [], False)} for a in info[len(jobs) // 2]["history"]][:6]})
    chk.sample({"step_record": jobs[0]["steps"][0]})
    chk.cov["rule"] = ("TLC (C11CircuitObject) enumerates every operation history of the bounded depth over the argument alphabet "
                       "(BFS) and samples long ones (-simulate); each is replayed on real Circuit objects and every step's dump of "
                       "every live object is validated by TLC (C11Trace)")
    chk.assumptions += ["objects are observed through list(circuit), width, size, counts, counts_n_qubit, is_variational, "
                        "is_mixed_state, depth()", "where the documentation does not fix the width of a derived object only "
                        "width >= max index + 1 and the operation's own width rule at creation are required",
                        "translate / simulate may refuse a circuit (unsupported gate, symbolic parameter): only the frame is claimed"]


HARVEST_MODS = ["tangelo/linq/tests/test_circuits.py", "tangelo/linq/tests/test_translator_circuit.py",
                "tangelo/linq/tests/test_simulator.py"]


def harvest_events(targets, tag):
    """Run pytest on the given test targets with the runtime wrappers; return (events, pytest summary line)."""
    out = os.path.join(tlc.WORK, "c11", "harvest_%s.json" % tag)
    os.makedirs(os.path.dirname(out), exist_ok=True)
    if os.path.exists(out):
        os.remove(out)
    env = dict(os.environ, TANGELO_VERIF="1", C11_HARVEST_OUT=out,
               PYTHONPATH=os.pathsep.join([check.REPO, os.path.join(check.VERIF, "checks")]))
    p = subprocess.run([sys.executable, "-m", "pytest", "-q", "-p", "no:cacheprovider", "-p", "c11_harvest_plugin"] + targets,
                       cwd=check.REPO, env=env, stdout=subprocess.PIPE, stderr=subprocess.STDOUT, text=True, timeout=3000)
    if not os.path.exists(out):
        raise tlc.TLCError("harvest produced no trace file:\n" + p.stdout[-1500:])
    with open(out) as f:
        traces = json.load(f)
    os.remove(out)
    return traces, p.stdout.strip().splitlines()[-1][:200]


def big_event(e):
    return max([len(d["gates"]) for d in e["after"] + e["results"] + e["before"]] or [0]) > 40


def harvest(chk):
    """Thorough tier: validate traces recorded while the repository's own test modules run (runtime wrappers, no repo edit)."""
    traces, tail = harvest_events([os.path.join(check.REPO, m) for m in HARVEST_MODS], "all")
    jobs = [e for e in traces if not big_event(e)]
    ops = {}
    for e in jobs:
        ops[e["op"]] = ops.get(e["op"], 0) + 1
    chk.part("harvest", pytest_tail=tail, events=len(traces), judged=len(jobs),
             skipped_more_than_40_gates=len(traces) - len(jobs), by_op=ops, modules=HARVEST_MODS)
    for n, ev in enumerate(jobs):
        ev["id"] = n + 1
    if not jobs:
        raise tlc.TLCError("harvest recorded no event: " + tail)
    verdicts, results = tlc.judge("C11Harvest", jobs, "c11/harvest", {"M": M}, max_parallel=PAR, timeout=3600,
                                  chunk=min(400, max(1, (len(jobs) + PAR - 1) // PAR)))
    for r in results:
        chk.add_tlc(r)
    for job in jobs:
        chk.add_traces(1, "harvest")
        for clause in json.loads(verdicts[job["id"]]):
            chk.violation("harvest:%s:%s" % (job["op"], clause), "harvested event %s in %s: clause %s" % (job["op"], job.get("test"), clause),
                          {"harvest_test": job["test"], "op": job["op"], "clause": clause})


def replay(chk, rec):
    case = rec["case"]
    if "makegate" in case:
        job = dict(make_gate_job(case["makegate"]), id=1)
        v, _ = tlc.judge("C11GateTrace", [job], "c11/replay", {"M": M})
        print("candidate:", json.dumps(case["makegate"]), " raised:", job["raised"], " result:", job["out"])
        print("TLC verdict (failing clauses):", v[1])
        return case.get("clause") not in json.loads(v[1])
    if "harvest_test" in case:
        # re-run the repository test under the wrappers and re-judge the events it produces
        traces, tail = harvest_events([os.path.join(check.REPO, case["harvest_test"])], "replay")
        jobs = [e for e in traces if not big_event(e)]
        for n, ev in enumerate(jobs):
            ev["id"] = n + 1
        v, _ = tlc.judge("C11Harvest", jobs, "c11/replay", {"M": M}, max_parallel=4)
        bad = [(e["op"], json.loads(v[e["id"]])) for e in jobs if json.loads(v[e["id"]])]
        print("pytest:", tail)
        print("events judged: %d; failing: %s" % (len(jobs), bad[:10]))
        return not any(op == case["op"] and case["clause"] in cl for op, cl in bad)
    hist = case["history"][: case.get("upto", len(case["history"]))]
    steps = replay_history(hist, case["nslots"])
    v, _ = tlc.judge("C11Trace", [{"id": 1, "steps": steps}], "c11/replay", {"M": M})
    verdict = json.loads(v[1])
    for k, st in enumerate(steps, 1):
        a = st["act"]
        print("step %d: %s raised=%s" % (k, json.dumps({f: a[f] for f in a if a[f] not in (0, "", [], False) and (f != "g" or a["op"] == "add")}), st["raised"]))
        for s, d in enumerate(st["heap"], 1):
            if d["live"]:
                print("    slot %d: width=%d size=%d counts=%s cnq=%s var=%s mixed=%s depth=%d gates=%s" % (
                    s, d["width"], d["size"], d["counts"], d["cnq"], d["isvar"], d["mixed"], d["depth"],
                    [(g["name"], g["t"], g["c"], g["k"], g["s"], g["pt"]) for g in d["gates"]]))
    print("TLC verdict [step, clause, slot, provenance]:", verdict)
    if "clause" in case:      # reproduced when the reported clause fails again at the reported step
        return not any(v[0] == case["upto"] and v[1] == case["clause"] and v[2] == case["slot"] for v in verdict)
    return verdict == []


if __name__ == "__main__":
    check.main("C11", run, replay)
