"""pytest plugin (development/thorough-tier aid of checks/c11.py): records every outermost call of the public Circuit
operations made by the repository's own tests, with dumps of all Circuit arguments before and after the call and of the
results.  Loaded with `-p c11_harvest_plugin` (PYTHONPATH contains /verif/checks); active only when TANGELO_VERIF=1.
The repository is not edited: the wrappers are installed at run time."""
import functools
import json
import os

ACTIVE = os.environ.get("TANGELO_VERIF") == "1" and os.environ.get("C11_HARVEST_OUT")
EVENTS = []
STATE = {"depth": 0, "test": ""}
# operations that are documented to write their first argument (self)
WRITES_SELF = {"__init__", "add_gate", "trim_qubits", "reindex_qubits", "m.remove_small_rotations", "m.remove_redundant_gates",
               "m.merge_rotations", "m.simplify"}


def _install():
    import c11
    from tangelo.linq import circuit as cmod
    from tangelo.linq import Circuit
    import tangelo.linq as linq

    def circuits_in(args, kwargs):
        out = []
        for a in list(args) + list(kwargs.values()):
            if isinstance(a, Circuit):
                out.append(a)
            elif isinstance(a, (list, tuple)):
                out += [x for x in a if isinstance(x, Circuit)]
        return out

    def safe_dump(c):
        STATE["depth"] += 1
        try:
            return c11.dump(c)
        except Exception as e:      # half-constructed object
            return dict(c11.DEAD, error=type(e).__name__)
        finally:
            STATE["depth"] -= 1

    def wrap(fn, opname):
        @functools.wraps(fn)
        def w(*args, **kwargs):
            if STATE["depth"] > 0:
                return fn(*args, **kwargs)
            cs = circuits_in(args, kwargs)
            before = [safe_dump(c) for c in cs] if opname != "__init__" else []
            STATE["depth"] += 1
            raised = False
            try:
                res = fn(*args, **kwargs)
            except Exception:
                raised = True
                raise
            finally:
                STATE["depth"] -= 1
                if opname == "__init__" and not raised:
                    cs = [args[0]]
                after = [] if (opname == "__init__" and raised) else [safe_dump(c) for c in cs]
                results = []
                if not raised:
                    r = res if isinstance(res, (list, tuple)) else [res]
                    results = [safe_dump(x) for x in r if isinstance(x, Circuit) and not any(x is c for c in cs)]
                if len(EVENTS) < 20000:
                    EVENTS.append({"op": opname, "test": STATE["test"], "raised": raised, "writes_first": opname in WRITES_SELF,
                                   "before": before, "after": after, "results": results})
            return res
        return w

    for name in ("__init__", "add_gate", "__add__", "__mul__", "copy", "inverse", "trim_qubits", "reindex_qubits", "split",
                 "depth", "__eq__"):
        setattr(Circuit, name, wrap(getattr(Circuit, name), name))
    for name in ("remove_small_rotations", "remove_redundant_gates", "merge_rotations", "simplify"):
        setattr(Circuit, name, wrap(getattr(Circuit, name), "m." + name))
        f = wrap(getattr(cmod, name), name)
        setattr(cmod, name, f)
        if hasattr(linq, name):
            setattr(linq, name, f)
    f = wrap(cmod.stack, "stack")
    cmod.stack = f
    linq.stack = f
    # read-only consumers: simulation and translation (the circuit arguments must come back unchanged)
    from tangelo.linq.target.backend import Backend
    Backend.simulate = wrap(Backend.simulate, "simulate")
    import importlib
    tc = importlib.import_module('tangelo.linq.translator.translate_circuit')
    for fmt in list(tc.FROM_TANGELO):
        tc.FROM_TANGELO[fmt] = wrap(tc.FROM_TANGELO[fmt], "translate(%s)" % fmt)


if ACTIVE:
    _install()


def pytest_runtest_setup(item):
    STATE["test"] = item.nodeid


def pytest_sessionfinish(session, exitstatus):
    if ACTIVE:
        with open(os.environ["C11_HARVEST_OUT"], "w") as f:
            json.dump(EVENTS, f)
