#!/venv/bin/python
"""C12 - symmetry operators and penalties are exact; default ansaetze conserve them.

S: spec/C12Symmetry.tla - first-principles N, Sz, S^2 on every determinant / spin eigenfunction; squares are positive;
   the judging predicates reject perturbed operators.
V: spec/C12Trace.tla - recorded from the implementation and judged by TLC:
   number_operator / spinz_operator / spin2_operator on EVERY determinant and every spin eigenfunction (both orderings);
   *_penalty and combined_penalty: P D = SUM mu (Op - v)^2 D with the first-principles Op, value >= 0 and zero exactly on the
   target sector; [Op, H] D = 0 for Hamiltonians the code builds from integer-integral molecules (restricted and UHF);
   Enc(P) = SUM mu (Enc(Op) - v)^2 under JW/BK/JKMN/scBK x both orderings, and its value on every encoded determinant;
   ansatz conservation (JW): every parameter's generator commutes with Enc(N), Enc(Sz); block condition on the circuit's
   word order; exact ring evaluation of the built circuits at grid parameters: the prepared state is an eigenvector of
   Enc(N) and Enc(Sz) with the reference eigenvalues.
"""
import copy
import itertools
import math
import os
import random
import sys
import warnings

sys.path.insert(0, os.path.join(os.path.dirname(os.path.abspath(__file__)), "..", "harness"))
sys.path.insert(0, os.path.dirname(os.path.abspath(__file__)))
import check  # noqa: E402
import tlc  # noqa: E402
from enc import qubit_op_to_json, gates_to_json, word_to_json, OffGrid  # noqa: E402
from ring import gauss_dyadic, k_to_angle  # noqa: E402
from c03 import fop_json, fop_from_json, synth_hamiltonian, rand_integrals  # noqa: E402

warnings.filterwarnings("ignore")
M = 8
MC = 16          # ring of the exact circuit evaluation (angles multiples of 2 pi / 16)
JVMS = int(os.environ.get("VERIF_JVMS", "16"))
ENCODINGS = ["JW", "BK", "JKMN", "SCBK"]


def ring(z, m=M):
    c = gauss_dyadic(z, m)
    if c is None:
        raise OffGrid("coefficient %r not Gaussian dyadic" % (z,))
    return c


class Jobs:
    def __init__(self, chk):
        self.chk, self.jobs, self.meta = chk, [], {}

    def add(self, kind, how, **fields):
        jid = len(self.jobs) + 1
        self.jobs.append(dict(fields, id=jid, k=kind))
        self.meta[jid] = {"kind": kind, "how": how}
        return jid


def guarded(chk, key, how, fn):
    try:
        return fn()
    except OffGrid:
        chk.inconclusive += 1
    except Exception as e:
        chk.violation("exception:" + key, "%s: %s (%s)" % (type(e).__name__, e, str(how)[:300]), {"kind": "exception", "how": how})
    return None


# =====================================================================================================================
# A/B. operators and penalties on the Fock space
# =====================================================================================================================
def symmetry_op(kind, n_orb, utd):
    from tangelo.toolboxes.ansatz_generator.fermionic_operators import number_operator, spinz_operator, spin2_operator
    return {"N": number_operator, "Sz": spinz_operator, "S2": spin2_operator}[kind](n_orb, up_then_down=utd)


def penalty_op(spec, n_orb, utd):
    """spec: list of (kind, mu, v).  One entry -> the dedicated function; call form "combined" -> combined_penalty."""
    from tangelo.toolboxes.ansatz_generator import penalty_terms as pt
    if spec["form"] == "single":
        kind, mu, v = spec["parts"][0]
        fn = {"N": pt.number_operator_penalty, "Sz": pt.spin_operator_penalty, "S2": pt.spin2_operator_penalty}[kind]
        return fn(n_orb, v, mu=mu, up_then_down=utd)
    opts = {{"N": "N", "Sz": "Sz", "S2": "S^2"}[k]: [mu, v] for k, mu, v in spec["parts"]}
    return pt.combined_penalty(n_orb, opts, up_then_down=utd)


def penalty_specs(n_orb, rng, quick):
    specs = []
    n_targets = sorted(set([0, 1, n_orb, 2 * n_orb] + ([] if quick else list(range(2 * n_orb + 1)))))
    for v in n_targets:
        for mu in ((1, 3) if quick else (1, 2, 3, 0.5)):
            specs.append({"form": "single", "parts": [("N", mu, v)]})
    for v in (0, 0.5, -0.5, 1, -1, 1.5):
        for mu in ((2,) if quick else (1, 2, 3)):
            specs.append({"form": "single", "parts": [("Sz", mu, v)]})
    for v in (0, 0.75, 2, 3.75):
        for mu in ((1,) if quick else (1, 3)):
            specs.append({"form": "single", "parts": [("S2", mu, v)]})
    combos = [[("N", 1, n_orb), ("Sz", 2, 0)], [("N", 3, 1), ("Sz", 1, 0.5), ("S2", 2, 0.75)], [("Sz", 1, -1), ("S2", 1, 2)],
              [("N", 2, 2)], [("S2", 3, 0)], [("N", 1, 2), ("S2", 2, 0)]]
    for c in combos:
        specs.append({"form": "combined", "parts": c})
    return specs


def parts_json(parts):
    return [{"kind": k, "mu": ring(mu), "v": ring(v)} for k, mu, v in parts]


def gen_fock(J, rng, quick):
    chk = J.chk
    for n_orb in ([1, 2, 3] if quick else [1, 2, 3, 4]):
        for utd in (False, True):
            ops = {}
            for kind in ("N", "Sz", "S2"):
                how = {"class": "operator", "op": kind, "n_orb": n_orb, "utd": utd}
                op = guarded(chk, "operator:%s" % kind, how, lambda: symmetry_op(kind, n_orb, utd))
                if op is None:
                    continue
                ops[kind] = op
                J.add(kind, how, f=fop_json(op), n=2 * n_orb, utd=utd)
            if n_orb > 3:
                continue
            specs = penalty_specs(n_orb, rng, quick)
            if n_orb == 3:
                specs = [s for s in specs if all(k != "S2" for k, _, _ in s["parts"])][::2 if quick else 1] + \
                        [s for s in specs if any(k == "S2" for k, _, _ in s["parts"])][:2 if quick else 6]
            for spec in specs:
                how = {"class": "penalty", "spec": spec, "n_orb": n_orb, "utd": utd}
                P = guarded(chk, "penalty:%s" % spec["form"], how, lambda: penalty_op(spec, n_orb, utd))
                if P is not None:
                    J.add("pen", how, f=fop_json(P), parts=parts_json(spec["parts"]), n=2 * n_orb, utd=utd)


# =====================================================================================================================
# C. commutation with Hamiltonians built by the code
# =====================================================================================================================
_UHF = None


def synth_uhf_hamiltonian(nmo, c0, ha, hb, gaa, gab, gbb):
    global _UHF
    import numpy as np
    from tangelo import SecondQuantizedMolecule
    from tangelo.toolboxes.molecular_computation.integral_solver import IntegralSolver
    if _UHF is None:
        class SynthUHF(IntegralSolver):
            def __init__(self, nmo, c0, h, g):
                self.nmo, self.c0, self.h, self.g = nmo, c0, h, g

            def set_physical_data(self, mol):
                mol.xyz = [("H", (0., 0., float(i))) for i in range(2)]
                mol.n_atoms = 2
                mol.n_electrons = 2

            def compute_mean_field(self, sqmol):
                sqmol.mf_energy = 0.
                sqmol.mo_energies = None
                occ = np.array([1.] + [0.] * (self.nmo - 1))
                sqmol.mo_occ = [occ.copy(), occ.copy()]
                sqmol.n_mos = self.nmo
                sqmol.n_sos = 2 * self.nmo
                sqmol.mo_symm_ids = None
                sqmol.mo_symm_labels = None
                self.mo_coeff = (np.eye(self.nmo), np.eye(self.nmo))

            def get_integrals(self, sqmol, mo_coeff=None):
                return float(self.c0), [np.array(x, dtype=float) for x in self.h], [np.array(x, dtype=float) for x in self.g]
        _UHF = SynthUHF
    mol = SecondQuantizedMolecule([("H", (0., 0., 0.)), ("H", (0., 0., 1.))], 0, 0, solver=_UHF(nmo, c0, [ha, hb], [gaa, gab, gbb]),
                                  uhf=True, frozen_orbitals=None)
    return mol.fermionic_hamiltonian


def rand_uhf_integrals(rng, nmo):
    """different alpha / beta one-body parts, aa/bb 8-fold symmetric, ab with the (ij|kl) = (ji|kl) = (ij|lk) symmetries."""
    _, ha, gaa = rand_integrals(rng, nmo)
    _, hb, gbb = rand_integrals(rng, nmo)
    eri = {}
    gab = [[[[0] * nmo for _ in range(nmo)] for _ in range(nmo)] for _ in range(nmo)]
    for i, j, k, l in itertools.product(range(nmo), repeat=4):
        key = (tuple(sorted((i, j))), tuple(sorted((k, l))))
        if key not in eri:
            eri[key] = rng.randint(-2, 2)
        gab[i][k][l][j] = eri[key]
    return rng.choice([0, 1]), ha, hb, gaa, gab, gbb


def gen_commutation(J, rng, quick):
    chk = J.chk
    plan = [(2, 4 if quick else 12), (3, 1 if quick else 4)]
    for nmo, count in plan:
        for x in range(count):
            c0, h, g = rand_integrals(rng, nmo)
            ints = {"nmo": nmo, "c0": c0, "h": h, "g": g}
            H = guarded(chk, "hamiltonian:restricted", ints, lambda: synth_hamiltonian(nmo, c0, h, g))
            if H is None:
                continue
            hj = fop_json(H)
            for kind in ("N", "Sz", "S2"):
                op = symmetry_op(kind, nmo, False)
                J.add("comm", {"class": "commutation", "op": kind, "ref": "restricted", "ints": ints}, op=fop_json(op), ham=hj, n=2 * nmo)
        for x in range(max(1, count // 2)):
            u = rand_uhf_integrals(rng, nmo)
            ints = {"nmo": nmo, "uhf": [u[0]] + [list(t) for t in u[1:]]}
            H = guarded(chk, "hamiltonian:uhf", {"nmo": nmo}, lambda: synth_uhf_hamiltonian(nmo, *u))
            if H is None:
                continue
            hj = fop_json(H)
            for kind in ("N", "Sz"):
                op = symmetry_op(kind, nmo, False)
                J.add("comm", {"class": "commutation", "op": kind, "ref": "uhf", "ints": ints}, op=fop_json(op), ham=hj, n=2 * nmo)


# =====================================================================================================================
# D. encoded penalties
# =====================================================================================================================
def encode(op, enc, nso, utd, ne=None, spin=0):
    from tangelo.toolboxes.qubit_mappings.mapping_transform import fermion_to_qubit_mapping
    nq = nso - 2 if enc == "SCBK" else nso
    q = fermion_to_qubit_mapping(copy.deepcopy(op), enc, n_spinorbitals=nso, n_electrons=ne, up_then_down=utd, spin=spin)
    return qubit_op_to_json(q, nq, M), nq


def gen_encoded(J, rng, quick):
    from tangelo.toolboxes.qubit_mappings.statevector_mapping import get_mapped_vector
    import numpy as np
    chk = J.chk
    for n_orb in ([2] if quick else [2, 3]):
        nso = 2 * n_orb
        singles = [("N", 1, n_orb), ("N", 3, 1), ("Sz", 2, 0), ("Sz", 1, -0.5), ("S2", 1, 0), ("S2", 2, 0.75)]
        combos = [[("N", 1, n_orb), ("Sz", 2, 0)], [("N", 3, 1), ("Sz", 1, 0.5), ("S2", 2, 0.75)]]
        specs = [{"form": "single", "parts": [s]} for s in singles] + [{"form": "combined", "parts": c} for c in combos]
        if n_orb == 3:
            specs = [s for s in specs if all(k != "S2" for k, _, _ in s["parts"])] + ([] if quick else specs[4:5])
        for enc in ENCODINGS:
            for utd in (False, True):
                sectors = [(None, 0)] if enc != "SCBK" else [(2, 0), (1, 1), (3, -1), (2, 2)][:2 if quick else 4]
                for ne, spin in sectors:
                    cfg = {"enc": enc, "n_orb": n_orb, "utd": utd, "ne": ne, "spin": spin}
                    opimg = {}
                    for kind in ("N", "Sz", "S2"):
                        r = guarded(chk, "encode:%s" % enc, dict(cfg, op=kind), lambda: encode(symmetry_op(kind, n_orb, False), enc, nso, utd, ne, spin))
                        if r is not None:
                            opimg[kind], nq = r
                    if len(opimg) < 3:
                        continue
                    for spec in specs:
                        how = dict(cfg, **{"class": "encoded-penalty", "spec": spec})
                        r = guarded(chk, "encode:%s" % enc, how, lambda: encode(penalty_op(spec, n_orb, False), enc, nso, utd, ne, spin))
                        if r is None:
                            continue
                        iP = r[0]
                        J.add("encpen", how, iP=iP, nq=nq,
                              imgs=[{"mu": ring(mu), "v": ring(v), "op": opimg[k]} for k, mu, v in spec["parts"]])
                        if all(k != "S2" for k, _, _ in spec["parts"]):
                            dets = []
                            for vec in itertools.product((0, 1), repeat=nso):
                                if enc == "SCBK" and (sum(vec) % 2 != ne % 2 or sum(vec[::2]) % 2 != ((ne + spin) // 2) % 2):
                                    continue        # scBK represents one parity sector only
                                x = get_mapped_vector(np.array(vec, dtype=int), enc, up_then_down=utd)
                                dets.append({"occ": list(vec), "x": [int(b) for b in x]})
                            J.add("encdet", dict(how, **{"class": "encoded-penalty-on-determinants"}), iP=iP, nq=nq, n=nso, utd=False,
                                  parts=parts_json(spec["parts"]), dets=dets)


# =====================================================================================================================
# E. ansatz conservation (Jordan-Wigner)
# =====================================================================================================================
def synth_molecule(nmo, ne, spin=0, frozen=None, rng=None):
    """integer-integral molecule with ne electrons (2S = spin) in nmo orbitals, RHF / ROHF occupations, optional frozen
    orbitals (occupied and / or virtual); no pyscf."""
    import numpy as np
    from tangelo import SecondQuantizedMolecule
    from tangelo.toolboxes.molecular_computation.integral_solver import IntegralSolver
    c0, h, g = rand_integrals(rng or random.Random(7), nmo)
    nd = (ne - spin) // 2
    occ = [2.] * nd + [1.] * spin + [0.] * (nmo - nd - spin)

    class Solver(IntegralSolver):
        def set_physical_data(self, mol):
            mol.xyz = [("H", (0., 0., float(i))) for i in range(ne)]
            mol.n_atoms = ne
            mol.n_electrons = ne

        def compute_mean_field(self, sqmol):
            sqmol.mf_energy = 0.
            sqmol.mo_energies = None
            sqmol.mo_occ = np.array(occ)
            sqmol.n_mos = nmo
            sqmol.n_sos = 2 * nmo
            sqmol.mo_symm_ids = None
            sqmol.mo_symm_labels = None
            self.mo_coeff = np.eye(nmo)

        def get_integrals(self, sqmol, mo_coeff=None):
            return float(c0), np.array(h, dtype=float), np.array(g, dtype=float)
    return SecondQuantizedMolecule([("H", (0., 0., float(i))) for i in range(ne)], 0, spin, solver=Solver(), frozen_orbitals=frozen)


def closed_shell_molecule(nmo, ne, rng):
    """integer-integral molecule with ne electrons in nmo orbitals (RHF reference, nothing frozen)."""
    return synth_molecule(nmo, ne, 0, None, rng)


def sym_images(nso, utd, ne, sz2, enc="JW"):
    """[{op: Enc(N), v: ne}, {op: Enc(Sz), v: sz}] recorded from the code (fermionic operators in the alternating numbering)."""
    n_orb = nso // 2
    iN, nq = encode(symmetry_op("N", n_orb, False), enc, nso, utd)
    iS, _ = encode(symmetry_op("Sz", n_orb, False), enc, nso, utd)
    return [{"op": iN, "v": ring(ne)}, {"op": iS, "v": ring(sz2 / 2)}], nq


def ansatz_factories(quick):
    """(name, n_mo, n_e, constructor) for the particle-conserving ansaetze with a fermionic generator per parameter."""
    from tangelo.toolboxes.ansatz_generator.uccsd import UCCSD
    from tangelo.toolboxes.ansatz_generator.upccgsd import UpCCGSD
    from tangelo.toolboxes.ansatz_generator.uccgd import UCCGD
    out = []
    for nmo, ne in ([(2, 2), (3, 2)] if quick else [(2, 2), (3, 2), (3, 4), (4, 4)]):
        for utd in (False, True):
            out.append(("UCCSD", nmo, ne, utd, lambda m, utd=utd: UCCSD(m, mapping="JW", up_then_down=utd)))
            out.append(("UpCCGSD", nmo, ne, utd, lambda m, utd=utd: UpCCGSD(m, mapping="JW", up_then_down=utd, k=1)))
            if nmo <= 3:
                out.append(("UCCGD", nmo, ne, utd, lambda m, utd=utd: UCCGD(m, mapping="JW", up_then_down=utd)))
    return out


def generator_of(name, ans, i):
    """qubit generator of parameter i (unit parameter vector), as the ansatz itself builds it."""
    import numpy as np
    e = np.zeros(ans.n_var_params)
    e[i] = 1.0
    ans.set_var_params(e)
    if name == "UCCSD":
        return ans._get_singlet_qubit_operator() if (ans.spin == 0 and not ans.molecule.uhf) else ans._get_openshell_qubit_operator()
    if name == "UpCCGSD":
        return ans._get_qubit_operator(0)
    if name == "UCCGD":
        import contextlib
        import io
        with contextlib.redirect_stdout(io.StringIO()):
            return ans._get_qubit_operator()
    raise ValueError(name)


def circuit_word_order(name, ans):
    """Pauli words of the built circuit in circuit order (the ansatz' own book-keeping of its variational gates)."""
    if name == "UCCSD":
        m = ans.pauli_to_angles_mapping
        return [w for w, _ in sorted(m.items(), key=lambda kv: kv[1])]
    if name == "UpCCGSD":
        m = ans.pauli_to_angles_mapping[0]
        return [w for w, _ in sorted(m.items(), key=lambda kv: kv[1])]
    if name == "UCCGD":
        return [w for w, _ in ans.pauli_order]
    raise ValueError(name)


def gen_ansatz(J, rng, quick):
    import contextlib
    import io
    import numpy as np
    chk = J.chk
    for name, nmo, ne, utd, make in ansatz_factories(quick):
        nso = 2 * nmo
        how0 = {"class": "ansatz", "ansatz": name, "nmo": nmo, "ne": ne, "utd": utd}

        def build():
            mol = closed_shell_molecule(nmo, ne, random.Random(7))
            ans = make(mol)
            S, nq = sym_images(nso, utd, ne, 0)
            gens = []
            for i in range(ans.n_var_params):
                gens.append(generator_of(name, ans, i))
            with contextlib.redirect_stdout(io.StringIO()):
                # generic (pairwise incommensurate) parameters: no word of the circuit cancels between two parameters
                ans.build_circuit(np.array([0.37 + 0.1371 * math.sqrt(2 + i) for i in range(ans.n_var_params)]))
            order = circuit_word_order(name, ans)
            return S, nq, gens, order
        r = guarded(chk, "ansatz:%s" % name, how0, build)
        if r is None:
            continue
        S, nq, gens, order = r
        for i, G in enumerate(gens):
            try:
                gj = qubit_op_to_json(G, nq, M)
            except OffGrid:
                chk.inconclusive += 1
                continue
            J.add("gen", dict(how0, **{"class": "generator", "param": i}), G=gj, S=S, nq=nq)
        try:
            cw = [[{"p": i, "c": ring(G.terms[w])} for i, G in enumerate(gens) if w in G.terms and G.terms[w] != 0] for w in order]
        except OffGrid:
            chk.inconclusive += 1
            continue
        covered = set(order)
        if any(w not in covered for G in gens for w in G.terms):
            chk.spec_drift("%s: some generator words do not appear in the circuit's book-keeping; block condition not evaluated" % name)
            continue
        J.add("block", dict(how0, **{"class": "block"}), words=[word_to_json(w, nq) for w in order], cw=cw, S=S, nq=nq)
    # ADAPT default fermionic pool (uccgsd_generator), processed as ADAPTSolver.build does: encoded with the solver's mapping,
    # coefficients replaced by the sign of their imaginary part.  Every pool element must commute with Enc(N), Enc(Sz).
    from tangelo.toolboxes.ansatz_generator._general_unitary_cc import uccgsd_generator
    from tangelo.toolboxes.qubit_mappings.mapping_transform import fermion_to_qubit_mapping
    for nmo, ne in ([(2, 2)] if quick else [(2, 2), (3, 2), (3, 4)]):
        nso = 2 * nmo
        for utd in (False, True):
            how0 = {"class": "adapt-pool", "pool": "uccgsd", "nmo": nmo, "ne": ne, "utd": utd}

            def pool():
                np.random.seed(chk.seed + 11)
                ops = uccgsd_generator(n_qubits=nso)
                out = []
                for fi in ops:
                    q = fermion_to_qubit_mapping(fermion_operator=fi, mapping="JW", n_spinorbitals=nso, n_electrons=ne,
                                                 up_then_down=utd, spin=0)
                    for term, coeff in q.terms.items():
                        q.terms[term] = math.copysign(1., coeff.imag)
                    out.append(q)
                return out
            pool_ops = guarded(chk, "adapt-pool", how0, pool)
            if pool_ops is None:
                continue
            S, nq = sym_images(nso, utd, ne, 0)
            for i, q in enumerate(pool_ops):
                J.add("gen", dict(how0, param=i), G=qubit_op_to_json(q, nq, M), S=S, nq=nq)


def grid_params(n, rng, count):
    """integer multipliers of the per-parameter unit angle: vectors with every entry non-zero (all rotations of the circuit
    active at once - this is where a wrong word order shows) interleaved with two axis vectors."""
    out = []
    axis = 0
    while len(out) < count:
        out.append([rng.randrange(1, 8) for _ in range(n)])
        if axis < min(n, 2) and len(out) < count and count > 2:
            v = [0] * n
            v[axis] = 1 + 2 * axis
            out.append(v)
            axis += 1
    return out[:count]


def gen_circuits(J, rng, quick):
    """exact ring evaluation (M = 16) of built circuits at grid parameters: 4-qubit (H2-sized) and 6-qubit instances."""
    import contextlib
    import io
    import numpy as np
    from tangelo.toolboxes.ansatz_generator.uccsd import UCCSD
    from tangelo.toolboxes.ansatz_generator.upccgsd import UpCCGSD
    from tangelo.toolboxes.ansatz_generator.uccgd import UCCGD
    from tangelo.toolboxes.ansatz_generator.rucc import RUCC
    from tangelo.toolboxes.ansatz_generator.puccd import pUCCD
    chk = J.chk
    pi = math.pi
    mols = {}

    def mol(nmo, ne):
        if (nmo, ne) not in mols:
            mols[(nmo, ne)] = closed_shell_molecule(nmo, ne, random.Random(7))
        return mols[(nmo, ne)]
    # (name, nmo, ne, ordering of the symmetry images, constructor, number of grid points)
    cases = []
    for utd in (False, True):
        cases.append(("UCCSD", 2, 2, utd, lambda utd=utd: UCCSD(mol(2, 2), mapping="JW", up_then_down=utd), 6 if quick else 24))
        cases.append(("UpCCGSD", 2, 2, utd, lambda utd=utd: UpCCGSD(mol(2, 2), mapping="JW", up_then_down=utd, k=1), 6 if quick else 24))
        cases.append(("UCCGD", 2, 2, utd, lambda utd=utd: UCCGD(mol(2, 2), mapping="JW", up_then_down=utd), 6 if quick else 24))
        if not quick or not utd:
            cases.append(("UCCSD", 3, 2, utd, lambda utd=utd: UCCSD(mol(3, 2), mapping="JW", up_then_down=utd), 1 if quick else 4))
        if not quick:
            cases.append(("UCCSD", 3, 4, utd, lambda utd=utd: UCCSD(mol(3, 4), mapping="JW", up_then_down=utd), 1 if quick else 3))
            cases.append(("UpCCGSD", 3, 2, utd, lambda utd=utd: UpCCGSD(mol(3, 2), mapping="JW", up_then_down=utd, k=1), 1 if quick else 3))
    if not quick:
        cases.append(("UpCCGSD", 2, 2, False, lambda: UpCCGSD(mol(2, 2), mapping="JW", k=2), 12))
        cases.append(("UCCGD", 3, 2, False, lambda: UCCGD(mol(3, 2), mapping="JW"), 2))
    cases.append(("UCC1", 2, 2, True, lambda: RUCC(1), 6 if quick else 16))
    cases.append(("UCC3", 2, 2, True, lambda: RUCC(3), 6 if quick else 24))
    for name, nmo, ne, utd, make, n_per in cases:
        how0 = {"class": "circuit", "ansatz": name, "nmo": nmo, "ne": ne, "utd": utd}
        ans = guarded(chk, "ansatz:%s" % name, how0, make)
        if ans is None:
            continue
        S, nq = sym_images(2 * nmo, utd, ne, 0)
        S16 = [{"op": [dict(t, c=ring_convert(t["c"])) for t in s["op"]], "v": ring_convert(s["v"])} for s in S]
        npar = ans.n_var_params
        if name in ("UCCSD", "UpCCGSD", "UCCGD"):
            # unit angle per parameter: the smallest word coefficient c_min of its generator gets RZ(2 c_min theta) = pi/4 * integer
            units = []
            per = ans.n_var_params_per_step if name == "UpCCGSD" else npar
            for i in range(npar):
                cs = [abs(c) for c in generator_of(name, ans, i % per).terms.values() if c != 0]
                cmin = min(cs) if cs else None          # an empty generator: the parameter does nothing
                if cmin and any(abs(c / cmin - round(c / cmin)) > 1e-9 for c in cs):
                    cmin = None
                units.append(pi / 8 / cmin if cmin else pi)
        else:
            units = [pi / 4] * npar
        for vec in grid_params(npar, rng, n_per):
            theta = [u * m for u, m in zip(units, vec)]
            try:
                with contextlib.redirect_stdout(io.StringIO()):
                    ans.build_circuit(np.array(theta, dtype=float) if name not in ("UCC1", "UCC3") else list(theta))
                gj = gates_to_json(list(ans.circuit), MC)
            except OffGrid:
                chk.inconclusive += 1
                continue
            except Exception as e:
                chk.violation("exception:ansatz:%s" % name, "%s: %s" % (type(e).__name__, e), {"kind": "exception", "how": dict(how0, theta=vec)})
                continue
            J.add("circ", dict(how0, theta_units=vec, units=[round(u / pi, 6) for u in units]), gates=gj, nq=max(nq, ans.circuit.width),
                  S=S16, M=MC)
    # pUCCD lives in the hard-core-boson picture: pair number on n_mo qubits
    from tangelo.toolboxes.qubit_mappings.mapping_transform import fermion_to_qubit_mapping
    for nmo, ne in ([(2, 2), (3, 2)] if quick else [(2, 2), (3, 2), (3, 4), (4, 4)]):
        molp = closed_shell_molecule(nmo, ne, random.Random(7))
        how0 = {"class": "circuit", "ansatz": "pUCCD", "nmo": nmo, "ne": ne}
        ans = guarded(chk, "ansatz:pUCCD", how0, lambda: pUCCD(molp))
        if ans is None:
            continue
        iN = qubit_op_to_json(fermion_to_qubit_mapping(symmetry_op("N", nmo, False), "HCB"), nmo, MC)
        S = [{"op": iN, "v": ring(ne, MC)}]
        for vec in grid_params(ans.n_var_params, rng, 4 if quick else 12):
            theta = [pi / 4 * m for m in vec]
            try:
                ans.build_circuit(np.array(theta, dtype=float))
                gj = gates_to_json(list(ans.circuit), MC)
            except OffGrid:
                chk.inconclusive += 1
                continue
            J.add("circ", dict(how0, theta_units=vec, units=[0.25] * len(vec)), gates=gj, nq=max(nmo, ans.circuit.width), S=S, M=MC)


def ring_convert(c):
    """ring element over R_8 (Gaussian dyadic) -> the same number over R_16."""
    out = [0] * (MC // 2)
    out[0] = c["c"][0]
    out[MC // 4] = c["c"][M // 4]
    if any(c["c"][j] for j in range(len(c["c"])) if j not in (0, M // 4)):
        raise OffGrid("not Gaussian")
    return {"c": out, "k": c["k"]}


# =====================================================================================================================
# F. states reached by a HISTORY of one ansatz object (build, then update_var_params): spec/C12History.tla generates the
#    parameter histories, the FINAL circuit is judged exactly (ring engine on 4 qubits, stabiliser engine at Clifford points
#    on 6 and 8 qubits)
# =====================================================================================================================
def make_instance(name, nmo, ne, utd, k=1):
    from tangelo.toolboxes.ansatz_generator.uccsd import UCCSD
    from tangelo.toolboxes.ansatz_generator.upccgsd import UpCCGSD
    from tangelo.toolboxes.ansatz_generator.uccgd import UCCGD
    from tangelo.toolboxes.ansatz_generator.rucc import RUCC
    from tangelo.toolboxes.ansatz_generator.puccd import pUCCD
    if name == "UCC1":
        return RUCC(1)
    if name == "UCC3":
        return RUCC(3)
    mol = closed_shell_molecule(nmo, ne, random.Random(7))
    if name == "UCCSD":
        return UCCSD(mol, mapping="JW", up_then_down=utd)
    if name == "UpCCGSD":
        return UpCCGSD(mol, mapping="JW", up_then_down=utd, k=k)
    if name == "UCCGD":
        return UCCGD(mol, mapping="JW", up_then_down=utd)
    if name == "pUCCD":
        return pUCCD(mol)
    raise ValueError(name)


def history_units(name, ans, engine):
    """unit angle per parameter: the smallest word rotation of the parameter's generator is pi/4 (ring engine) or pi/2
    (stabiliser engine); every other word of the parameter must be an integer multiple of it (else the unit is None)."""
    pi = math.pi
    npar = ans.n_var_params
    if name in ("UCC1", "UCC3"):
        return [pi / 4 if engine == "ring" else pi / 2] * npar
    if name == "pUCCD":
        return [pi / 4 if engine == "ring" else pi] * npar          # CRY(-theta), singly controlled
    per = ans.n_var_params_per_step if name == "UpCCGSD" else npar
    base = []
    for i in range(per):
        cs = [abs(c) for c in generator_of(name, ans, i).terms.values() if c != 0]
        cmin = min(cs) if cs else None
        if cmin and any(abs(c / cmin - round(c / cmin)) > 1e-9 for c in cs):
            cmin = None
        base.append(((pi / 8) if engine == "ring" else (pi / 4)) / cmin if cmin else None)
    return [base[i % per] for i in range(npar)]


_hist_cache = {}
_units_cache = {}


def tlc_histories(chk, np_, layer, maxlen, num):
    """behaviours of spec/C12History.tla for np_ parameters in layers of `layer` (tlc -simulate, seeded)."""
    key = (np_, layer, maxlen, num)
    if key not in _hist_cache:
        cfg = ("CONSTANTS Mode = \"zeros\"\nNP = %d\nLayer = %d\nMaxLen = %d\nINIT Init\nNEXT Next\nINVARIANT TypeOK\nINVARIANT StartsWithZero\n"
               "INVARIANT EndOfBehaviour\n" % (np_, layer, maxlen))
        r = tlc.run("C12History", cfg, "c12/hist_np%d_%d" % (np_, layer), workers=1, simulate="num=%d" % num, depth=maxlen, seed=chk.seed + 17)
        if not r.ok:
            raise tlc.TLCError("C12History failed: %s\n%s" % (r.violated, r.out[-1200:]))
        chk.add_tlc(r, "G_history_np%d_layer%d" % (np_, layer))
        seen, out = set(), []
        for b in r.prints("BH"):
            t = tuple(tuple(v) for v in b["h"])
            if t not in seen:
                seen.add(t)
                out.append([list(v) for v in b["h"]])
        _hist_cache[key] = out
    return _hist_cache[key]


def pick_histories(hs, rng, n):
    """a seeded selection that contains, when available, an unchanged-pattern update and a changed-pattern one."""
    def pat(v):
        return tuple(x == 0 for x in v)
    same = [h for h in hs if pat(h[-1]) == pat(h[-2]) and any(h[-1]) and h[-1] != h[-2]]
    other = [h for h in hs if pat(h[-1]) != pat(h[-2])]
    rng.shuffle(same)
    rng.shuffle(other)
    out = []
    while len(out) < n and (same or other):        # two unchanged-pattern histories for every changed-pattern one
        for _ in range(2):
            if same and len(out) < n:
                out.append(same.pop())
        if other and len(out) < n:
            out.append(other.pop())
    return out


def history_job(J, inst, h, S_by_engine, common=False, extra=None):
    """replay one history on a fresh ansatz object and record its final circuit.  common=True: every parameter uses ONE
    amplitude unit (the largest per-parameter unit, which all others must divide): levels +l / -l are exactly opposite."""
    import contextlib
    import io
    import numpy as np
    chk = J.chk
    name, nmo, ne, utd, k, engine = inst
    how = {"class": "history", "ansatz": name, "nmo": nmo, "ne": ne, "utd": utd, "k": k, "engine": engine, "hist": h, "common": common}
    how.update(extra or {})
    try:
        ans = make_instance(name, nmo, ne, utd, k)
        if inst not in _units_cache:
            _units_cache[inst] = history_units(name, make_instance(name, nmo, ne, utd, k), engine)
        units = _units_cache[inst]
        if any(u is None for u in units):
            chk.inconclusive += 1
            return
        if common:
            big = max(units)
            if any(abs(big / u - round(big / u)) > 1e-9 for u in units):
                chk.inconclusive += 1
                return
            units = [big] * len(units)
        with contextlib.redirect_stdout(io.StringIO()):
            for step, v in enumerate(h):
                theta = [u * m for u, m in zip(units, v)]
                arg = list(theta) if name in ("UCC1", "UCC3") else np.array(theta, dtype=float)
                if step == 0:
                    ans.build_circuit(arg)
                else:
                    ans.update_var_params(arg)
        m = MC if engine == "ring" else M
        gj = gates_to_json(list(ans.circuit), m)
    except OffGrid:
        chk.inconclusive += 1
        return
    except Exception as e:
        chk.violation("exception:history:%s" % name, "%s: %s (%s)" % (type(e).__name__, e, str(how)[:300]), {"kind": "exception", "how": how})
        return
    S, nq = S_by_engine
    J.add("circ" if engine == "ring" else "cliff", how, gates=gj, nq=max(nq, ans.circuit.width), S=S, M=m)


def history_symmetries(name, nmo, ne, utd, engine):
    from tangelo.toolboxes.qubit_mappings.mapping_transform import fermion_to_qubit_mapping
    m = MC if engine == "ring" else M
    if name == "pUCCD":
        iN = qubit_op_to_json(fermion_to_qubit_mapping(symmetry_op("N", nmo, False), "HCB"), nmo, m)
        return [{"op": iN, "v": ring(ne, m)}], nmo
    S, nq = sym_images(2 * nmo, utd, ne, 0)
    if engine == "ring":
        S = [{"op": [dict(t, c=ring_convert(t["c"])) for t in s["op"]], "v": ring_convert(s["v"])} for s in S]
    return S, nq


def history_instances(quick):
    """(name, nmo, ne, utd, k, engine, number of histories)"""
    q = quick
    out = [("UCCSD", 2, 2, False, 1, "ring", 2 if q else 8), ("UCCSD", 2, 2, True, 1, "ring", 1 if q else 6),
           ("UpCCGSD", 2, 2, False, 1, "ring", 1 if q else 6), ("UpCCGSD", 2, 2, False, 2, "ring", 2 if q else 8),
           ("UpCCGSD", 2, 2, True, 3, "ring", 2 if q else 8), ("UCCGD", 2, 2, False, 1, "ring", 2 if q else 8),
           ("UCC1", 2, 2, True, 1, "ring", 1 if q else 3), ("UCC3", 2, 2, True, 1, "ring", 2 if q else 8),
           ("pUCCD", 2, 2, False, 1, "ring", 1 if q else 3), ("pUCCD", 3, 2, False, 1, "ring", 1 if q else 6),
           # stabiliser engine at Clifford points: 6 and 8 qubits (H4-sized)
           # 6 qubits, ring engine (rotations of pi/4 per word: a mis-assigned angle inside one excitation shows; at
           # Clifford points it often does not - measured with the UpCCGSD layer-offset mutant)
           ("UpCCGSD", 3, 2, False, 2, "ring", 1 if q else 5), ("UCCSD", 3, 2, False, 1, "ring", 1 if q else 3),
           ("UCCSD", 3, 2, False, 1, "cliff", 0 if q else 6), ("UpCCGSD", 3, 2, False, 2, "cliff", 0 if q else 8),
           ("UCCSD", 4, 4, False, 1, "cliff", 1 if q else 10), ("UpCCGSD", 4, 4, False, 2, "cliff", 2 if q else 14),
           ("pUCCD", 4, 4, False, 1, "cliff", 1 if q else 6)]
    if not q:
        out += [("UCCSD", 4, 4, True, 1, "cliff", 6), ("UpCCGSD", 4, 4, True, 2, "cliff", 8), ("UpCCGSD", 4, 4, False, 1, "cliff", 6),
                ("UpCCGSD", 4, 4, False, 3, "cliff", 8), ("UpCCGSD", 3, 2, True, 3, "cliff", 8), ("UCCSD", 3, 4, True, 1, "cliff", 6),
                ("UCCGD", 3, 2, False, 1, "cliff", 2)]
    return out


# =====================================================================================================================
# G. molecules with FROZEN orbitals and open shells: the reference numbers are those of the ACTIVE space
# =====================================================================================================================
def frozen_molecules(quick):
    """(nmo, ne, spin, frozen): frozen occupied / frozen virtual / both; closed and open shell; active spaces of 2-3 orbitals"""
    out = [(3, 4, 0, [0]), (3, 2, 0, [2]), (4, 4, 0, [0, 3]), (4, 4, 0, [0]),        # closed shell: occupied, virtual, both, 3 active
           (3, 3, 1, [0]), (3, 3, 1, None)]                                          # open shell (doublet): frozen occupied, none
    if not quick:
        out += [(4, 6, 0, [0, 1]), (4, 2, 0, [2, 3]), (4, 5, 1, [0]), (4, 4, 2, [3]), (4, 6, 2, [0]), (3, 2, 2, None)]
    return out


def ansatz_on(name, mol, utd):
    from tangelo.toolboxes.ansatz_generator.uccsd import UCCSD
    from tangelo.toolboxes.ansatz_generator.upccgsd import UpCCGSD
    from tangelo.toolboxes.ansatz_generator.uccgd import UCCGD
    from tangelo.toolboxes.ansatz_generator.puccd import pUCCD
    if name == "UCCSD":
        return UCCSD(mol, mapping="JW", up_then_down=utd)
    if name == "UpCCGSD":
        return UpCCGSD(mol, mapping="JW", up_then_down=utd, k=1)
    if name == "UCCGD":
        return UCCGD(mol, mapping="JW", up_then_down=utd)
    if name == "pUCCD":
        return pUCCD(mol)
    raise ValueError(name)


def frozen_job(J, rng, name, molspec, utd, vec=None):
    """build the ansatz on a molecule with frozen orbitals at a grid vector with all parameters non-zero (ring engine) and
    record the circuit with the reference numbers of the ACTIVE space: N = n_active_electrons, Sz = active_spin / 2."""
    import contextlib
    import io
    import numpy as np
    from tangelo.toolboxes.qubit_mappings.mapping_transform import fermion_to_qubit_mapping
    chk = J.chk
    nmo, ne, spin, frozen = molspec
    how = {"class": "frozen", "ansatz": name, "mol": list(molspec), "utd": utd}
    try:
        mol = synth_molecule(nmo, ne, spin, frozen)
        n_act, ne_act, sz2 = mol.n_active_mos, mol.n_active_electrons, mol.active_spin
        if name == "pUCCD" and spin != 0:
            return                      # pUCCD is a closed-shell (paired) ansatz
        if n_act > 3:
            return
        with contextlib.redirect_stdout(io.StringIO()):
            ans = ansatz_on(name, mol, utd)
            npar = ans.n_var_params
            units = history_units(name, ansatz_on(name, mol, utd), "ring") if npar else []
            if any(u is None for u in units):
                chk.inconclusive += 1
                return
            vec = vec or [rng.randrange(1, 8) for _ in range(npar)]
            ans.build_circuit(np.array([u * m for u, m in zip(units, vec)], dtype=float))
        gj = gates_to_json(list(ans.circuit), MC)
        if name == "pUCCD":
            iN = qubit_op_to_json(fermion_to_qubit_mapping(symmetry_op("N", n_act, False), "HCB"), n_act, MC)
            S, nq = [{"op": iN, "v": ring(ne_act, MC)}], n_act
        else:
            S8, nq = sym_images(2 * n_act, utd, ne_act, sz2)
            S = [{"op": [dict(t, c=ring_convert(t["c"])) for t in x["op"]], "v": ring_convert(x["v"])} for x in S8]
    except OffGrid:
        chk.inconclusive += 1
        return
    except Exception as e:
        chk.violation("exception:frozen:%s" % name, "%s: %s (%s)" % (type(e).__name__, e, how), {"kind": "exception", "how": how})
        return
    J.add("circ", dict(how, theta_units=vec, n_active=[n_act, ne_act, sz2]), gates=gj, nq=max(nq, ans.circuit.width), S=S, M=MC)


def gen_frozen(J, rng, quick):
    for molspec in frozen_molecules(quick):
        for name in ("UCCSD", "UpCCGSD", "UCCGD", "pUCCD"):
            nmo, ne, spin, frozen = molspec
            n_act = nmo - len(frozen or [])
            if quick and n_act == 3 and name != "pUCCD":
                continue                # 6-qubit circuits (600-1400 gates, ring engine): thorough only
            heavy = n_act == 3 and name in ("UCCGD", "UpCCGSD")            # 6 qubits, 1000+ gates, ring engine
            if heavy and molspec != (4, 4, 0, [0]):
                continue
            for utd in ((False,) if (quick or n_act == 3) else (False, True)):
                frozen_job(J, rng, name, molspec, utd)


def tlc_sign_histories(chk, np_, mode):
    """exhaustive (breadth-first) sign histories of spec/C12History.tla: mode "flip" or "pair"."""
    key = (np_, mode)
    if key not in _hist_cache:
        cfg = ('CONSTANTS Mode = "%s"\nNP = %d\nLayer = %d\nMaxLen = 2\nINIT SignInit\nNEXT SignNext\nINVARIANT SignTypeOK\n'
               'INVARIANT EndOfBehaviour\n' % (mode, np_, np_))
        r = tlc.run("C12History", cfg, "c12/sign_%s_np%d" % (mode, np_), workers=2)
        if not r.ok:
            raise tlc.TLCError("C12History (%s) failed: %s\n%s" % (mode, r.violated, r.out[-1200:]))
        chk.add_tlc(r, "G_sign_%s_np%d" % (mode, np_))
        _hist_cache[key] = sorted([b["h"] for b in r.prints("BH")])
    return _hist_cache[key]


def gen_sign_histories(J, rng, quick):
    """UCCGD (the ansatz whose word ORDER depends on the amplitudes): build at a sign-free vector, then update to a vector with
    exactly opposite amplitudes; the final circuit is judged.  8 qubits: stabiliser engine; 4 / 6 qubits: ring engine."""
    chk = J.chk
    plan = [("UCCGD", 4, 4, False, 1, "cliff"), ("UCCGD", 2, 2, False, 1, "ring")] + \
           ([] if quick else [("UCCGD", 3, 2, False, 1, "ring"), ("UCCGD", 4, 4, True, 1, "cliff")])
    for inst in plan:
        name, nmo, ne, utd, k, engine = inst
        probe = guarded(chk, "ansatz:%s" % name, {"class": "history", "ansatz": name, "nmo": nmo}, lambda: make_instance(name, nmo, ne, utd, k))
        if probe is None:
            continue
        npar = probe.n_var_params
        Sb = history_symmetries(name, nmo, ne, utd, engine)
        flips = tlc_sign_histories(chk, npar, "flip")
        pairs = tlc_sign_histories(chk, npar, "pair")
        if quick and nmo == 4:
            # the all-equal level pattern: the flipped parameter is exactly opposite to EVERY other one; each parameter once
            flips = [h for h in flips if set(h[0]) == {1}]
            pairs = rng.sample(pairs, 3)
        elif quick:
            flips, pairs = rng.sample(flips, min(4, len(flips))), rng.sample(pairs, min(2, len(pairs)))
        elif nmo == 3:           # 6 qubits, ring engine, ~1400 gates per circuit: the all-equal flips and a few pairs
            flips = [h for h in flips if set(h[0]) == {1}]
            pairs = rng.sample(pairs, 6)
        elif utd:
            pairs = rng.sample(pairs, min(60, len(pairs)))
        for sign, hs in (("flip", flips), ("pair", pairs)):
            for h in hs:
                history_job(J, inst, h, Sb, common=True, extra={"sign": sign})


def gen_histories(J, rng, quick):
    chk = J.chk
    maxlen = 3 if quick else 4
    for name, nmo, ne, utd, k, engine, n_hist in history_instances(quick):
        if n_hist == 0:
            continue
        how0 = {"class": "history", "ansatz": name, "nmo": nmo, "ne": ne, "utd": utd, "k": k}
        probe = guarded(chk, "ansatz:%s" % name, how0, lambda: make_instance(name, nmo, ne, utd, k))
        if probe is None:
            continue
        layer = probe.n_var_params_per_step if name == "UpCCGSD" else probe.n_var_params
        hs = tlc_histories(chk, probe.n_var_params, layer, maxlen, 40 if quick else 120)
        Sb = history_symmetries(name, nmo, ne, utd, engine)
        for h in pick_histories(list(hs), rng, n_hist):
            history_job(J, (name, nmo, ne, utd, k, engine), h, Sb)


# =====================================================================================================================
# H. operator POOLS and excitation tables on registers large enough for every group to exist (2, 3, 4 spatial orbitals)
# =====================================================================================================================
def pool_tables(nmo):
    """(pool name, kinds to conserve, list of FermionOperators): every built-in generator table of the UCC family.
    S^2 is required only for openfermion's singlet generator; about half of the elements of the generalized tables do
    not commute with S^2 on the unchanged tree (already for 2 orbitals) - an observation recorded in docs/C12.md, outside the
    property (which claims N and Sz for the ansaetze)."""
    import numpy as np
    from tangelo.toolboxes.operators import FermionOperator
    from tangelo.toolboxes.ansatz_generator import _general_unitary_cc as g
    from tangelo.toolboxes.ansatz_generator._unitary_cc_paired import get_upccgsd
    from tangelo.toolboxes.ansatz_generator._unitary_cc_openshell import uccsd_openshell_generator, uccsd_openshell_paramsize
    from openfermion.circuits import uccsd_singlet_generator, uccsd_singlet_paramsize
    nso = 2 * nmo
    out = []
    ns, nd = g.get_singles_number(nmo), g.get_doubles_number(nmo)
    out.append(("uccgsd_generator", ["N", "Sz"], g.uccgsd_generator(nso, single_coeffs=np.ones(ns), double_coeffs=np.ones(nd))))
    rows = []
    for item in g.get_all_excitations(nmo, up_down=False):
        op = FermionOperator()
        for term in item:
            op += FermionOperator(*term[:-1], term[-1])
        rows.append(op)
    out.append(("get_all_excitations", ["N", "Sz"], rows))

    def unit_ops(npar, build):
        ops = []
        for i in range(npar):
            e = np.zeros(npar)
            e[i] = 1.0
            ops.append(build(e))
        return ops
    per = nmo * (nmo - 1) // 2 * 3
    out.append(("get_upccgsd", ["N", "Sz"], unit_ops(per, lambda e: get_upccgsd(nmo, e))))
    for ne in sorted(set([2, 2 * (nmo - 1)])):
        if 0 < ne < nso:
            npar = uccsd_singlet_paramsize(nso, ne)
            out.append(("uccsd_singlet_generator(ne=%d)" % ne, ["N", "Sz", "S2"], unit_ops(npar, lambda e: uccsd_singlet_generator(e, nso, ne))))
    if nmo >= 2:
        na, nb = (2, 1) if nmo >= 3 else (1, 0)
        sizes = uccsd_openshell_paramsize(na, nb, nmo, nmo)
        npar = sizes[0] + sizes[1]
        out.append(("uccsd_openshell_generator(%d,%d)" % (na, nb), ["N", "Sz"],
                    unit_ops(npar, lambda e: uccsd_openshell_generator(e, na, nb, nmo, nmo))))
    return out


def gen_pools(J, rng, quick):
    chk = J.chk
    for nmo in (2, 3, 4):
        tables = guarded(chk, "pool-tables", {"class": "pool", "nmo": nmo}, lambda: pool_tables(nmo))
        if tables is None:
            continue
        for name, kinds, ops in tables:
            idx = list(range(len(ops)))
            if nmo == 4 and (quick or len(idx) > 120):
                # 8 modes, 256 determinants: every group of the table is kept (first / last / seeded middle elements)
                keep = set(idx[:3] + idx[-3:] + rng.sample(idx, min(len(idx), 8 if quick else 60)))
                idx = sorted(keep)
            for i in idx:
                try:
                    fj = fop_json(ops[i])
                except OffGrid:
                    chk.inconclusive += 1
                    continue
                if not fj:
                    continue
                J.add("fockgen", {"class": "pool", "pool": name, "nmo": nmo, "element": i}, f=fj, kinds=kinds, n=2 * nmo, utd=False)


def adapt_states(J, rng, quick):
    """ADAPTAnsatz states built from several elements of the default pool (processed as ADAPTSolver.build does) on a
    3-orbital system: exact ring evaluation, the state must stay in its (N, Sz) sector."""
    import numpy as np
    from tangelo.toolboxes.ansatz_generator.adapt_ansatz import ADAPTAnsatz
    from tangelo.toolboxes.ansatz_generator._general_unitary_cc import uccgsd_generator, get_singles_number, get_doubles_number
    from tangelo.toolboxes.qubit_mappings.mapping_transform import fermion_to_qubit_mapping
    chk = J.chk
    nmo, nso = 3, 6
    for ne, utd in ((2, False), (4, True)) if quick else ((2, False), (2, True), (4, False), (4, True)):
        how0 = {"class": "adapt-state", "nmo": nmo, "ne": ne, "utd": utd}

        def pool():
            ferm = uccgsd_generator(nso, single_coeffs=np.ones(get_singles_number(nmo)), double_coeffs=np.ones(get_doubles_number(nmo)))
            qub = []
            for fi in ferm:
                q = fermion_to_qubit_mapping(fermion_operator=fi, mapping="JW", n_spinorbitals=nso, n_electrons=ne, up_then_down=utd, spin=0)
                for term, coeff in q.terms.items():
                    q.terms[term] = math.copysign(1., coeff.imag)
                qub.append(q)
            return ferm, qub
        r = guarded(chk, "adapt-pool", how0, pool)
        if r is None:
            continue
        ferm, qub = r
        S8, nq = sym_images(nso, utd, ne, 0)
        S = [{"op": [dict(t, c=ring_convert(t["c"])) for t in x["op"]], "v": ring_convert(x["v"])} for x in S8]
        small = [i for i in range(len(qub)) if 0 < len(qub[i].terms) <= 16]
        for trial in range(2 if quick else 6):
            # one single excitation and two doubles (the doubles groups need three distinct orbitals to exist)
            ns = get_singles_number(nmo)
            picks = [rng.choice([i for i in small if i < ns])] + rng.sample([i for i in small if i >= ns], 2)
            try:
                ans = ADAPTAnsatz(nso, ne, 0, {"mapping": "jw", "up_then_down": utd})
                ans.build_circuit()
                for i in picks:
                    ans.add_operator(qub[i], ferm[i])
                theta = [math.pi / 4 * rng.randrange(1, 8) for _ in picks]
                ans.build_circuit(theta)
                gj = gates_to_json(list(ans.circuit), MC)
            except OffGrid:
                chk.inconclusive += 1
                continue
            except Exception as e:
                chk.violation("exception:adapt-state", "%s: %s" % (type(e).__name__, e), {"kind": "exception", "how": dict(how0, picks=picks)})
                continue
            J.add("circ", dict(how0, picks=picks, theta_units=[round(t / math.pi * 4) for t in theta]), gates=gj,
                  nq=max(nq, ans.circuit.width), S=S, M=MC)


# =====================================================================================================================
def s_part(chk):
    invs = ["SpecEigen", "SpecS2Eigen", "S2Commutes", "SquarePositive", "FastApplyAgrees", "Discriminates", "BlockSelfCheck"]
    sets = ["{2, 4}", "{6}"]
    runs = [dict(module="C12Symmetry", name="c12/s%d" % k, workers=2,
                 cfg="CONSTANT M = %d\nSNs = %s\nINIT SInit\nNEXT SNext\n" % (M, s) + "".join("INVARIANT %s\n" % x for x in invs))
            for k, s in enumerate(sets)]
    for r in tlc.run_many(runs, max_parallel=2):
        if not r.ok:
            raise tlc.TLCError("C12 spec self-check failed: %s\n%s" % (r.violated, r.out[-1500:]))
        chk.add_tlc(r, "S_" + r.name.split("/")[-1])


def negative_controls(J, verdicts):
    """corrupted copies of ACCEPTED records, one per record kind; the trace spec must reject each."""
    ctl, seen = [], set()

    def bump(terms):
        t = copy.deepcopy(terms)
        t[0]["c"] = ring(2.0) if t[0]["c"] != ring(2.0) else ring(1.0)
        return t
    for j in J.jobs:
        k = j["k"]
        if k in seen or verdicts[j["id"]] != "ok":
            continue
        c = copy.deepcopy(j)
        if k in ("N", "Sz", "S2", "pen"):
            c["f"] = bump(c["f"])
        elif k == "fockgen":
            c["f"] = c["f"] + [{"t": [[0, 1], [1, 0]], "c": ring(1.0)}]        # an alpha -> beta spin flip: Sz changes
        elif k == "comm":
            c["op"] = c["op"] + [{"t": [[0, 1], [1, 0]], "c": ring(1.0)}] if j["n"] >= 4 else None
            if c["op"] is None:
                continue
        elif k == "encpen":
            if not c["iP"]:
                continue
            c["iP"] = bump(c["iP"])
        elif k == "encdet":
            c["dets"][0]["x"][0] ^= 1
            if len(c["dets"]) < 2:
                continue
        elif k == "gen":
            n = j["nq"]
            c["G"] = c["G"] + [{"w": [1] + [0] * (n - 1), "c": ring(1.0)}]
        elif k == "block":
            if len(c["words"]) < 2:
                continue
            for x, e in enumerate(c["cw"]):         # every word gets its own independent parameter
                for y in e:
                    y["p"] = 100 + x
        elif k in ("circ", "cliff"):
            c["gates"] = c["gates"] + [{"name": "X", "t": [0], "c": [], "k": 0}]
        seen.add(k)
        c["id"] = 10 ** 6 + len(ctl)
        ctl.append(c)
    return ctl


def tlc_commute(a, b):
    return sum(1 for x, y in zip(a, b) if x and y and x != y) % 2 == 0


def judge_jobs(chk, jobs, name, account=True):
    """the two carriers (R_8 records incl. the stabiliser jobs, R_16 ring-engine circuits) are judged CONCURRENTLY: the wall
    time of the ring stage is bounded by its longest single circuit (a 900-gate 6-qubit history), the other stage fills
    the remaining cores."""
    import concurrent.futures as cf
    by_m = {}
    for j in jobs:
        by_m.setdefault(j.get("M", M), []).append(j)
    share = {m: JVMS for m in by_m}
    if len(by_m) == 2:
        share = {M: max(2, JVMS // 3), MC: max(2, JVMS - JVMS // 3)}

    def stage(m):
        # longest-processing-time-first packing into one chunk per JVM; exact evaluation of a deep circuit costs much more
        # than linear in its length (the ring integers grow), so a 700-gate 6-qubit circuit gets a JVM of its own
        def cost(j):
            g = len(j.get("gates", ()))
            return len(str(j)) + (g * g * 2 ** j.get("nq", 0) if j["k"] == "circ" else 0)
        js = sorted(by_m[m], key=lambda j: -cost(j))
        nch = max(1, min(len(js), 3 * share[m] if m == M else share[m]))
        chunks, load = [[] for _ in range(nch)], [0] * nch
        for j in js:
            a = load.index(min(load))
            chunks[a].append(j)
            load[a] += cost(j)
        verdicts, results = {}, []
        runs = [ex2 for ex2 in chunks if ex2]
        import concurrent.futures as cf2
        with cf2.ThreadPoolExecutor(max_workers=share[m]) as pool:
            futs = [pool.submit(tlc.judge, "C12Trace", ch, "%s%d_%02d" % (name, m, a), {"M": m}, len(ch), 1, 7200)
                    for a, ch in enumerate(runs)]
            for f in futs:
                v, r = f.result()
                verdicts.update(v)
                results += r
        return verdicts, results
    verdicts = {}
    with cf.ThreadPoolExecutor(max_workers=2) as ex:
        for v, results in ex.map(stage, sorted(by_m)):
            verdicts.update(v)
            if account:
                for r in results:
                    chk.add_tlc(r)
    return verdicts


def judge_all(chk, J, name="c12/v"):
    verdicts = judge_jobs(chk, J.jobs, name)
    ctl = negative_controls(J, verdicts)
    if ctl:
        verdicts.update(judge_jobs(chk, ctl, name + "ctl", account=False))
    return verdicts, ctl


def run(chk):
    rng = random.Random(chk.seed)
    s_part(chk)
    J = Jobs(chk)
    gen_fock(J, rng, chk.quick)
    gen_commutation(J, rng, chk.quick)
    gen_encoded(J, rng, chk.quick)
    gen_ansatz(J, rng, chk.quick)
    gen_circuits(J, rng, chk.quick)
    gen_histories(J, rng, chk.quick)
    gen_sign_histories(J, rng, chk.quick)
    gen_frozen(J, rng, chk.quick)
    gen_pools(J, rng, chk.quick)
    adapt_states(J, rng, chk.quick)
    verdicts, ctl = judge_all(chk, J)
    stats, per_key = {}, {}
    for j in J.jobs:
        m = J.meta[j["id"]]
        v = verdicts[j["id"]]
        cls = m["how"].get("class", m["kind"])
        s = stats.setdefault(cls, [0, 0])
        s[0] += 1
        chk.add_traces(1, cls)
        if v == "ok":
            continue
        if v in ("malformed", "malformed-gate"):
            raise tlc.TLCError("malformed record: %s" % m)
        if v == "off-carrier":
            chk.inconclusive += 1
            continue
        if v == "block-condition-fails":
            # sufficient condition only: conservation for all parameter values is then not established by the spec;
            # the verdict for this ansatz rests on the exact circuit evaluation (4- and 6-qubit instances)
            chk.inconclusive += 1
            chk.spec_drift("block condition (sufficient for conservation at all parameter values) not met by %s; "
                           "verdict rests on exact grid evaluation of the 4- and 6-qubit circuits" % key_of(m["how"]))
            continue
        s[1] += 1
        key = "%s:%s:%s" % (cls, key_of(m["how"]), v)
        per_key[key] = per_key.get(key, 0) + 1
        if (per_key[key] > 2 or len(chk.violations) >= 48) and chk.match_known(key) is None:
            continue        # the harness writes at most 50 replay files: every printed VIOLATION must have one
        chk.violation(key, "%s: %s" % (v, str(m["how"])[:400]), {"meta": m, "job": j if len(str(j)) < 200000 else None})
    bad = [(c["id"], c["k"]) for c in ctl if verdicts[c["id"]] == "ok"]
    chk.part("negative_controls", corrupted=len(ctl), rejected=len(ctl) - len(bad), kinds=sorted(c["k"] for c in ctl))
    if bad:
        raise tlc.TLCError("binding failure: corrupted records accepted: %s" % bad)
    chk.part("V", jobs=len(J.jobs), by_class={k: {"n": v[0], "bad": v[1]} for k, v in sorted(stats.items())})
    for cls in ("operator", "penalty", "commutation", "encoded-penalty", "generator", "history", "frozen", "pool", "adapt-state"):
        for j in J.jobs:
            if J.meta[j["id"]]["how"].get("class") == cls:
                chk.sample({"how": J.meta[j["id"]]["how"], "verdict": verdicts[j["id"]],
                            "record": {k: (v if len(str(v)) < 300 else str(v)[:300] + "...") for k, v in j.items()}})
                break
    chk.cov["rule"] = ("one record = one operator / penalty / (operator, Hamiltonian) pair / encoded penalty / ansatz generator / built circuit "
                       "recorded from the code; Fock-space records are judged on EVERY determinant (and every spin eigenfunction), "
                       "Pauli-algebra records as operator identities, circuits by exact ring evaluation at grid parameters")
    chk.assumptions += ["operators are built in the alternating numbering and re-ordered by the qubit mapping, as the API documents",
                        "circuit evaluation at multiples of pi (pi/4 for UCCSD singles / RUCC / pUCCD) per parameter: entries are "
                        "trigonometric polynomials of low degree in each parameter; conservation for ALL parameters is the block "
                        "condition (sufficient) whose premises are judged exactly",
                        "Hamiltonians come from integer-integral synthetic molecules (restricted and UHF), 2-3 spatial orbitals"]


def key_of(how):
    parts = []
    for k in ("op", "ansatz", "pool", "enc", "ref"):
        if k in how:
            parts.append(str(how[k]))
    if "spec" in how:
        parts.append(how["spec"]["form"] + "-" + "+".join(p[0] for p in how["spec"]["parts"]))
    if "utd" in how:
        parts.append("utd=%s" % how["utd"])
    if how.get("class") == "pool":
        parts.append("nmo=%s" % how.get("nmo"))
    if how.get("class") == "adapt-state":
        parts.append("nmo=%s:ne=%s" % (how.get("nmo"), how.get("ne")))
    if how.get("class") == "frozen":
        nmo, ne, spin, frozen = how["mol"]
        parts.append("mol=%d.%d.%d:frozen=%s" % (nmo, ne, spin, "-".join(str(x) for x in (frozen or [])) or "none"))
    if how.get("class") == "history" and how.get("sign"):
        parts.append("k=%s:nmo=%s:sign-%s" % (how.get("k"), how.get("nmo"), how["sign"]))
    elif how.get("class") == "history":
        parts.append("k=%s:nmo=%s:%s" % (how.get("k"), how.get("nmo"), "same-pattern" if len(how["hist"]) > 1 and
                     [x == 0 for x in how["hist"][-1]] == [x == 0 for x in how["hist"][-2]] else "changed-pattern"))
    return ":".join(parts)


def replay(chk, rec):
    case = rec["case"]
    m = case.get("meta", case)
    how = m["how"]
    print("recorded case:", str(how)[:1500])
    c2 = check.Check("C12", ["quick"])
    c2.known = []
    J = Jobs(c2)
    cls = how.get("class")
    rng = random.Random(0)
    if cls == "operator":
        op = symmetry_op(how["op"], how["n_orb"], how["utd"])
        J.add(how["op"], how, f=fop_json(op), n=2 * how["n_orb"], utd=how["utd"])
    elif cls == "penalty":
        spec = how["spec"]
        spec = {"form": spec["form"], "parts": [tuple(p) for p in spec["parts"]]}
        P = penalty_op(spec, how["n_orb"], how["utd"])
        J.add("pen", how, f=fop_json(P), parts=parts_json(spec["parts"]), n=2 * how["n_orb"], utd=how["utd"])
    elif cls == "commutation" and how.get("ref") == "restricted":
        i = how["ints"]
        H = synth_hamiltonian(i["nmo"], i["c0"], i["h"], i["g"])
        J.add("comm", how, op=fop_json(symmetry_op(how["op"], i["nmo"], False)), ham=fop_json(H), n=2 * i["nmo"])
    elif cls == "commutation":
        i = how["ints"]
        H = synth_uhf_hamiltonian(i["nmo"], *i["uhf"])
        J.add("comm", how, op=fop_json(symmetry_op(how["op"], i["nmo"], False)), ham=fop_json(H), n=2 * i["nmo"])
    elif cls == "pool":
        for name, kinds, ops in pool_tables(how["nmo"]):
            if name == how["pool"]:
                J.add("fockgen", how, f=fop_json(ops[how["element"]]), kinds=kinds, n=2 * how["nmo"], utd=False)
    elif cls == "frozen":
        frozen_job(J, random.Random(0), how["ansatz"], tuple(how["mol"][:3]) + (how["mol"][3],), how["utd"], vec=how.get("theta_units"))
        if c2.violations:
            print("exception reproduced:", c2.violations[0][:2])
            return False
    elif cls == "history":
        inst = (how["ansatz"], how["nmo"], how["ne"], how["utd"], how["k"], how["engine"])
        history_job(J, inst, how["hist"], history_symmetries(how["ansatz"], how["nmo"], how["ne"], how["utd"], how["engine"]),
                    common=how.get("common", False), extra={"sign": how["sign"]} if how.get("sign") else None)
        if c2.violations:
            print("exception reproduced:", c2.violations[0][:2])
            return False
    else:
        # re-generate the whole class and look for the same key
        gens = {"adapt-state": adapt_states, "encoded-penalty": gen_encoded, "encoded-penalty-on-determinants": gen_encoded, "generator": gen_ansatz,
                "block": gen_ansatz, "adapt-pool": gen_ansatz, "circuit": gen_circuits}
        if cls not in gens:
            print("exception / unknown class: re-running the generators")
            for g in (gen_fock, gen_commutation, gen_encoded, gen_ansatz, gen_circuits):
                g(J, random.Random(c2.seed), True)
            keys = [v[0] for v in c2.violations]
            print("exceptions now:", sorted(set(keys)))
            return rec["key"] not in keys
        gens[cls](J, random.Random(c2.seed), True)
        J.jobs = [j for j in J.jobs if key_of(J.meta[j["id"]]["how"]) == key_of(how) and J.meta[j["id"]]["how"].get("class") == cls]
    if not J.jobs:
        print("no record regenerated")
        return False
    verdicts, _ = judge_all(c2, J, name="c12/replay")
    vs = sorted(set(verdicts[j["id"]] for j in J.jobs))
    print("TLC verdicts on the artefacts the code returns now:", vs)
    return vs == ["ok"]


if __name__ == "__main__":
    check.main("C12", run, replay)
