#!/venv/bin/python
"""C13 - reduced density matrices reproduce energies and electron counts.

(i)   VQE RDMs (V, spec/C13Trace.tla "vqe" jobs): at grid parameter vectors the state-preparation circuit of
      VQESolver.get_rdm / get_rdm_uhf is recorded; TLC computes the exact value of every <psi|term|psi> whose term
      occurs in the fermionic Hamiltonian (the code measures exactly those) - under Jordan-Wigner ALSO from first
      principles (Fock.tla, no encoding) - and places them into the tensors with the documented index rule
      (C13Defs); the code's tensors (spin-resolved and spin-summed) must match entrywise (1e-9), be Hermitian, trace
      to the active electron count for number-conserving states, and molecule.energy_from_rdms(gamma, Gamma) must
      equal the exact <psi|H|psi> (contraction with the float coefficients, as in C08).
(ii)  Padding, EXACT (S + G, spec/C13Rdm.tla): TLC enumerates integer-amplitude active-space states on synthetic
      molecules with frozen occupied/virtual orbitals (restricted, ROHF, unrestricted), computes their RDMs and those
      of the product state with the frozen core from first principles, checks the product-state identities, and
      exports them; the harness feeds the exact active RDMs to pad_rdms_with_frozen_orbitals_restricted /
      _unrestricted: outputs must equal TLC's full-space RDMs, carry the total electron count and the same energy
      (integer integrals: exact), and the INPUT ARRAYS must be bit-identical before and after the call.
(iii) Classical solvers FCI / CCSD / MP2 on real molecules: OBSERVATIONAL (no independent oracle): recorded scalars
      E_solver, E(rdm), tr gamma, ||gamma - gamma^T|| travel as fixed-point integers and a trace spec asserts the
      invariants ("scalars" jobs).
"""
import os
os.environ.setdefault("OMP_NUM_THREADS", "1")
import copy
import json
import math
import random
import sys
import warnings

HERE = os.path.dirname(os.path.abspath(__file__))
sys.path.insert(0, os.path.join(HERE, "..", "harness"))
sys.path.insert(0, HERE)
import check  # noqa: E402
import tlc  # noqa: E402
from ring import to_complex, gauss_dyadic  # noqa: E402
from enc import gates_to_json, OffGrid, word_to_json  # noqa: E402
import c08  # noqa: E402  (own helpers: configurations, solver construction, grid parameter vectors)

import numpy as np  # noqa: E402

warnings.filterwarnings("ignore")
TOL = 1e-9
PAR = int(os.environ.get("VERIF_PAR", "16"))
WD = "%s%s" % ("c13", os.environ.get("VERIF_WTAG", ""))       # work-dir prefix (development: parallel mutant runs)


# ======================================================================================================
# (i) VQE RDMs
# ======================================================================================================
def vqe_configs(quick):
    C = c08.C
    cf = []
    for mp in ("jw", "bk", "scbk", "jkmn"):
        for utd in (False, True):
            h = (mp == "scbk" and not utd) or (mp == "jw" and not utd and not quick)
            cf.append(C("H2-UCCSD-%s-%s" % (mp, "utd" if utd else "alt"), "H2", "UCCSD", mp, utd, nthetas=3 if h else (2 if quick else 4), hist=h))
    cf.append(C("H2-HEA-jw", "H2", "HEA", "jw", False, budget=4, nthetas=2 if quick else 4))        # not number conserving
    cf.append(C("H2-HEA-bk", "H2", "HEA", "bk", True, budget=4, nthetas=2 if quick else 3))
    cf.append(C("H2-UpCCGSD-jw", "H2", "UpCCGSD", "jw", True, nthetas=2))
    cf.append(C("H2-QCC-jw", "H2", "QCC", "jw", True, fresh=True, nthetas=2))
    cf.append(C("LiHfz-UCCSD-jw", "LiH_fz", "UCCSD", "jw", False, nthetas=2 if quick else 4))
    cf.append(C("LiHfz-UCCSD-scbk", "LiH_fz", "UCCSD", "scbk", True, nthetas=2 if quick else 4))
    cf.append(C("LiHfz-UpCCGSD-jkmn", "LiH_fz", "UpCCGSD", "jkmn", False, nthetas=2))
    cf.append(C("H2m-UCCSD-jw", "H2-", "UCCSD", "jw", False, nthetas=2 if quick else 4))
    cf.append(C("H2m-UCCSD-scbk", "H2-", "UCCSD", "scbk", False, nthetas=2 if quick else 4))
    cf.append(C("H2m-UCCSD-bk", "H2-", "UCCSD", "bk", False, nthetas=2))
    cf.append(C("H2-UCCSD-jw-refcirc", "H2", "UCCSD", "jw", False, ref="circuit", nthetas=2))
    cf.append(C("H2-UpCCGSD-bk-refvec", "H2", "UpCCGSD", "bk", False, ref="vector", nthetas=2))
    cf.append(C("H2-UCCSD-jw-proj", "H2", "UCCSD", "jw", False, proj="unitary", nthetas=2))
    cf.append(C("H2uhf-UCCSD-jw", "H2_uhf", "UCCSD", "jw", False, nthetas=3 if quick else 4, hist=True))
    # UHF, frozen occupied sets non-empty and different per spin ([[0,1],[0,3]])
    cf.append(C("H4muhf-fz-UCCSD-jw", "H4-_uhf_fz", "UCCSD", "jw", False, nthetas=2 if quick else 4))
    cf.append(C("H4muhf-fz-UCCSD-scbk", "H4-_uhf_fz", "UCCSD", "scbk", False, nthetas=3, hist=not quick))
    cf.append(C("H2muhf-UCCSD-scbk", "H2-_uhf", "UCCSD", "scbk", False, nthetas=2))
    cf.append(C("H2uhf-UCCSD-bk", "H2_uhf", "UCCSD", "bk", True, nthetas=2))
    # warm start: simulate_options["initial_statevector"] (+ reference_state="zero"): the RDMs must be those of the state
    # energy_estimation uses (ansatz applied to the initial statevector)
    cf.append(C("H2-HEA-bk-initprep", "H2", "HEA", "bk", False, budget=4, nthetas=2, init="prep"))
    cf.append(C("H2-UCCSD-jw-inithf", "H2", "UCCSD", "jw", False, nthetas=2, init="hf"))
    cf.append(C("H2uhf-UCCSD-scbk-initprep", "H2_uhf", "UCCSD", "scbk", False, nthetas=2, init="prep"))
    # spin matrix {closed, doublet, triplet, quartet} x encodings x orderings x {ROHF, UHF}: the per-term encoding inside
    # get_rdm / get_rdm_uhf needs the spin (scBK: parity of n_alpha)
    cf.append(C("H3pT-UCCSD-scbk-alt", "H3+_t", "UCCSD", "scbk", False, nthetas=2))
    cf.append(C("H3pT-UCCSD-scbk-utd", "H3+_t", "UCCSD", "scbk", True, nthetas=2))
    cf.append(C("H3pTuhf-UCCSD-scbk", "H3+_t_uhf", "UCCSD", "scbk", False, nthetas=2))
    cf.append(C("H2T-UCCSD-jw", "H2_t", "UCCSD", "jw", True, nthetas=1))
    cf.append(C("H2T-UCCSD-bk", "H2_t", "UCCSD", "bk", False, nthetas=1))
    cf.append(C("H2T-UCCSD-scbk", "H2_t", "UCCSD", "scbk", False, nthetas=1))
    cf.append(C("H3Q-UCCSD-scbk", "H3_q", "UCCSD", "scbk", True, nthetas=1))
    cf.append(C("H3Q-UCCSD-jkmn", "H3_q", "UCCSD", "jkmn", False, nthetas=1, M=16))
    if not quick:
        cf.append(C("H3pT-UCCSD-jw", "H3+_t", "UCCSD", "jw", False, nthetas=2, budget=3))
        cf.append(C("H3pT-UCCSD-bk", "H3+_t", "UCCSD", "bk", True, nthetas=2, budget=3))
        cf.append(C("H3pT-UCCSD-jkmn", "H3+_t", "UCCSD", "jkmn", False, nthetas=2, budget=3))
        cf.append(C("H4T-UCCSD-scbk", "H4_t", "UCCSD", "scbk", False, engine="cliff", M=8, nthetas=2))
        cf.append(C("H4T-UCCSD-scbk-utd", "H4_t", "UCCSD", "scbk", True, engine="cliff", M=8, nthetas=2))
        cf.append(C("H4Tuhf-UCCSD-scbk", "H4_t_uhf", "UCCSD", "scbk", False, engine="cliff", M=8, nthetas=2))
    cf.append(C("H4-UCCSD-jw", "H4", "UCCSD", "jw", False, engine="cliff", M=8, nthetas=1 if quick else 3))
    if not quick:
        cf.append(C("H4-UCCSD-scbk", "H4", "UCCSD", "scbk", True, engine="cliff", M=8, nthetas=2))
        cf.append(C("H4-UCCSD-bk", "H4", "UCCSD", "bk", False, engine="cliff", M=8, nthetas=2))
        cf.append(C("H4p-UCCSD-jw", "H4+", "UCCSD", "jw", True, engine="cliff", M=8, nthetas=2))
        cf.append(C("H2-UCCSD-jw-M32", "H2", "UCCSD", "jw", False, M=32, nthetas=2))
        cf.append(C("H4puhf-UCCSD-jw", "H4+_uhf", "UCCSD", "jw", False, engine="cliff", M=8, nthetas=2))
    return cf


def vqe_by_name(name):
    for c in vqe_configs(False) + vqe_configs(True):
        if c["name"] == name:
            return c
    raise KeyError(name)


def encode_term(cfg, mol, key):
    from tangelo.toolboxes.operators import FermionOperator
    from tangelo.toolboxes.qubit_mappings.mapping_transform import fermion_to_qubit_mapping
    q = fermion_to_qubit_mapping(fermion_operator=FermionOperator(key), mapping=c08.eff_mapping(cfg), n_spinorbitals=mol.n_active_sos,
                                 n_electrons=mol.n_active_electrons, up_then_down=c08.eff_utd(cfg), spin=mol.active_spin)
    q.compress()
    return q


class VS:
    pass


def vqe_drive(chk, cfg, st, v, theta):
    """Call get_rdm (sum_spin on and off) at theta, record the circuit, build the TLC job."""
    mol = c08.molecule(cfg["mol"])
    s = VS()
    s.cfg, s.theta = cfg, [float(x) for x in theta]
    s.case = {"part": "vqe", "cfg": cfg["name"], "theta": s.theta}
    s.job = None
    M = cfg["M"]
    n = st.n
    kw = {}
    ref = c08.expected_reference(cfg, n)
    if ref is not None:
        kw["ref_state"] = ref
    s.uhf = bool(mol.uhf)
    try:
        if s.uhf:
            s.u1, s.u2 = v.get_rdm_uhf(np.array(theta), **kw)
            s.u1, s.u2 = [np.array(a) for a in s.u1], [np.array(a) for a in s.u2]
            s.so1 = s.u1
        else:
            s.so1, s.so2 = v.get_rdm(np.array(theta), sum_spin=False, **kw)
            s.sm1, s.sm2 = v.get_rdm(np.array(theta), sum_spin=True, **kw)
            s.so1, s.so2, s.sm1, s.sm2 = (np.array(a) for a in (s.so1, s.so2, s.sm1, s.sm2))
    except Exception as e:
        if cfg.get("init") and not np.any(np.array(theta)) and isinstance(e, ValueError):
            chk.violation("get_rdm:exception-empty-ansatz-circuit-with-initial-statevector:%s" % cfg["ansatz"],
                          "%s theta=zeros: get_rdm raised %s: %s" % (cfg["name"], type(e).__name__, e), s.case)
            s.so1 = None
            return s
        chk.violation("get_rdm:exception:%s:%s:%s:%s:%s" % (type(e).__name__, "utd" if c08.eff_utd(cfg) else "alt",
                                                            "theta0" if not np.any(np.array(theta)) else "generic", cfg["ansatz"], cfg["mapping"]),
                      "%s theta=%s: get_rdm raised %s: %s" % (cfg["name"], s.theta, type(e).__name__, e), s.case)
        s.so1 = None
        return s
    s.E_rdm_default = None
    if ref is not None and not s.uhf:
        try:
            d1, d2 = v.get_rdm(np.array(theta), sum_spin=True)
            s.E_rdm_default = float(mol.energy_from_rdms(np.array(d1), np.array(d2)))
        except Exception:
            pass
    try:
        gs, _sel = c08.simulated_gates(cfg, v, n)      # reference (if overridden) + ansatz(theta) + projective part
        gj = gates_to_json(gs, M)
    except OffGrid:
        chk.inconclusive += 1
        return s
    if cfg["engine"] == "cliff" and not all(c08.is_clifford_json(g, M) for g in gj):
        chk.inconclusive += 1
        return s
    s.E_rdm = float(mol.energy_from_rdms(s.u1, s.u2)) if s.uhf else float(mol.energy_from_rdms(s.sm1, s.sm2))
    # words: Hamiltonian words first (float coefficients, contraction), then the words of the encoded terms
    s.hterms = c08.words_of(st.H, n)
    words, windex = [], {}

    def widx(t):
        if t not in windex:
            windex[t] = len(words)
            words.append(word_to_json(t, n))
        return windex[t] + 1
    for t, _ in s.hterms:
        widx(t)
    terms, encs = [], []
    try:
        for key in st.fkeys:
            q = st.enc[key]
            e = []
            for t, c in q.terms.items():
                r = gauss_dyadic(c, M)
                if r is None:
                    raise OffGrid("encoded coefficient %r" % (c,))
                e.append({"k": widx(t), "c": r})
            terms.append([[int(p), int(d)] for p, d in key])
            encs.append(e)
    except OffGrid:
        chk.inconclusive += 1
        return s
    s.wordkeys = [None] * len(words)
    for t, k in windex.items():
        s.wordkeys[k] = t
    s.job = {"kind": "vqe", "n": n, "engine": cfg["engine"], "gates": gj, "nso": mol.n_active_sos, "utd": bool(c08.eff_utd(cfg)),
             "jw": c08.eff_mapping(cfg).lower() == "jw", "terms": terms, "words": words, "enc": encs}
    return s


def check_function_forms(chk, s, rec, exp1, exp2, sub):
    """The function forms of rdms.py, fed with TLC's exact data (no simulator involved):
    compute_rdms(ferm_ham, mapping, up_then_down, exp_vals = exact <P_j>) must return the exact tensors, and
    energy_from_rdms(ferm_ham, g1, g2) of the solver's spin-summed RDMs must be the exact energy."""
    from tangelo.toolboxes.molecular_computation.rdms import compute_rdms, energy_from_rdms
    cfg = s.cfg
    M = cfg["M"]
    mol = c08.molecule(cfg["mol"])
    name, th = cfg["name"], np.round(s.theta, 4).tolist()
    ok = True
    fh = mol.fermionic_hamiltonian
    try:
        e_fn = float(energy_from_rdms(fh, s.sm1, s.sm2))
        if abs(e_fn - s.Eexact) > 1e-8:
            chk.violation("energy_from_rdms-function:%s" % sub, "%s theta=%s: rdms.energy_from_rdms(fermionic_hamiltonian, g1, g2) = %.10f, exact %.10f" % (
                name, th, e_fn, s.Eexact), s.case)
            ok = False
    except Exception as e:
        chk.violation("energy_from_rdms-function:exception:%s" % type(e).__name__, "%s: %s" % (name, e), s.case)
        ok = False
    try:
        fh.n_spinorbitals, fh.n_electrons, fh.spin = mol.n_active_sos, mol.n_active_electrons, mol.active_spin
        exp_vals = {t: to_complex(v, M).real for t, v in zip(s.wordkeys, rec["e"]) if t}
        c1, c2, c1s, c2s = compute_rdms(fh, c08.eff_mapping(cfg), c08.eff_utd(cfg), exp_vals=exp_vals)
        for lab, code, exp in (("1rdm", c1, exp1), ("2rdm", c2, exp2), ("1rdm-sum", c1s, tensor(rec["sum1"], M)), ("2rdm-sum", c2s, tensor(rec["sum2"], M))):
            # compute_rdms only adds the words with a real encoded coefficient (`if coeff.real != 0`): with real <P_j>
            # that is the real part of the entry
            code = np.array(code)
            bad = np.argwhere(np.abs(code - np.real(exp)) > TOL)
            if len(bad):
                ix = tuple(int(x) for x in bad[0])
                chk.violation("compute_rdms:%s:entry:%s" % (sub, lab), "%s theta=%s: compute_rdms %s%s = %s, exact %s (%d entries differ)" % (
                    name, th, lab, list(ix), code[ix], exp[ix], len(bad)), s.case)
                ok = False
    except Exception as e:
        chk.violation("compute_rdms:exception:%s" % type(e).__name__, "%s: %s" % (name, e), s.case)
        ok = False
    return ok


def tensor(x, M):
    """nested JSON tensor of ring elements -> complex ndarray"""
    if isinstance(x, dict):
        return to_complex(x, M)
    return np.array([tensor(y, M) for y in x])


def vqe_judge(chk, s, verdict, rec, st):
    cfg = s.cfg
    M = cfg["M"]
    mol = c08.molecule(cfg["mol"])
    name = cfg["name"]
    th = np.round(s.theta, 4).tolist()
    if verdict != "ok":
        if verdict == "encoding-disagrees-with-first-principles":
            chk.violation("vqe-rdm:encoding:%s" % cfg["mapping"], "%s: encoded excitation operators disagree with the Fock-space values" % name, s.case)
            return False
        if verdict == "not-normalised":
            raise tlc.TLCError("spec-level failure (%s) on %s" % (verdict, name))
        chk.inconclusive += 1
        return True
    ok = True
    nso = mol.n_active_sos
    exp1 = np.zeros((nso,) * 2, dtype=complex)
    exp2 = np.zeros((nso,) * 4, dtype=complex)
    meas1 = np.zeros((nso,) * 2, dtype=bool)
    meas2 = np.zeros((nso,) * 4, dtype=bool)
    for ix, val in zip(rec["idx"], rec["vals"]):
        z = to_complex(val, M)
        if len(ix) == 2:
            exp1[tuple(ix)] += z
            meas1[tuple(ix)] = True
        else:
            exp2[tuple(ix)] += z
            meas2[tuple(ix)] = True
    sub = "%s:%s" % (cfg["mapping"], "utd" if c08.eff_utd(cfg) else "alt")
    if cfg["proj"]:
        sub = "projective-circuit-ignored"
    if s.uhf:
        return vqe_judge_uhf(chk, s, rec, sub, exp1, exp2, meas1, meas2)
    for lab, code, exp, meas in (("1rdm-spin", s.so1, exp1, meas1), ("2rdm-spin", s.so2, exp2, meas2)):
        if code.shape != exp.shape:
            chk.violation("vqe-rdm:shape:%s" % lab, "%s: shape %s != %s" % (name, code.shape, exp.shape), s.case)
            ok = False
            continue
        d = np.abs(code - exp)
        bad = np.argwhere(d > TOL)
        if len(bad):
            ix = tuple(int(x) for x in bad[0])
            if not meas[ix]:
                chk.spec_drift("C13 %s: entry %s of the %s tensor is filled although its term is not in the Hamiltonian" % (name, ix, lab))
            else:
                chk.violation("vqe-rdm:%s:entry:%s" % (sub, lab),
                              "%s theta=%s: %s%s = %s but <psi|a+..a|psi> = %s (%d entries differ)" % (name, th, lab, list(ix), code[ix], exp[ix], len(bad)), s.case)
                ok = False
    # spin-summed tensors (definition of C13Defs restricted to the measured terms, evaluated by TLC)
    for lab, code, exp in (("1rdm-sum", s.sm1, tensor(rec["sum1"], M)), ("2rdm-sum", s.sm2, tensor(rec["sum2"], M))):
        if code.shape != exp.shape:
            chk.violation("vqe-rdm:shape:%s" % lab, "%s: shape %s != %s" % (name, code.shape, exp.shape), s.case)
            ok = False
            continue
        bad = np.argwhere(np.abs(code - exp) > TOL)
        if len(bad):
            ix = tuple(int(x) for x in bad[0])
            chk.violation("vqe-rdm:%s:entry:%s" % (sub, lab),
                          "%s theta=%s: %s%s = %s, exact %s (%d entries differ)" % (name, th, lab, list(ix), code[ix], exp[ix], len(bad)), s.case)
            ok = False
        # Hermiticity of what the code returned
        n = code.ndim
        herm = code.T.conj() if n == 2 else code.transpose(1, 0, 3, 2).conj()
        if np.max(np.abs(code - herm)) > TOL:
            chk.violation("vqe-rdm:hermiticity:%s" % lab, "%s theta=%s: ||G - G^dagger|| = %.2e" % (name, th, np.max(np.abs(code - herm))), s.case)
            ok = False
    # energy: E(rdm) = <psi|H|psi> (exact e_j, float coefficients)
    Eexact = c08.contract(s.hterms, rec["e"], 0, M).real
    s.Eexact = Eexact
    if abs(s.E_rdm - Eexact) > 1e-8:
        chk.violation("vqe-rdm:%s:energy:%s" % (sub, cfg["ansatz"]),
                      "%s theta=%s: energy_from_rdms(get_rdm) = %.10f but <psi|H|psi> = %.10f" % (name, th, s.E_rdm, Eexact), s.case)
        ok = False
    if not cfg["proj"]:
        ok = check_function_forms(chk, s, rec, exp1, exp2, sub) and ok
    if s.E_rdm_default is not None and abs(s.E_rdm_default - Eexact) > 1e-8:
        chk.violation("get_rdm:default-ref_state-ignores-override",
                      "%s theta=%s: energy_from_rdms(get_rdm(theta)) = %.10f without repeating the reference circuit, but the solver's "
                      "state (reference override + ansatz) has <psi|H|psi> = %.10f" % (name, th, s.E_rdm_default, Eexact), s.case)
        ok = False
    # electron count for number-conserving states
    # (the premise `the state conserves the electron number` is taken from the exact values: trotterised UCCSD under
    #  BK/JKMN merges Pauli words of different excitations and is not number conserving at generic parameters)
    tr_exact = float(np.trace(exp1).real)
    if abs(tr_exact - mol.n_active_electrons) < 1e-12 and meas1.diagonal().all():
        tr = np.trace(s.sm1).real
        if abs(tr - mol.n_active_electrons) > TOL:
            chk.violation("vqe-rdm:%s:trace" % sub, "%s theta=%s: tr(gamma) = %.10f, active electrons = %d" % (name, th, tr, mol.n_active_electrons), s.case)
            ok = False
    return ok


def vqe_judge_uhf(chk, s, rec, sub, exp1, exp2, meas1, meas2):
    """get_rdm_uhf: spin blocks (alpha, beta), (aa, ab, bb); every block entry whose term is measured must be the real
    part of the exact <psi| a+_P a+_R a_S a_Q |psi> (the code symmetrises a term with its Hermitian conjugate)."""
    cfg = s.cfg
    M = cfg["M"]
    mol = c08.molecule(cfg["mol"])
    name, th = cfg["name"], np.round(s.theta, 4).tolist()
    ok = True
    nso = mol.n_active_sos
    for P in range(nso):
        for Q in range(nso):
            if meas1[P, Q] and P % 2 == Q % 2:
                code = s.u1[P % 2][P // 2, Q // 2]
                if abs(code - exp1[P, Q].real) > TOL:
                    chk.violation("vqe-rdm-uhf:%s:entry:1rdm" % sub, "%s theta=%s: 1-RDM(%s)[%d,%d] = %s, exact %s" % (
                        name, th, "ab"[P % 2], P // 2, Q // 2, code, exp1[P, Q].real), s.case)
                    ok = False
    blocks = {(0, 0): 0, (0, 1): 1, (1, 1): 2}
    for ix in np.argwhere(meas2):
        P, Q, R, S = (int(x) for x in ix)
        if P % 2 != Q % 2 or R % 2 != S % 2 or (P % 2, R % 2) not in blocks:
            continue
        code = s.u2[blocks[(P % 2, R % 2)]][P // 2, Q // 2, R // 2, S // 2]
        if abs(code - exp2[P, Q, R, S].real) > TOL:
            chk.violation("vqe-rdm-uhf:%s:entry:2rdm" % sub, "%s theta=%s: 2-RDM block %s [%d,%d,%d,%d] = %s, exact %s" % (
                name, th, ("aa", "ab", "bb")[blocks[(P % 2, R % 2)]], P // 2, Q // 2, R // 2, S // 2, code, exp2[P, Q, R, S].real), s.case)
            ok = False
            break
    for lab, arrs in (("1rdm", s.u1), ("2rdm", s.u2)):
        for a in arrs:
            herm = a.T if a.ndim == 2 else a.transpose(1, 0, 3, 2)
            if np.max(np.abs(a - herm)) > TOL:
                chk.violation("vqe-rdm-uhf:hermiticity:%s" % lab, "%s theta=%s: ||G - G^T|| = %.2e" % (name, th, np.max(np.abs(a - herm))), s.case)
                ok = False
    Eexact = c08.contract(s.hterms, rec["e"], 0, M).real
    s.Eexact = Eexact
    if abs(s.E_rdm - Eexact) > 1e-8:
        chk.violation("vqe-rdm-uhf:%s:energy" % sub, "%s theta=%s: energy_from_rdms(get_rdm_uhf) = %.10f but <psi|H|psi> = %.10f" % (name, th, s.E_rdm, Eexact), s.case)
        ok = False
    na, nb = mol.n_active_ab_electrons
    tra = float(sum(exp1[P, P].real for P in range(0, nso, 2)))
    trb = float(sum(exp1[P, P].real for P in range(1, nso, 2)))
    if abs(tra - na) < 1e-12 and abs(trb - nb) < 1e-12 and meas1.diagonal().all():
        if abs(np.trace(s.u1[0]) - na) > TOL or abs(np.trace(s.u1[1]) - nb) > TOL:
            chk.violation("vqe-rdm-uhf:%s:trace" % sub, "%s theta=%s: traces %s, %s; electrons %d, %d" % (name, th, np.trace(s.u1[0]), np.trace(s.u1[1]), na, nb), s.case)
            ok = False
    return ok


def vqe_prepare(chk, cfg, rng):
    st = c08.prepare_config(chk, cfg, rng)
    mol = c08.molecule(cfg["mol"])
    st.fkeys = [k for k in mol.fermionic_hamiltonian.terms if k]
    st.enc = {k: encode_term(cfg, mol, k) for k in st.fkeys}
    return st


def run_vqe_jobs(chk, samples, stof, name):
    jobs, byid = {}, {}
    for s in samples:
        if s.job is None:
            continue
        jid = len(byid) + 1
        s.job["id"] = jid
        jobs.setdefault(s.cfg["M"], []).append(s.job)
        byid[jid] = s
    verdicts, recs = {}, {}
    for M, js in sorted(jobs.items()):
        js.sort(key=lambda j: -len(j["gates"]) * len(j["words"]))
        vd, results = tlc.judge("C13Trace", js, WD + "/%s_M%d" % (name, M), {"M": M}, max_parallel=PAR, timeout=7200,
                                chunk=max(1, (len(js) + PAR - 1) // PAR) if len(js) > PAR else 1)
        verdicts.update(vd)
        for r in results:
            chk.add_tlc(r)
            for rec in r.prints("R"):
                recs[rec["id"]] = rec
    out = {}
    for jid, s in byid.items():
        out[jid] = s.ok = vqe_judge(chk, s, verdicts[jid], recs.get(jid), stof[id(s)])
        chk.add_traces(1, "vqe_rdm_" + s.cfg["engine"])
    return verdicts, recs, byid


HSTATES = []


def part_vqe(chk, rng, cfgs):
    samples, stof = [], {}
    del HSTATES[:]
    for cfg in cfgs:
        try:
            st = vqe_prepare(chk, cfg, rng)
        except Exception as e:
            chk.violation("vqe-rdm:build:%s:%s" % (cfg["ansatz"], type(e).__name__), "%s: %s" % (cfg["name"], e), {"part": "vqe", "cfg": cfg["name"], "theta": None})
            continue
        st.vs = []
        for th in st.thetas:
            v = c08.make_solver(cfg) if cfg["fresh"] else st.v
            s = vqe_drive(chk, cfg, st, v, th)
            samples.append(s)
            st.vs.append(s)
            stof[id(s)] = st
        HSTATES.append(st)
    verdicts, recs, byid = run_vqe_jobs(chk, samples, stof, "vqe")
    # negative controls: a corrupted record must change the exact values
    ctl = []
    for s in samples:
        if s.job is None or getattr(s, "Eexact", None) is None:
            continue
        rot = [x for x, g in enumerate(s.job["gates"]) if g["name"] in ("RZ", "RX") and g["k"] % (s.cfg["M"] // 2)]
        if rot and s.cfg["engine"] == "ring" and sum(1 for _, w, _ in ctl if w == "angle") < 4:
            j = copy.deepcopy(s.job)
            j["gates"][rot[len(rot) // 2]]["k"] += 2
            ctl.append((s, "angle", j))
        if s.job["jw"] and s.cfg["engine"] == "ring" and not any(w == "enc-sign" for _, w, _ in ctl):
            j = copy.deepcopy(s.job)
            x = [x for x, e in enumerate(j["enc"]) if len(e) > 1][0]
            j["enc"][x][0]["c"] = {"c": [-a for a in j["enc"][x][0]["c"]["c"]], "k": j["enc"][x][0]["c"]["k"]}
            ctl.append((s, "enc-sign", j))
        xs = [x for x, g in enumerate(s.job["gates"]) if g["name"] == "X"]
        if xs and s.cfg["engine"] == "cliff" and not any(w == "dropped-X" for _, w, _ in ctl):
            j = copy.deepcopy(s.job)
            del j["gates"][xs[0]]
            ctl.append((s, "dropped-X", j))
    rejected, kinds = 0, {}
    byM = {}
    for x, (s, what, j) in enumerate(ctl):
        j["id"] = 10 ** 6 + x
        byM.setdefault(s.cfg["M"], []).append(j)
    for M, js in byM.items():
        vd, results = tlc.judge("C13Trace", js, WD + "/neg_M%d" % M, {"M": M}, max_parallel=PAR, chunk=1)
        rr = {}
        for r in results:
            for rec in r.prints("R"):
                rr[rec["id"]] = rec
        for x, (s, what, j) in enumerate(ctl):
            if j["id"] not in vd:
                continue
            if vd[j["id"]] != "ok":
                rej = True
            else:
                orig = recs[s.job["id"]]
                rej = rr[j["id"]]["vals"] != orig["vals"]
            kinds[what] = kinds.get(what, False) or rej      # a rotation the state is insensitive to proves nothing: one hit per kind
            rejected += 1 if rej else 0
    chk.part("vqe_negative_controls", corrupted=len(ctl), rejected=rejected, kinds=kinds)
    if not all(kinds.values()):
        for key, det, _ in chk.violations[:20]:
            print("  (violation recorded before the machinery failure) %s: %s" % (key, str(det)[:300]))
        raise tlc.TLCError("binding failure: corrupted vqe-rdm records accepted: %s" % kinds)
    judged = sum(1 for s in samples if getattr(s, "Eexact", None) is not None)
    chk.part("vqe_rdm", configurations=len(cfgs), samples=len(samples), judged=judged)
    for s in samples[:2]:
        if s.job is not None:
            chk.sample({"cfg": s.cfg["name"], "theta": s.theta, "E_from_rdm": getattr(s, "E_rdm", None), "E_exact": getattr(s, "Eexact", None),
                        "n_terms": len(s.job["terms"]), "n_words": len(s.job["words"])})
    return judged


# ======================================================================================================
# (i-b) get_rdm as a first-class action of the solver's state machine (spec/C13RdmHistory.tla)
# ======================================================================================================
RH_CFG = """CONSTANTS NTheta = 3
MaxDepth = %d
Canonical = TRUE
Export = TRUE
INIT Init
NEXT Next
INVARIANT TypeOK
INVARIANT CurIsLast
INVARIANT OptIsLastSim
INVARIANT FlagsConsistent
"""


def gen_rdm_histories(chk, depth):
    r = tlc.run("C13RdmHistory", RH_CFG % depth, WD + "/rdm_hist", workers=2)
    if not r.ok:
        raise tlc.TLCError("C13RdmHistory: %s\n%s" % (r.violated, r.out[-1500:]))
    chk.add_tlc(r, "rdm_histories")
    hs = r.prints("RH")
    # vacuity control: every action occurs, and get_rdm is requested for the stored optimal vector after other vectors were
    # evaluated, for the vector currently loaded, and for a vector that is neither
    kinds, rel = {}, {"optimal-not-current": 0, "current": 0, "other": 0}
    for h in hs:
        for c in h:
            kinds[c["kind"]] = kinds.get(c["kind"], 0) + 1
            if c["kind"] == "rdm":
                rel["optimal-not-current" if (c["isopt"] and not c["iscur"]) else ("current" if c["iscur"] else "other")] += 1
    chk.part("rdm_histories", histories=len(hs), depth=depth, calls_by_action=kinds, rdm_requests_by_relation=rel)
    if set(kinds) != {"energy", "opexp", "simulate", "rdm"} or not all(rel.values()):
        raise tlc.TLCError("vacuity: C13RdmHistory did not generate every action / relation: %s %s" % (kinds, rel))
    return hs


def relation(cur, opt, t):
    if opt is not None and t == opt and t != cur:
        return "requested=stored-optimal-vector-after-other-evaluation"
    if cur is not None and t == cur:
        return "requested=vector-currently-loaded"
    return "requested=other-vector"


def replay_rdm_history(cfg, st, v, holder, hist, state):
    """Run one history on solver v; returns None or (step, key suffix, text). state: actual cur / opt of the solver."""
    mol = c08.molecule(cfg["mol"])
    for x, c in enumerate(hist):
        kind, t = c["kind"], c["t"]
        th = np.array(st.thetas[t])
        base = st.vs[t]
        try:
            if kind == "energy":
                E = float(np.real(v.energy_estimation(th)))
                if abs(E - base.Eexact) > 1e-8:
                    return x, "energy", "energy_estimation(theta_%d) = %.10f, exact %.10f" % (t, E, base.Eexact)
            elif kind == "opexp":
                v.operator_expectation("S^2", th)
            elif kind == "simulate":
                holder.x = th
                v.simulate()
                state["opt"] = t
            else:
                rel = relation(state["cur"], state["opt"], t)
                if base.uhf:
                    u1, u2 = v.get_rdm_uhf(th)
                    got = [np.array(a) for a in u1] + [np.array(a) for a in u2]
                    want = list(base.u1) + list(base.u2)
                    E = float(mol.energy_from_rdms(u1, u2))
                else:
                    g1, g2 = v.get_rdm(th, sum_spin=True)
                    f1, f2 = v.get_rdm(th, sum_spin=False)
                    got = [np.array(g1), np.array(g2), np.array(f1), np.array(f2)]
                    want = [base.sm1, base.sm2, base.so1, base.so2]
                    E = float(mol.energy_from_rdms(np.array(g1), np.array(g2)))
                if abs(E - base.Eexact) > 1e-8:
                    return x, rel, "energy_from_rdms(get_rdm(theta_%d)) = %.10f but the exact <psi(theta_%d)|H|psi(theta_%d)> = %.10f" % (t, E, t, t, base.Eexact)
                for a, b in zip(got, want):
                    if a.shape != b.shape or np.max(np.abs(a - b)) > TOL:
                        return x, rel, "get_rdm(theta_%d) differs from the (TLC-validated) RDMs of theta_%d by %.3g" % (t, t, np.max(np.abs(a - b)))
        except Exception as e:
            return x, "exception:%s" % type(e).__name__, "%s(theta_%d) raised %s: %s" % (kind, t, type(e).__name__, e)
        state["cur"] = t
    return None


def part_rdm_history(chk, only=None):
    sts = [st for st in HSTATES if st.cfg["hist"] and (only is None or st.cfg["name"] == only)]
    if not sts:
        return 0
    hs = gen_rdm_histories(chk, 3 if chk.quick else 4)
    n = 0
    for st in sts:
        cfg = st.cfg
        # the exact RDMs / energies of the three vectors come from the V part: all three samples must have been judged ok
        if len(st.vs) < 4 or not all(getattr(s, "ok", False) and getattr(s, "Eexact", None) is not None for s in st.vs[1:4]):
            chk.inconclusive += 1
            continue
        holder = c08.Holder()
        v, since, cnt = None, [], 0
        for h in hs:
            if v is None or cnt >= 40:
                v = c08.make_solver(cfg, holder, initial=st.thetas[1])
                state = {"cur": None, "opt": None}
                since, cnt = [], 0
            r = replay_rdm_history(cfg, st, v, holder, h, state)
            since.append(h)
            cnt += 1
            n += 1
            if r is not None:
                v1 = c08.make_solver(cfg, holder, initial=st.thetas[1])
                r1 = replay_rdm_history(cfg, st, v1, holder, h, {"cur": None, "opt": None})
                hh = h if r1 is not None else [c for q in since for c in q]
                step, rel, text = r1 if r1 is not None else r
                chk.violation("history-rdm:%s:%s" % (rel, "uhf" if st.vs[1].uhf else "restricted"),
                              "%s history %s: step %d: %s" % (cfg["name"], [(c["kind"], c["t"]) for c in hh][-6:], len(hh) - len(h) + step if r1 is None else step, text),
                              {"part": "rdm-history", "cfg": cfg["name"], "history": hh, "thetas": [list(map(float, t)) for t in st.thetas]})
                v = None
    chk.add_traces(n, "rdm_histories_replayed")
    return n


# ======================================================================================================
# (ii) padding with frozen orbitals: synthetic integer-integral molecules
# ======================================================================================================
def sym_eri(n, rng, eightfold=True):
    """random integer (pq|rs) with the symmetries of real orbitals"""
    e = np.zeros((n,) * 4, dtype=int)
    for p in range(n):
        for q in range(p + 1):
            for r in range(n):
                for s in range(r + 1):
                    if eightfold and (p * (p + 1) // 2 + q) < (r * (r + 1) // 2 + s):
                        continue
                    v = rng.randint(-2, 2)
                    for a, b in ((p, q), (q, p)):
                        for c, d in ((r, s), (s, r)):
                            e[a, b, c, d] = v
                            if eightfold:
                                e[c, d, a, b] = v
    return e


def sym_h(n, rng):
    h = np.zeros((n, n), dtype=int)
    for p in range(n):
        for q in range(p + 1):
            h[p, q] = h[q, p] = rng.randint(-3, 3)
    return h


def shapes(rng, quick=False):
    S = []

    def R(name, occ, frozen):
        n = len(occ)
        focc = [i for i in frozen if occ[i] > 0]
        fvirt = [i for i in frozen if occ[i] == 0]
        act = [i for i in range(n) if occ[i] > 0 and i not in frozen] + [i for i in range(n) if occ[i] == 0 and i not in frozen]
        nact_e = sum(occ[i] for i in act)
        nsingle = sum(1 for i in act if occ[i] == 1)
        na = (nact_e + nsingle) // 2
        nb = nact_e - na
        S.append(dict(name=name, uhf=False, nmos=n, occ=list(occ), frozen=list(frozen), act=[act, act], focc=[focc, focc], fvirt=[fvirt, fvirt],
                      nalpha=na, nbeta=nb, core=rng.randint(-2, 2), h=sym_h(n, rng).tolist(), eri=sym_eri(n, rng).tolist()))

    def U(name, occa, occb, fa, fb):
        n = len(occa)
        rec = dict(name=name, uhf=True, nmos=n, occ=[list(occa), list(occb)], frozen=[list(fa), list(fb)], act=[], focc=[], fvirt=[])
        ne = []
        for occ, fr in ((occa, fa), (occb, fb)):
            rec["focc"].append([i for i in fr if occ[i] > 0])
            rec["fvirt"].append([i for i in fr if occ[i] == 0])
            act = [i for i in range(n) if occ[i] > 0 and i not in fr] + [i for i in range(n) if occ[i] == 0 and i not in fr]
            rec["act"].append(act)
            ne.append(sum(occ[i] for i in act))
        rec.update(nalpha=ne[0], nbeta=ne[1], core=rng.randint(-2, 2), ha=sym_h(n, rng).tolist(), hb=sym_h(n, rng).tolist(),
                   eaa=sym_eri(n, rng).tolist(), eab=sym_eri(n, rng, eightfold=False).tolist(), ebb=sym_eri(n, rng).tolist())
        S.append(rec)
    R("R-core0", [2, 2, 0], [0])
    R("R-core0-virt3", [2, 2, 0, 0], [0, 3])
    R("R-core1-not-lowest", [2, 2, 0], [1])
    R("R-rohf", [2, 2, 1, 0], [0])
    R("R-virt-only", [2, 0, 0], [2])
    R("R-two-core", [2, 2, 2, 0], [0, 1])
    R("R-nothing-frozen", [2, 0, 0], [])
    # high-spin ROHF (2 and 3 singly occupied orbitals) x frozen occupied / virtual / both
    R("R-rohf-triplet-core", [2, 1, 1, 0], [0])
    R("R-rohf-triplet-virt", [2, 1, 1, 0], [3])
    R("R-rohf-triplet-both", [2, 2, 1, 1, 0], [0, 4])
    R("R-rohf-quartet-core", [2, 1, 1, 1, 0], [0])
    R("R-rohf-quartet-both", [2, 1, 1, 1, 0], [0, 4])
    U("U-core0", [1, 1, 0], [1, 0, 0], [0], [0])
    U("U-core0-2e", [1, 1, 0], [1, 1, 0], [0], [0])
    U("U-core0-virt3", [1, 1, 1, 0], [1, 1, 0, 0], [0, 3], [0, 3])
    U("U-asymmetric", [1, 1, 0], [1, 0, 0], [0], [2])
    # frozen OCCUPIED sets non-empty and different per spin: nested ({0,1} / {0}) and crossed ({0,1} / {1,2})
    U("U-core-nested", [1, 1, 1, 0], [1, 1, 0, 0], [0, 1], [0, 3])
    U("U-core-crossed", [1, 1, 1, 0], [1, 1, 1, 0], [0, 1], [1, 2])
    for sh in S:
        sh["maxd"] = 2 if (quick and sh["nmos"] >= 5) else 99
    return S


def synth_molecule(shape, frozen="shape"):
    from tangelo import SecondQuantizedMolecule
    from tangelo.toolboxes.molecular_computation.integral_solver import IntegralSolver

    class SynthSolver(IntegralSolver):
        def __init__(self, sh):
            self.sh = sh

        def set_physical_data(self, mol):
            sh = self.sh
            ne = int(sum(sh["occ"][0]) + sum(sh["occ"][1])) if sh["uhf"] else int(sum(sh["occ"]))
            mol.xyz = [("H", (0., 0., float(i))) for i in range(ne)]
            mol.n_atoms = ne
            mol.n_electrons = ne

        def compute_mean_field(self, sqmol):
            sh = self.sh
            n = sh["nmos"]
            sqmol.mf_energy = 0.
            sqmol.mo_energies = np.arange(n, dtype=float)
            sqmol.mo_occ = [np.array(sh["occ"][0], dtype=float), np.array(sh["occ"][1], dtype=float)] if sh["uhf"] else np.array(sh["occ"], dtype=float)
            sqmol.n_mos = n
            sqmol.n_sos = 2 * n
            sqmol.mean_field = None
            self.mo_coeff = (np.eye(n), np.eye(n)) if sh["uhf"] else np.eye(n)

        def get_integrals(self, sqmol, mo_coeff=None):
            sh = self.sh
            # openfermion convention h[p,q,r,s] = (ps|qr): transpose(0, 2, 3, 1) of the chemist tensor
            if sh["uhf"]:
                return (float(sh["core"]), [np.array(sh["ha"], dtype=float), np.array(sh["hb"], dtype=float)],
                        [np.array(sh[k], dtype=float).transpose(0, 2, 3, 1).copy() for k in ("eaa", "eab", "ebb")])
            return float(sh["core"]), np.array(sh["h"], dtype=float), np.array(sh["eri"], dtype=float).transpose(0, 2, 3, 1).copy()

    fr = shape["frozen"] if frozen == "shape" else frozen
    spin = abs(shape["nalpha"] - shape["nbeta"])
    return SecondQuantizedMolecule(xyz=[("H", (0., 0., 0.))], q=0, spin=spin, solver=SynthSolver(shape), basis="synthetic",
                                   uhf=shape["uhf"], frozen_orbitals=copy.deepcopy(fr))


PAD_CFG = """CONSTANTS M = 8
Amps <- %s
MaxDets = %d
Export = TRUE
INIT Init
NEXT Next
INVARIANT NormPreserved
INVARIANT TraceAct
INVARIANT TraceFull
INVARIANT ProductIdentities
INVARIANT Hermitian
INVARIANT Exported
"""


LAYOUTS = ("C", "F", "tview", "slice", "readonly")
LAYOUT_DOC = {"C": "C-contiguous", "F": "Fortran-ordered", "tview": "transpose(1,0,3,2) view of a contiguous buffer, as CCSDSolver.get_rdm returns",
              "slice": "strided slice view of a larger array", "readonly": "read-only array"}


def as_layout(a, layout):
    """(array with the values of `a` in the requested memory layout, the buffer that owns its memory)"""
    if layout == "C":
        v = np.ascontiguousarray(a).copy()
        return v, v
    if layout == "F":
        v = np.asfortranarray(a).copy(order="F")
        return v, v
    if layout == "tview":
        ax = (1, 0, 3, 2) if a.ndim == 4 else (1, 0)
        buf = np.ascontiguousarray(a.transpose(ax)).copy()
        return buf.transpose(ax), buf
    if layout == "slice":
        buf = np.full(tuple(2 * n + 1 for n in a.shape), 7.25)
        v = buf[tuple(slice(1, None, 2) for _ in a.shape)]
        v[...] = a
        return v, buf
    v = np.ascontiguousarray(a).copy()
    v.flags.writeable = False
    return v, v


def pad_check_record(chk, sh, mol, mol_full, rec, M=8):
    """Feed TLC's exact active RDMs to the padding helper; compare with TLC's exact full-space RDMs."""
    from tangelo.toolboxes.molecular_computation.rdms import pad_rdms_with_frozen_orbitals_restricted, pad_rdms_with_frozen_orbitals_unrestricted
    nrm = to_complex(rec["nrm"], M).real
    case = {"part": "pad", "shape": sh["name"], "state": rec.get("state"), "seed": None}
    uhf = sh["uhf"]
    key0 = "pad:%s" % ("unrestricted" if uhf else "restricted")
    if uhf:
        a1 = tuple(tensor(x, M).real / nrm for x in rec["a1"])
        a2 = tuple(tensor(x, M).real / nrm for x in rec["a2"])
        f1 = [tensor(x, M).real / nrm for x in rec["f1"]]
        f2 = [tensor(x, M).real / nrm for x in rec["f2"]]
        fn = pad_rdms_with_frozen_orbitals_unrestricted
    else:
        a1 = tensor(rec["a1"], M).real / nrm
        a2 = tensor(rec["a2"], M).real / nrm
        f1 = [tensor(rec["f1"], M).real / nrm]
        f2 = [tensor(rec["f2"], M).real / nrm]
        fn = pad_rdms_with_frozen_orbitals_restricted
    ins = list(a1) + list(a2) if uhf else [a1, a2]
    before = [x.copy() for x in ins]
    labs = (["1rdm-a", "1rdm-b", "2rdm-aa", "2rdm-ab", "2rdm-bb"] if uhf else ["1rdm", "2rdm"])
    ok = True
    p1 = p2 = None
    # FRAME CONDITION over memory layouts: the same exact values are handed over as a C-contiguous array, a Fortran-ordered
    # array, a transpose(1,0,3,2) view of a contiguous buffer (what CCSDSolver.get_rdm returns), a strided slice view of a
    # larger array and a read-only array; the arrays AND the buffers behind the views must be bit-identical afterwards.
    for layout in LAYOUTS:
        views, bufs = zip(*[as_layout(b, layout) for b in before])
        bufs0 = [x.copy() for x in bufs]
        args = ((tuple(views[:2]), tuple(views[2:])) if uhf else (views[0], views[1]))
        try:
            q1, q2 = fn(mol, *args)
        except Exception as e:
            if layout == "readonly" and isinstance(e, ValueError) and "read-only" in str(e) \
                    and all(np.array_equal(x, y) for x, y in zip(bufs, bufs0)):
                continue          # refusing a read-only argument cleanly is acceptable; corrupting it is not
            chk.violation(key0 + ":exception:%s:%s" % (layout, type(e).__name__), "%s (%s arguments): %s" % (sh["name"], layout, e), dict(case, layout=layout))
            ok = False
            continue
        for lab, b, v, bf, bf0 in zip(labs, before, views, bufs, bufs0):
            if not (np.array_equal(v, b) and np.array_equal(bf, bf0) and v.dtype == b.dtype and v.shape == b.shape):
                chk.violation(key0 + ":input-mutated:%s:layout=%s" % (lab.split("-")[0], layout),
                              "%s: the caller's %s array (%s) is altered by the padding call (max |change| = %.3g)" % (
                                  sh["name"], lab, LAYOUT_DOC[layout], max(np.max(np.abs(v - b)), np.max(np.abs(bf - bf0)))), dict(case, layout=layout))
                ok = False
        if p1 is None:
            p1, p2 = q1, q2
        else:
            for lab, o, o0 in zip(labs, (list(q1) + list(q2)) if uhf else [q1, q2], (list(p1) + list(p2)) if uhf else [p1, p2]):
                if not np.array_equal(np.array(o), np.array(o0)):
                    chk.violation(key0 + ":layout-dependent-result:%s:layout=%s" % (lab.split("-")[0], layout),
                                  "%s: padded %s differs between C-contiguous and %s arguments" % (sh["name"], lab, LAYOUT_DOC[layout]), dict(case, layout=layout))
                    ok = False
    if p1 is None:
        return False
    outs = (list(p1) + list(p2)) if uhf else [p1, p2]
    exps = f1 + f2
    for lab, o, e in zip(labs, outs, exps):
        o = np.array(o)
        if o.shape != e.shape:
            chk.violation(key0 + ":shape:%s" % lab, "%s: %s vs %s" % (sh["name"], o.shape, e.shape), case)
            ok = False
            continue
        bad = np.argwhere(np.abs(o - e) > 1e-10)
        if len(bad):
            ix = tuple(int(x) for x in bad[0])
            chk.violation(key0 + ":value:%s" % lab, "%s: padded %s%s = %s, exact product-state value %s (%d entries differ)" % (
                sh["name"], lab, list(ix), o[ix], e[ix], len(bad)), case)
            ok = False
    # electron count and energy
    Eexact = to_complex(rec["efull"], M).real / nrm
    try:
        tr = sum(np.trace(np.array(x)) for x in (p1 if uhf else [p1]))
        if abs(tr - rec["ntot"]) > 1e-10:
            chk.violation(key0 + ":trace", "%s: tr(padded 1-RDM) = %s, total electrons %d" % (sh["name"], tr, rec["ntot"]), case)
            ok = False
        e_act = mol.energy_from_rdms(*( (list(before[:2]), list(before[2:])) if uhf else (before[0], before[1]) ))
        e_full = mol_full.energy_from_rdms(*((list(p1), list(p2)) if uhf else (p1, p2)))
        if abs(e_full - Eexact) > 1e-9:
            chk.violation(key0 + ":energy-full", "%s: energy of the padded RDMs %.12f, exact <Psi|H|Psi> %.12f" % (sh["name"], e_full, Eexact), case)
            ok = False
        if abs(e_act - Eexact) > 1e-9:
            chk.violation(key0 + ":energy-active", "%s: energy_from_rdms(active RDMs) %.12f, exact <Psi|H|Psi> %.12f" % (sh["name"], e_act, Eexact), case)
            ok = False
    except Exception as e:
        chk.violation(key0 + ":energy-exception:%s" % type(e).__name__, "%s: %s" % (sh["name"], e), case)
        ok = False
    return ok


def part_pad(chk, rng, only=None, states=None):
    quick = chk.quick
    S = shapes(random.Random(1234), quick)         # shapes and integrals are fixed (replay files refer to them by name)
    if only:
        S = [s for s in S if s["name"] == only]
    d = tlc.workdir(WD + "/pad")
    p = os.path.join(d, "shapes.json")
    with open(p, "w") as f:
        json.dump(S, f)
    amps, maxd = ("AmpsSmall", 3) if quick else ("AmpsWide", 4)
    simulate = None
    r = tlc.run("C13Rdm", PAD_CFG % (amps, maxd), WD + "/pad/run", workers=min(PAR, 8), env={"VERIF_SHAPES": p}, timeout=7200, heap="6g",
                must_succeed=False)
    if not r.ok:
        raise tlc.TLCError("C13Rdm: the specification's own product-state identities failed: %s\n%s" % (r.violated, (r.error or r.out)[-2500:]))
    chk.add_tlc(r, "pad_S_G")
    recs = r.prints("PAD")
    mols = {}
    n_ok = 0
    for rec in recs:
        sh = S[rec["shape"] - 1]
        if sh["name"] not in mols:
            mols[sh["name"]] = (synth_molecule(sh), synth_molecule(sh, frozen=[[], []] if sh["uhf"] else []))
        mol, mol_full = mols[sh["name"]]
        if pad_check_record(chk, sh, mol, mol_full, rec):
            n_ok += 1
    chk.add_traces(len(recs), "pad_replayed")
    by_shape = {}
    for rec in recs:
        nm = S[rec["shape"] - 1]["name"]
        by_shape[nm] = by_shape.get(nm, 0) + 1
    chk.part("pad", states=len(recs), matching=n_ok, by_shape=by_shape)
    if recs:
        chk.sample({"shape": S[recs[0]["shape"] - 1]["name"], "state": recs[0].get("state"), "ntot": recs[0]["ntot"]})
    # negative control: a corrupted expected tensor must be noticed by the comparison
    if recs and not only:
        c2 = check.Check("C13", [chk.tier])
        c2.known = []
        c2.violation = lambda key, detail, case: c2.violations.append((key, detail, None))     # no replay files for the control
        rec = copy.deepcopy(recs[0])
        sh = S[rec["shape"] - 1]
        f1 = rec["f1"][0] if sh["uhf"] else rec["f1"]
        f1[0][0] = {"c": [7, 0, 0, 0], "k": 0}
        pad_check_record(c2, sh, *mols[sh["name"]], rec)
        chk.part("pad_negative_control", rejected=bool(c2.violations))
        if not c2.violations:
            raise tlc.TLCError("binding failure: corrupted padding record accepted")
    return len(recs)


# ======================================================================================================
# (iii) classical solvers: observational scalar invariants
# ======================================================================================================
def efix(E):
    hi = math.floor(E * 1e4)
    lo = int(round((E * 1e4 - hi) * 1e6))
    return [int(hi), lo]


def classical_cases(quick):
    cs = [("H2", "FCI"), ("H2", "CCSD"), ("H2", "MP2"), ("LiH_fz", "FCI"), ("LiH_fz", "CCSD"), ("H2-", "FCI"), ("H2-", "CCSD"), ("H4", "FCI"), ("H4", "CCSD"),
          ("H4", "MP2"), ("H4-_uhf_fz", "CCSD"), ("H2_uhf", "CCSD"), ("H4+", "MP2"), ("H2_uhf", "MP2"), ("H4+", "CCSD")]
    if not quick:
        cs += [("H4+", "FCI"), ("H4+", "CCSD"), ("LiH", "FCI"), ("LiH", "CCSD"), ("LiH", "MP2"), ("LiH_fc", "CCSD"), ("LiH_fc", "FCI"), ("H2O_fz", "CCSD"),
               ("H2O_fz", "FCI"), ("H4_uhf", "CCSD")]
    return cs


def classical_molecule(key):
    from tangelo import SecondQuantizedMolecule
    if key in c08._MOLDEF:
        return c08.molecule(key)
    if key == "LiH":
        return SecondQuantizedMolecule([("Li", (0., 0., 0.)), ("H", (0., 0., 1.5949))], 0, 0, basis="sto-3g", frozen_orbitals=None)
    if key == "LiH_fc":
        return SecondQuantizedMolecule([("Li", (0., 0., 0.)), ("H", (0., 0., 1.5949))], 0, 0, basis="sto-3g", frozen_orbitals=1)
    if key == "H2O_fz":
        return SecondQuantizedMolecule([("O", (0., 0., 0.11779)), ("H", (0., 0.75545, -0.47116)), ("H", (0., -0.75545, -0.47116))], 0, 0, basis="sto-3g",
                                       frozen_orbitals=[0, 1, 6])
    if key == "H4_uhf":
        return SecondQuantizedMolecule(c08._H4_XYZ, 1, 1, basis="sto-3g", uhf=True, frozen_orbitals=None)
    raise KeyError(key)


def frozen_singly_occupied_rule(chk, jid):
    """Validation rule: a frozen list containing a SINGLY occupied orbital of an ROHF reference must be refused (the folded
    integrals would treat it as doubly occupied). If it is accepted nevertheless, the RDMs must still reproduce the solver
    energy: returns the scalar record to be judged, or None when the request was refused."""
    from tangelo import SecondQuantizedMolecule
    from tangelo.algorithms.classical import CCSDSolver
    d = c08._MOLDEF["H4+"]
    case = {"part": "classical", "mol": "H4+ frozen=[1] (singly occupied)", "solver": "CCSD", "rule": "frozen-singly-occupied"}
    try:
        mol = SecondQuantizedMolecule(d["xyz"], d["q"], d["spin"], basis="sto-3g", frozen_orbitals=[1])
    except Exception as e:
        chk.part("frozen_singly_occupied_rule", outcome="refused (%s)" % type(e).__name__)
        return None
    chk.part("frozen_singly_occupied_rule", outcome="ACCEPTED: energies judged")
    try:
        solver = CCSDSolver(mol)
        E = float(solver.simulate())
        g1, g2 = (np.array(x) for x in solver.get_rdm())
        E_rdm = float(mol.energy_from_rdms(g1, g2))
    except Exception as e:
        chk.violation("classical:frozen-singly-occupied-accepted:exception:%s" % type(e).__name__,
                      "ROHF molecule with a frozen singly occupied orbital was accepted and then %s" % e, case)
        return None
    job = {"id": jid, "kind": "scalars", "e_solver": efix(E), "e_rdm": efix(E_rdm), "trace": int(round(float(np.trace(g1).real) * 1e8)),
           "nelec": int(mol.n_active_electrons) * 10 ** 8, "herm1": 0, "herm2": 0, "tol": 100, "tol_e": 20000}
    case["solver"] = "frozen-singly-occupied-accepted"
    return job, (case, E, E_rdm, float(np.trace(g1).real), 0., 0.)


def part_classical(chk, cases=None):
    from tangelo.algorithms.classical import FCISolver, CCSDSolver, MP2Solver
    cls = {"FCI": FCISolver, "CCSD": CCSDSolver, "MP2": MP2Solver}
    jobs, meta = [], {}
    for mk, sk in (cases or classical_cases(chk.quick)):
        case = {"part": "classical", "mol": mk, "solver": sk}
        try:
            mol = classical_molecule(mk)
            solver = cls[sk](mol)
            E = float(solver.simulate())
            g1, g2 = solver.get_rdm()
        except Exception as e:
            if sk == "MP2" and isinstance(e, RuntimeError) and "not implemented" in str(e):
                fm = mol.frozen_mos
                really_frozen = fm is not None and (any(len(f) for f in fm) if mol.uhf else len(fm) > 0)
                if really_frozen:
                    continue      # documented: MP2 RDMs are not offered with frozen orbitals
                chk.violation("classical:MP2-UHF-unfrozen:exception", "%s/%s: get_rdm refuses a molecule WITHOUT frozen orbitals: %s" % (mk, sk, e), case)
                continue
            chk.violation("classical:exception:%s:%s" % (sk, type(e).__name__), "%s/%s: %s" % (mk, sk, e), case)
            continue
        case["rohf"] = bool(not mol.uhf and mol.spin != 0)
        if mol.uhf:
            E_rdm = float(mol.energy_from_rdms(g1, g2))
            tr = float(sum(np.trace(np.array(x)) for x in g1))
            herm1 = max(float(np.max(np.abs(np.array(x) - np.array(x).T))) for x in g1)
            herm2 = max(float(np.max(np.abs(np.array(x) - np.array(x).transpose(1, 0, 3, 2)))) for x in g2)
        else:
            if not (isinstance(g1, np.ndarray) and g1.ndim == 2 and isinstance(g2, np.ndarray) and g2.ndim == 4):
                E_bad = float(np.real(mol.energy_from_rdms(g1, g2))) if True else None
                chk.violation("classical:%s%s:rdm-format" % (sk, "-ROHF" if case["rohf"] else ""),
                              "%s/%s: a restricted molecule gets RDMs that are not (n,n) / (n,n,n,n) arrays (%s); energy_from_rdms gives %.6f, solver energy %.6f" % (
                                  mk, sk, type(g1).__name__, E_bad, E), case)
                continue
            g1, g2 = np.array(g1), np.array(g2)
            E_rdm = float(mol.energy_from_rdms(g1, g2))
            tr = float(np.trace(g1).real)
            herm1 = float(np.max(np.abs(g1 - g1.T.conj())))
            herm2 = float(np.max(np.abs(g2 - g2.transpose(1, 0, 3, 2).conj())))
        jid = len(jobs) + 1
        # tolerances: FCI is variationally exact (1e-8); CCSD/MP2 RDMs come from iterative lambda equations (1e-6)
        tol_e = 100 if sk == "FCI" else 20000          # units 1e-10
        jobs.append({"id": jid, "kind": "scalars", "e_solver": efix(E), "e_rdm": efix(E_rdm), "trace": int(round(tr * 1e8)),
                     "nelec": int(mol.n_active_electrons) * 10 ** 8, "herm1": int(round(herm1 * 1e8)), "herm2": int(round(herm2 * 1e8)),
                     "tol": 100, "tol_e": tol_e})
        meta[jid] = (case, E, E_rdm, tr, herm1, herm2)
    if cases is None:
        jid = len(jobs) + 1
        r = frozen_singly_occupied_rule(chk, jid)
        if r is not None:
            jobs.append(r[0])
            meta[jid] = r[1]
    if not jobs:
        return 0
    ctl = copy.deepcopy(jobs[0])
    ctl["id"] = 10 ** 6
    ctl["e_rdm"][0] += 1
    ctl2 = copy.deepcopy(jobs[0])
    ctl2["id"] = 10 ** 6 + 1
    ctl2["trace"] += 10 ** 6
    verdicts, results = tlc.judge("C13Trace", jobs + [ctl, ctl2], WD + "/classical", {"M": 8}, max_parallel=2)
    for r in results:
        chk.add_tlc(r)
    if verdicts[10 ** 6] == "ok" or verdicts[10 ** 6 + 1] == "ok":
        raise tlc.TLCError("binding failure: corrupted scalar record accepted")
    for j in jobs:
        case, E, E_rdm, tr, h1, h2 = meta[j["id"]]
        chk.add_traces(1, "classical_scalars")
        if verdicts[j["id"]] != "ok":
            lab = case["solver"] + ("-ROHF" if (case["solver"] == "MP2" and case.get("rohf")) else "")
            chk.violation("classical:%s:%s" % (lab, verdicts[j["id"]]),
                          "%s/%s: E_solver=%.10f E(rdm)=%.10f tr=%.8f |g1-g1^T|=%.2e |g2-g2^T|=%.2e" % (case["mol"], case["solver"], E, E_rdm, tr, h1, h2), case)
    chk.part("classical_observational", records=len(jobs), note="recorded-scalar invariants judged by C13Trace; NO independent oracle",
             negative_controls_rejected=2)
    return len(jobs)


def part_pipeline(chk, cases=(("LiH_fc", "CCSD"), ("H4-_uhf_fz", "CCSD"), ("LiH_fc", "FCI"))):
    """The real pipeline solver.get_rdm() -> pad_rdms_with_frozen_orbitals_*: the solver's OWN arrays (CCSDSolver returns
    transpose views of pyscf buffers) must be bit-identical after the padding call; padded RDMs carry all electrons and
    (observational) the solver's energy on the unfrozen molecule."""
    from tangelo.algorithms.classical import FCISolver, CCSDSolver
    from tangelo.toolboxes.molecular_computation.rdms import pad_rdms_with_frozen_orbitals_restricted, pad_rdms_with_frozen_orbitals_unrestricted
    n = 0
    info = {}
    for mk, sk in cases:
        case = {"part": "pipeline", "mol": mk, "solver": sk}
        try:
            mol = classical_molecule(mk)
            solver = {"FCI": FCISolver, "CCSD": CCSDSolver}[sk](mol)
            E = float(solver.simulate())
            g1, g2 = solver.get_rdm()
            arrs = (list(g1) + list(g2)) if mol.uhf else [g1, g2]
            bases = [a.base if a.base is not None else a for a in arrs]
            before = [np.array(a, copy=True) for a in arrs]
            bases0 = [np.array(b, copy=True) for b in bases]
            fn = pad_rdms_with_frozen_orbitals_unrestricted if mol.uhf else pad_rdms_with_frozen_orbitals_restricted
            p1, p2 = fn(mol, g1, g2)
        except Exception as e:
            chk.violation("pipeline:exception:%s:%s" % (sk, type(e).__name__), "%s/%s: %s" % (mk, sk, e), case)
            continue
        n += 1
        info["%s/%s" % (mk, sk)] = {"2rdm_is_view": bool(arrs[-1].base is not None), "c_contiguous": bool(arrs[-1].flags["C_CONTIGUOUS"])}
        for x, (a, b, bs, bs0) in enumerate(zip(arrs, before, bases, bases0)):
            if not (np.array_equal(a, b) and np.array_equal(bs, bs0)):
                chk.violation("pipeline:input-mutated:%s:%s" % (sk, "unrestricted" if mol.uhf else "restricted"),
                              "%s/%s: array %d returned by get_rdm() is altered by the padding call (max |change| = %.3g)" % (
                                  mk, sk, x, max(np.max(np.abs(a - b)), np.max(np.abs(bs - bs0)))), case)
        mol_full = mol.freeze_mos([[], []] if mol.uhf else [], inplace=False)
        tr = float(sum(np.trace(np.array(x)) for x in (p1 if mol.uhf else [p1])))
        e_full = float(mol_full.energy_from_rdms(list(p1), list(p2)) if mol.uhf else mol_full.energy_from_rdms(p1, p2))
        if abs(tr - mol.n_electrons) > 1e-6:
            chk.violation("pipeline:trace:%s" % sk, "%s/%s: tr(padded 1-RDM) = %.8f, electrons %d" % (mk, sk, tr, mol.n_electrons), case)
        if abs(e_full - E) > (1e-8 if sk == "FCI" else 2e-6):
            chk.violation("pipeline:energy:%s" % sk, "%s/%s: energy of the padded RDMs on the unfrozen molecule %.10f, solver energy %.10f" % (mk, sk, e_full, E), case)
    chk.add_traces(n, "pipeline_get_rdm_pad")
    chk.part("pipeline_get_rdm_pad", cases=n, layouts=info, note="frame condition on the solver's own arrays is exact; the energy/trace part is observational")
    return n


def part_noisy_smoke(chk):
    """Smoke check of the noisy branch of get_rdm / get_rdm_uhf (noise model with zero error rate, 20000 shots, fixed numpy
    seed): the call must succeed; the electron count and the RDM energy must be within a loose sampling band (0.1) of
    the noise-free values. Not an exact claim - it keeps the branch executable."""
    from tangelo.linq.noisy_simulation import NoiseModel
    from tangelo.algorithms.variational import VQESolver, BuiltInAnsatze
    n = 0
    for mk, uhf in (("H2", False), ("H2_uhf", True)):
        mol = c08.molecule(mk)
        case = {"part": "noisy", "mol": mk}
        nm = NoiseModel()
        nm.add_quantum_error("CNOT", "depol", 0.0)
        np.random.seed(chk.seed)
        th = [0.3, 0.2] if not uhf else None
        try:
            v = VQESolver({"molecule": mol, "ansatz": BuiltInAnsatze.UCCSD, "qubit_mapping": "scbk", "up_then_down": False, "initial_var_params": "random",
                           "backend_options": {"target": "cirq", "n_shots": 20000, "noise_model": nm}})
            v.build()
            v0 = VQESolver({"molecule": mol, "ansatz": BuiltInAnsatze.UCCSD, "qubit_mapping": "scbk", "up_then_down": False, "initial_var_params": "random"})
            v0.build()
            th = np.full(len(v.initial_var_params), 0.3)
            E0 = float(np.real(v0.energy_estimation(th)))
            g1, g2 = v.get_rdm_uhf(th) if uhf else v.get_rdm(th)
            E = float(mol.energy_from_rdms(g1, g2))
            tr = float(sum(np.trace(np.array(x)).real for x in g1)) if uhf else float(np.trace(g1).real)
        except Exception as e:
            chk.violation("get_rdm:noisy-branch:exception:%s" % type(e).__name__, "%s: get_rdm%s with a noise model raised %s: %s" % (
                mk, "_uhf" if uhf else "", type(e).__name__, e), case)
            continue
        n += 1
        if abs(tr - mol.n_active_electrons) > 0.1 or abs(E - E0) > 0.1:
            chk.violation("get_rdm:noisy-branch:value", "%s: tr = %.4f (electrons %d), E(rdm) = %.4f, noise-free energy %.4f" % (mk, tr, mol.n_active_electrons, E, E0), case)
    chk.part("noisy_branch_smoke", executed=n, note="zero-rate noise model, 20000 shots, band 0.1: executable-branch check only")
    return n


# ======================================================================================================
def run(chk):
    rng = random.Random(chk.seed)
    np.random.seed(chk.seed)
    skip = os.environ.get("VERIF_C13_SKIP", "").split(",")        # development aid
    only = os.environ.get("VERIF_C13_ONLY")
    n = 0
    if "pad" not in skip:
        n += part_pad(chk, rng)
    if "vqe" not in skip:
        cfgs = vqe_configs(chk.quick)
        if only:
            cfgs = [c for c in cfgs if any(f in c["name"] for f in only.split(","))]
        n += part_vqe(chk, rng, cfgs)
        if "hist" not in skip:
            n += part_rdm_history(chk)
    if "classical" not in skip:
        n += part_classical(chk)
        n += part_pipeline(chk)
        n += part_noisy_smoke(chk)
    chk.add_eval(n, n)
    chk.cov["rule"] = ("(i) VQE: configurations (molecule x ansatz x encoding x ordering) x grid parameter vectors, every measured RDM entry exact; "
                       "(ii) padding: every integer-amplitude state over the chosen support x every shape (restricted/ROHF/unrestricted, frozen "
                       "occupied/virtual patterns), exact; (iii) classical solvers: observational")
    chk.assumptions += [
        "(i) entries of the RDMs are trigonometric polynomials of the parameters; several grid vectors incl. non-Clifford points",
        "(i) encodings of the excitation operators come from the C03-validated fermion_to_qubit_mapping; under Jordan-Wigner TLC "
        "additionally recomputes every value from the Fock-space definition and requires agreement",
        "(ii) padding is affine in the RDMs: integer states of norm^2 = any integer are divided by <psi|psi> in the harness",
        "(iii) FCI/CCSD/MP2 sub-claim is OBSERVATIONAL: recorded scalars, no independent oracle (tolerance 1e-8 FCI, 2e-6 CCSD/MP2 energies)"]


def replay(chk, rec):
    case = rec["case"]
    c2 = check.Check("C13", [chk.tier])
    c2.known = []
    rng = random.Random(0)
    if case["part"] == "pad":
        part_pad(c2, rng, only=case["shape"])
    elif case["part"] == "vqe":
        cfg = vqe_by_name(case["cfg"])
        st = vqe_prepare(c2, cfg, rng)
        if case.get("theta") is not None:
            st.thetas = [np.array(case["theta"])]
        samples, stof = [], {}
        for th in st.thetas:
            v = c08.make_solver(cfg) if cfg["fresh"] else st.v
            s = vqe_drive(c2, cfg, st, v, th)
            samples.append(s)
            stof[id(s)] = st
        run_vqe_jobs(c2, samples, stof, "replay")
    elif case["part"] == "rdm-history":
        cfg = vqe_by_name(case["cfg"])
        st = vqe_prepare(c2, cfg, rng)
        st.thetas = [np.array(t) for t in case["thetas"]]
        st.vs, stof = [], {}
        for th in st.thetas:
            s = vqe_drive(c2, cfg, st, st.v, th)
            st.vs.append(s)
            stof[id(s)] = st
        run_vqe_jobs(c2, st.vs, stof, "replay")
        holder = c08.Holder()
        v = c08.make_solver(cfg, holder, initial=st.thetas[1])
        r = replay_rdm_history(cfg, st, v, holder, case["history"], {"cur": None, "opt": None})
        print("  history replay:", r)
        return r is None and not c2.violations
    elif case.get("rule"):
        part_classical(c2)           # the validation-rule record is part of the default classical run
    elif case["part"] == "noisy":
        part_noisy_smoke(c2)
        for key, detail, _ in c2.violations:
            print("  %s: %s" % (key, detail))
        return not c2.violations
    elif case["part"] == "pipeline":
        part_pipeline(c2, cases=[(case["mol"], case["solver"])])
    else:
        part_classical(c2, cases=[(case["mol"], case["solver"])])
    for key, detail, _ in c2.violations:
        print("  %s: %s" % (key, detail))
    return not any(k == rec["key"] for k, _, _ in c2.violations)


if __name__ == "__main__":
    check.main("C13", run, replay)
