#!/venv/bin/python
"""C14 - qubit-reduction techniques keep the eigenvalue they are meant to keep.

Three specifications, all bound to the code by TLC-judged records (V) of TLC-generated / synthetic inputs:
 * spec/C14Taper.tla    certificate (a)-(f) of Z2 tapering in the exact Pauli algebra over R_8 for Hamiltonians with
                        dyadic coefficients (SecondQuantizedMolecule on a synthetic IntegralSolver serving small integer
                        tensors; JW/BK/JKMN x both orderings x sectors); structure-only certificate + numeric tail for
                        H2/H4 from PySCF.
 * spec/C14Trim.tla     TLC generates circuits with idle / flipped / phase-only / superposed / entangled qubits,
                        trim_trivial_qubits(op, circuit) is run on them and TLC compares <psi|op|psi> with
                        <psi'|op'|psi'> exactly (ring engine).
 * spec/C14Truncate.tla TLC generates diagonal operators (Z words, coefficients k/64, n = 2..5) and tolerances,
                        frobenius_norm_compression is run and TLC compares the sorted exact spectra before/after.
"""
import copy
import itertools
import math
import os
import random
import sys

sys.path.insert(0, os.path.join(os.path.dirname(os.path.abspath(__file__)), "..", "harness"))
import check  # noqa: E402
import tlc  # noqa: E402
from enc import gates_to_json, json_to_gate, qubit_op_to_json, OffGrid, LETTER  # noqa: E402
from ring import gauss_dyadic  # noqa: E402

import numpy as np  # noqa: E402

M = 8
WD = "c14" + os.environ.get("VERIF_WORKTAG", "")     # work directory under .work (tag: parallel development runs)
LET = "IXYZ"
TINT = {0: 0, 1: 3, 2: 1, 3: 2}      # Tangelo integer code (0 I, 1 Z, 2 X, 3 Y) -> spec letter (0 I, 1 X, 2 Y, 3 Z)
_seen = {}


def viol(chk, key, detail, case):
    """at most two recorded samples per key that is not a known finding (replay files exist for the first 50 only)"""
    if chk.match_known(key) is None:
        _seen[key] = _seen.get(key, 0) + 1
        if _seen[key] > 2:
            return
    chk.violation(key, detail, case)


# ======================================================================================================
#  format conversions
# ======================================================================================================
def to_ring8(z, max_k=12, tol=1e-11):
    """complex -> element of Z[zeta_8][1/2] (dict) or None.  z = (a0 + a1 w + a2 w^2 + a3 w^3) / 2^k, w = e^{i pi/4}:
    Re z * 2^k = a0 + (a1 - a3)/sqrt2,  Im z * 2^k = a2 + (a1 + a3)/sqrt2."""
    z = complex(z)
    r2 = math.sqrt(2.0)
    for k in range(max_k + 1):
        s = float(1 << k)
        sols = []
        for part in (z.real * s, z.imag * s):
            found = None
            for u in range(-64, 65):
                a = part - u / r2
                if abs(a - round(a)) <= tol * s:
                    found = (int(round(a)), u)
                    break
            sols.append(found)
        if sols[0] is None or sols[1] is None:
            continue
        (a0, u), (a2, v) = sols
        if (u + v) % 2:
            continue
        c = [a0, (u + v) // 2, a2, (v - u) // 2]
        kk = k
        while kk > 0 and all(x % 2 == 0 for x in c):
            c = [x // 2 for x in c]
            kk -= 1
        if all(x == 0 for x in c):
            kk = 0
        return {"c": c, "k": kk}
    return None


def word_of_term(term, n):
    w = [0] * n
    for q, l in term:
        if q >= n:
            raise OffGrid("qubit %d >= %d" % (q, n))
        w[q] = LETTER[l]
    return w


def op_json(op, n, conv=None):
    """QubitOperator -> [{"w", "c"}] with exact coefficients (zero coefficients dropped)."""
    out = []
    for t, c in op.terms.items():
        e = (conv or (lambda z: gauss_dyadic(z, M)))(c)
        if e is None:
            raise OffGrid("coefficient %r" % (c,))
        if any(e["c"]):
            out.append({"w": word_of_term(t, n), "c": e})
    return out


def mf_rows(mf):
    """MultiformOperator -> list of (word, factor)."""
    return [([TINT[int(v)] for v in row], complex(f)) for row, f in zip(mf.integer, mf.factors)]


ONE = {"c": [1, 0, 0, 0], "k": 0}


# ======================================================================================================
#  tapering
# ======================================================================================================
def make_solver_class():
    from tangelo.toolboxes.molecular_computation.integral_solver import IntegralSolver

    class SynthSolver(IntegralSolver):
        """Serves small integer tensors as MO integrals (public extension point of SecondQuantizedMolecule)."""

        def __init__(self, h1, eri, n_electrons, core=0):
            self.h1, self.eri, self.ne, self.core = np.array(h1, float), np.array(eri, float), n_electrons, float(core)

        def set_physical_data(self, mol):
            mol.n_electrons = self.ne
            mol.n_atoms = 1

        def compute_mean_field(self, sqmol):
            n = self.h1.shape[0]
            na = (self.ne + sqmol.spin) // 2
            nb = (self.ne - sqmol.spin) // 2
            sqmol.mf_energy = 0.
            sqmol.mo_energies = [float(x) for x in range(n)]
            sqmol.mo_occ = [(1. if x < na else 0.) + (1. if x < nb else 0.) for x in range(n)]
            sqmol.n_mos = n
            sqmol.n_sos = 2 * n
            self.mo_coeff = np.eye(n)

        def get_integrals(self, sqmol, mo_coeff=None):
            # chemist (pq|rs) -> openfermion convention h[p,q,r,s] = (ps|qr)
            return self.core, self.h1.copy(), np.einsum("psqr->pqrs", self.eri)

    return SynthSolver


def synth_integrals(n_mo, rng, irreps=None):
    """Symmetric integer one-body matrix and 8-fold symmetric integer (pq|rs).  irreps: list of 0/1 per MO - integrals
    vanish unless the product of the irreps is totally symmetric (gives the Hamiltonian an extra Z2 symmetry)."""
    def allowed(idx):
        return irreps is None or sum(irreps[x] for x in idx) % 2 == 0
    h1 = [[0] * n_mo for _ in range(n_mo)]
    for p in range(n_mo):
        for q in range(p, n_mo):
            v = rng.choice([-3, -2, -1, 1, 2, 3]) if allowed((p, q)) else 0
            h1[p][q] = h1[q][p] = v
    eri = np.zeros((n_mo,) * 4, dtype=int)
    done = set()
    for p, q, r, s in itertools.product(range(n_mo), repeat=4):
        if (p, q, r, s) in done:
            continue
        v = rng.choice([-2, -1, 1, 2, 0]) if allowed((p, q, r, s)) else 0
        for idx in [(p, q, r, s), (q, p, r, s), (p, q, s, r), (q, p, s, r), (r, s, p, q), (s, r, p, q), (r, s, q, p), (s, r, q, p)]:
            eri[idx] = v
            done.add(idx)
    return h1, eri.tolist()


_MOL_CACHE = {}


def build_molecule(spec):
    """One SecondQuantizedMolecule per distinct molecule (the mapping / ordering / requested-spin variants share it; it is only read)."""
    import json as _json
    key = _json.dumps({k: v for k, v in spec.items() if k not in ("spin_req", "asym")}, sort_keys=True, default=str)
    if key not in _MOL_CACHE:
        _MOL_CACHE[key] = _build_molecule(spec)
    return _MOL_CACHE[key]


def _build_molecule(spec):
    from tangelo.toolboxes.molecular_computation.molecule import SecondQuantizedMolecule
    if spec["kind"] == "synth":
        Solver = make_solver_class()
        return SecondQuantizedMolecule([["H", (0., 0., 0.)]], q=0, spin=spec["spin"],
                                       solver=Solver(spec["h1"], spec["eri"], spec["ne"], spec.get("core", 0)),
                                       frozen_orbitals=spec.get("frozen"))
    return SecondQuantizedMolecule(spec["xyz"], q=spec.get("q", 0), spin=spec["spin"], basis="sto-3g", frozen_orbitals=spec.get("frozen"))


def _tap_state(tap):
    """Everything a QubitTapering object keeps: it must not change when operators it handed out are modified."""
    t = tap.z2_tapered_op
    u = tap.z2_properties["unitary"]
    i = tap.initial_op
    return {"tapered.terms": dict(t.terms), "tapered.integer": np.array(t.integer).copy(), "tapered.factors": np.array(t.factors).copy(),
            "unitary.terms": dict(u.terms), "unitary.integer": np.array(u.integer).copy(), "unitary.factors": np.array(u.factors).copy(),
            "eigenvalues": np.array(tap.z2_properties["eigenvalues"]).copy(), "n_symmetries": tap.z2_properties["n_symmetries"],
            "initial.terms": dict(i.terms), "initial.integer": np.array(i.integer).copy()}


def _state_diff(a, b):
    for key in a:
        x, y = a[key], b[key]
        if isinstance(x, dict):
            if set(x) != set(y) or any(abs(complex(x[t]) - complex(y[t])) > 1e-12 for t in x):
                return key
        elif isinstance(x, np.ndarray):
            if x.shape != np.shape(y) or not np.array_equal(x, y):
                return key
        elif x != y:
            return key
    return None


def _same_op(a, b, tol=1e-9):
    ka = {t for t, c in a.terms.items() if abs(c) > tol}
    kb = {t for t, c in b.terms.items() if abs(c) > tol}
    return ka == kb and all(abs(complex(a.terms[t]) - complex(b.terms[t])) <= tol for t in ka)


def taper_history(chk, tap, qh, Xq, n, case):
    """One QubitTapering object, several requests: the operators it hands out are modified IN PLACE and requested again.
    Returns pristine snapshots of the first copies and the later copies (judged by TLC as well)."""
    from tangelo.toolboxes.operators import QubitOperator

    def scribble(op, a, b):
        op *= a
        op -= QubitOperator((), b)
        for t in list(op.terms)[:1]:
            op -= QubitOperator(t, op.terms[t])          # remove one term entirely
        op += QubitOperator(((0, "Y"),), 0.625)

    def unchanged(what, s0, arg=None, arg0=None):
        dkey = _state_diff(s0, _tap_state(tap))
        if dkey:
            viol(chk, "QubitTapering:history:internal-state-changed:%s" % dkey.split(".")[0],
                 "%s changed %s of the tapering object" % (what, dkey), case)
        if arg is not None and dict(arg.terms) != arg0:
            viol(chk, "QubitTapering:history:argument-changed", "%s modified the operator passed in" % what, case)

    s0 = _tap_state(tap)
    qh0 = dict(qh.terms)
    T1 = tap.z2_tapered_op.qubitoperator
    T1snap = copy.deepcopy(T1)
    TX1 = TX1snap = None
    if Xq is not None:
        x0 = dict(Xq.terms)
        TX1 = tap.z2_tapering(Xq, n_qubits=n)
        TX1snap = copy.deepcopy(TX1)
        unchanged("z2_tapering(X)", s0, Xq, x0)
    scribble(T1, 3.0, 0.5)
    unchanged("in-place arithmetic on z2_tapered_op.qubitoperator", s0)
    if TX1 is not None:
        scribble(TX1, -2.0, 1.0)
        unchanged("in-place arithmetic on the operator returned by z2_tapering", s0)
        other = 0.5 * qh + Xq
        o0 = dict(other.terms)
        tap.z2_tapering(other, n_qubits=n)                 # an unrelated request between the two
        unchanged("z2_tapering(another operator)", s0, other, o0)
    T2 = tap.z2_tapered_op.qubitoperator
    TH = tap.z2_tapering(qh, n_qubits=n)
    unchanged("z2_tapering(H)", s0, qh, qh0)
    TA, TXA = [copy.deepcopy(T2), copy.deepcopy(TH)], []
    if T2 is T1:
        viol(chk, "QubitTapering:history:same-object-returned-twice", "z2_tapered_op.qubitoperator returned the object handed out before", case)
    if not _same_op(T2, T1snap, 1e-12):
        viol(chk, "QubitTapering:history:second-copy-differs:z2_tapered_op.qubitoperator",
             "the tapered operator requested after the first copy was modified in place differs from the first request", case)
    if not _same_op(TH, T1snap):
        viol(chk, "QubitTapering:history:second-copy-differs:z2_tapering(H)", "z2_tapering(H) differs from z2_tapered_op", case)
    if TX1 is not None:
        TX2 = tap.z2_tapering(Xq, n_qubits=n)
        TXA.append(copy.deepcopy(TX2))
        if not _same_op(TX2, TX1snap, 1e-12):
            viol(chk, "QubitTapering:history:second-copy-differs:z2_tapering(X)", "z2_tapering(X) requested twice gives different operators", case)
    scribble(T2, -1.0, 2.0)
    T3 = tap.z2_tapered_op.qubitoperator
    if not _same_op(T3, T1snap, 1e-12):
        viol(chk, "QubitTapering:history:second-copy-differs:z2_tapered_op.qubitoperator", "third request differs from the first", case)
    unchanged("the whole request history", s0)
    return {"T1": T1snap, "TX1": TX1snap, "TA": TA, "TXA": TXA}


def taper_record(chk, jid, spec, mapping, utd, structure=False):
    """Runs the code; returns (job, extra) or None after reporting an exception."""
    from tangelo.toolboxes.operators import FermionOperator, QubitOperator
    from tangelo.toolboxes.qubit_mappings.mapping_transform import fermion_to_qubit_mapping
    from tangelo.toolboxes.operators.taper_qubits import QubitTapering
    from tangelo.toolboxes.operators.z2_tapering import get_clifford_operators
    from tangelo.toolboxes.operators.multiformoperator import MultiformOperator
    case = {"kind": "taper", "mol": spec, "mapping": mapping, "utd": utd, "structure": structure}
    mol = build_molecule(spec)
    nso, ne, spin = mol.n_active_sos, mol.n_active_electrons, mol.active_spin
    # the sector the CALLER asks for: spin = n_alpha - n_beta may be negative (the molecule itself is built with |spin|)
    spin = spec.get("spin_req", spin)
    fh = mol.fermionic_hamiltonian
    asym = spec.get("asym")
    if asym:
        # spin-asymmetric terms (they commute with N_alpha and N_beta, so the parity symmetries stay): c * Sz (Zeeman),
        # c * N, and an alpha-only one-body block (UHF-style: different alpha and beta one-body matrices)
        f2 = FermionOperator()
        f2.terms = dict(fh.terms)
        for p_ in range(nso):
            f2 += FermionOperator(((p_, 1), (p_, 0)), asym.get("n", 0.) + (0.5 if p_ % 2 == 0 else -0.5) * asym.get("sz", 0.))
        for i_, row in enumerate(asym.get("alpha", [])):
            for j_, v_ in enumerate(row):
                if v_:
                    f2 += FermionOperator(((2 * i_, 1), (2 * j_, 0)), float(v_))
        fh = f2
    qh = fermion_to_qubit_mapping(fh, mapping, n_spinorbitals=nso, n_electrons=ne, up_then_down=utd, spin=spin)
    n = nso
    try:
        tap = QubitTapering(qh, n, ne, spin, mapping, utd)
    except Exception as e:      # noqa: BLE001
        viol(chk, "QubitTapering:raised:%s" % type(e).__name__, "QubitTapering(%s, utd=%s) raised %s: %s" % (mapping, utd, type(e).__name__, str(e)[:150]), case)
        return None
    kernel = tap.initial_op.kernel
    k = int(tap.z2_properties["n_symmetries"])
    cliffords, q_idx = get_clifford_operators(kernel)
    if len(cliffords) != kernel.shape[0]:
        chk.notes.append("kernel has %d rows but only %d Clifford factors (%s utd=%s)" % (kernel.shape[0], len(cliffords), mapping, utd))
    # S_i = second row of the i-th Clifford factor (sigma_i + S_i)/sqrt 2; eigenvalues are paired by position as the code does
    S = [[TINT[int(v)] for v in c.integer[1]] for c in cliffords]
    sg = [TINT[int(c.integer[0][q])] for c, q in zip(cliffords, q_idx)]
    U = tap.z2_properties["unitary"]
    eps = [int(round(float(np.real(x)))) for x in tap.z2_properties["eigenvalues"]][:k]
    # the encoded parities 1 - 2 n_p (trusted base: the encodings themselves are the subject of C03)
    W = []
    for p in range(nso):
        npq = fermion_to_qubit_mapping(FermionOperator(((p, 1), (p, 0))), mapping, n_spinorbitals=nso, n_electrons=ne, up_then_down=utd, spin=spin)
        nz = [(t, c) for t, c in npq.terms.items() if t != () and abs(c) > 1e-12]
        if len(nz) != 1 or abs(abs(nz[0][1]) - 0.5) > 1e-12 or abs(npq.terms.get((), 0) - 0.5) > 1e-12:
            raise OffGrid("number operator %d is not (1 - word)/2 under %s" % (p, mapping))
        W.append({"w": word_of_term(nz[0][0], n), "s": int(round(-2 * np.real(nz[0][1])))})
    # another operator tapered with the same function: a hopping term, a number operator and a ladder operator that
    # anticommutes with the electron-number parity (documented to be culled)
    x_f = FermionOperator(((0, 1), (2, 0)), 0.5) + FermionOperator(((2, 1), (0, 0)), 0.5) + FermionOperator(((1, 1), (1, 0)), 0.25) \
        + FermionOperator(((0, 1),), 0.75) + FermionOperator(((0, 0),), 0.75)
    Xq = fermion_to_qubit_mapping(x_f, mapping, n_spinorbitals=nso, n_electrons=ne, up_then_down=utd, spin=spin)
    has_x = True
    try:
        hist = taper_history(chk, tap, qh, Xq, n, case)
        T, TX = hist["T1"], hist["TX1"]
    except Exception as e:      # noqa: BLE001
        viol(chk, "z2_tapering:raised:%s" % type(e).__name__, "request history (z2_tapered_op / z2_tapering) raised %s: %s" % (type(e).__name__, str(e)[:150]), case)
        has_x, TX = False, QubitOperator()
        T = tap.z2_tapered_op.qubitoperator
        hist = {"TA": [], "TXA": []}
    if structure:
        Hj = [{"w": word_of_term(t, n), "c": ONE} for t in qh.terms]
        Tj = []
    else:
        Hj = op_json(qh, n)
        Tj = op_json(T, n - k)
    Uj = []
    for w, f in mf_rows(U):
        e = to_ring8(f)
        if e is None:
            raise OffGrid("unitary factor %r" % (f,))
        Uj.append({"w": w, "c": e})
    job = {"id": jid, "n": n, "k": k, "nso": nso, "na": (ne + spin) // 2, "nb": (ne - spin) // 2, "H": Hj, "S": S,
           "q": [int(x) for x in q_idx], "sg": sg, "U": Uj, "eps": eps, "T": Tj,
           "X": op_json(Xq, n), "TX": op_json(TX, n - k) if has_x else [], "has_x": has_x, "W": W, "structure": structure, "has_f": True,
           "TA": [] if structure else [op_json(o, n - k) for o in hist["TA"]],
           "TXA": [op_json(o, n - k) for o in hist["TXA"]] if has_x else []}
    extra = {"case": case, "qh": qh, "T": T, "later": hist["TA"], "fh": fh, "nso": nso, "ne": ne, "spin": spin, "k": k, "hterms": list(qh.terms.items())}
    return job, extra


HANDWRITTEN = {
    # transverse-field Ising chains: the symmetry is an X string, sigma is a Z (or Y) letter
    # (the X0 / Y0 field removes the additional Z0 Z1 symmetry, see docs/C14.md "observation")
    "ising3-X": (3, [("X0 X1", 0.5), ("Z0 Z1", 0.25), ("Z1 Z2", -0.75), ("X2", 0.125), ("X0", 0.375)]),
    "ising3-Y": (3, [("Y0 X1", 0.5), ("Z0 Z1", 0.25), ("Z1 Z2", -0.75), ("X2", 0.125), ("Y0", 0.375)]),
    "ising4-X": (4, [("X0 X1", 0.5), ("Z0 Z1", 0.25), ("Z1 Z2", -0.75), ("X2", 0.125), ("Z2 Z3", 1.5), ("X3", -0.375), ("", 2.0), ("X0", 0.625)]),
    "ising3-two-symmetries": (3, [("X0 X1", 0.5), ("Z0 Z1", 0.25), ("Z1 Z2", -0.75), ("X2", 0.125)]),
    "mixed4":   (4, [("X0 X1", 0.5), ("Y0 Y1", 0.25), ("Z0 Z1", 0.125), ("Z2", 0.75), ("X2 Y3", -0.5), ("Y2 X3", 0.5), ("Z3", 0.25), ("Z1 Z2", 1.0)]),
}


def handwritten_record(chk, jid, name):
    """Hand-written dyadic qubit Hamiltonians with X/Y-type Z2 symmetries: clauses (a)-(e) only."""
    from tangelo.toolboxes.operators import QubitOperator
    from tangelo.toolboxes.operators.taper_qubits import QubitTapering
    from tangelo.toolboxes.operators.z2_tapering import get_clifford_operators
    n, terms = HANDWRITTEN[name]
    case = {"kind": "taper-handwritten", "name": name}
    qh = QubitOperator()
    for t, c in terms:
        qh += QubitOperator(t, c)
    try:
        tap = QubitTapering(qh, n, 2, 0, "JW", False)
    except Exception as e:      # noqa: BLE001
        viol(chk, "QubitTapering:raised:%s" % type(e).__name__, "QubitTapering(%s) raised %s: %s" % (name, type(e).__name__, str(e)[:150]), case)
        return None
    kernel = tap.initial_op.kernel
    k = int(tap.z2_properties["n_symmetries"])
    cliffords, q_idx = get_clifford_operators(kernel)
    if len(set(int(x) for x in q_idx)) != len(q_idx):
        # not a molecular Hamiltonian: outside the quantifier of the property; recorded as an observation only
        chk.notes.append("hand-written %s: get_clifford_operators chose the same qubit for two symmetries (q=%s)" % (name, list(q_idx)))
        chk.part("taper_handwritten_outside_domain", **{name: "q_indices %s not distinct" % [int(x) for x in q_idx]})
        return None
    S = [[TINT[int(v)] for v in c.integer[1]] for c in cliffords]
    sg = [TINT[int(c.integer[0][q])] for c, q in zip(cliffords, q_idx)]
    Uj = [{"w": w, "c": to_ring8(f)} for w, f in mf_rows(tap.z2_properties["unitary"])]
    eps = [int(round(float(np.real(x)))) for x in tap.z2_properties["eigenvalues"]][:k]
    hist = taper_history(chk, tap, qh, None, n, case)
    T = hist["T1"]
    job = {"id": jid, "n": n, "k": k, "nso": 0, "na": 0, "nb": 0, "H": op_json(qh, n), "S": S, "q": [int(x) for x in q_idx], "sg": sg,
           "U": Uj, "eps": eps, "T": op_json(T, n - k), "X": [], "TX": [], "has_x": False, "W": [], "structure": False, "has_f": False,
           "TA": [op_json(o, n - k) for o in hist["TA"]], "TXA": []}
    extra = {"case": case, "qh": qh, "T": T, "later": hist["TA"], "fh": None, "nso": 0, "ne": 0, "spin": 0, "k": k, "hterms": list(qh.terms.items())}
    return job, extra


TAPER_FAIL = 1 | 2 | 4 | 8 | 16 | 32 | 128 | 512 | 1024          # 256 is information, 64 malformed
TAPER_BITS = [(1, "symmetry-does-not-commute"), (2, "U-not-unitary"), (4, "U-S-Udg-not-single-qubit"), (8, "rotated-term-not-diagonal-on-q"),
              (16, "tapered-operator-differs"), (32, "sector-eigenvalue-wrong"), (128, "z2_tapering-other-operator-differs"),
              (512, "history:later-copy-of-tapered-operator-fails-certificate"), (1024, "history:later-z2_tapering(X)-fails-certificate")]


def sector_min(fh, nso, na, nb):
    """lowest eigenvalue of the fermionic Hamiltonian restricted to the (n_alpha, n_beta) determinants (numeric tail)."""
    from openfermion.linalg import get_sparse_operator
    import openfermion as of
    f = of.FermionOperator()
    f.terms = dict(fh.terms)
    mat = get_sparse_operator(f, n_qubits=nso).toarray()
    idx = []
    for x in range(2 ** nso):
        bits = [(x >> (nso - 1 - p)) & 1 for p in range(nso)]        # openfermion: mode 0 most significant
        if sum(bits[0::2]) == na and sum(bits[1::2]) == nb:
            idx.append(x)
    sub = mat[np.ix_(idx, idx)]
    return float(np.linalg.eigvalsh(sub)[0])


def numeric_tail(chk, job, extra, verdict):
    """eigvalsh cross-check (<= 8 qubits), reported separately; never part of the TLC-decided counts."""
    from openfermion.linalg import qubit_operator_sparse
    n, k = job["n"], job["k"]
    if n > 8:
        return
    eH = np.linalg.eigvalsh(qubit_operator_sparse(extra["qh"], n).toarray())
    eT = np.linalg.eigvalsh(qubit_operator_sparse(extra["T"], n - k).toarray()) if n - k > 0 else np.array([np.real(extra["T"].terms.get((), 0.))])
    contained = all(np.min(np.abs(eH - x)) < 1e-8 for x in eT)
    if extra["fh"] is None:          # hand-written qubit Hamiltonian: containment only
        if (verdict & TAPER_FAIL) == 0 and not contained:
            raise tlc.TLCError("certificate accepted by TLC but eigvalsh finds an eigenvalue of T outside spec(H): %s" % extra["case"])
        return
    emin = sector_min(extra["fh"], extra["nso"], job["na"], job["nb"])
    retained = float(np.min(np.abs(eT - emin))) < 1e-8     # the sector minimum is AN eigenvalue of T (T also holds other sectors of equal parities)
    cert_ok = (verdict & TAPER_FAIL) == 0
    strong = (verdict & 256) == 0
    d = chk.cov["parts"].setdefault("taper_numeric_tail", {"cases": 0, "contained": 0, "sector_min_retained": 0,
                                                           "extra_symmetry_cases": 0, "extra_symmetry_min_lost": 0})
    d["cases"] += 1
    d["contained"] += int(contained)
    d["sector_min_retained"] += int(retained)
    if not strong:
        d["extra_symmetry_cases"] += 1
        d["extra_symmetry_min_lost"] += int(not retained)
    if cert_ok and not contained:
        raise tlc.TLCError("certificate accepted by TLC but eigvalsh finds an eigenvalue of T outside spec(H): %s" % extra["case"])
    if cert_ok and strong and not retained:
        raise tlc.TLCError("certificate (incl. sector clause) accepted but the sector minimum %.10f is not in spec(T) (min %.10f): %s"
                           % (emin, eT[0], extra["case"]))
    if cert_ok and not strong and not retained and extra["case"]["mol"]["kind"] == "real":
        viol(chk, "QubitTapering:sector-minimum-lost:numeric", "real molecule: the sector minimum %.8f is not an eigenvalue of T (min spec(T) = %.8f)" % (emin, eT[0]), extra["case"])


def synth_specs(chk, rng):
    quick = chk.quick
    specs = []
    # 2 MOs (4 qubits): every sector
    for trial in range(1 if quick else 3):
        h1, eri = synth_integrals(2, rng)
        for ne, spin in [(2, 0), (2, 2), (1, 1), (3, 1)]:
            specs.append({"kind": "synth", "h1": h1, "eri": eri, "ne": ne, "spin": spin, "frozen": None})
    # 2 MOs with different irreps: extra Z2
    h1, eri = synth_integrals(2, rng, irreps=[0, 1])
    for ne, spin in [(2, 0), (2, 2)] + ([] if quick else [(1, 1), (3, 1)]):
        specs.append({"kind": "synth", "h1": h1, "eri": eri, "ne": ne, "spin": spin, "frozen": None, "irreps": [0, 1]})
    # 3 MOs, lowest frozen (4 qubits, effective one-body terms and core constant)
    h1, eri = synth_integrals(3, rng)
    for ne, spin in [(4, 0)] + ([] if quick else [(4, 2), (3, 1)]):
        specs.append({"kind": "synth", "h1": h1, "eri": eri, "ne": ne, "spin": spin, "frozen": [0]})
    # 3 MOs (6 qubits)
    h1, eri = synth_integrals(3, rng)
    for ne, spin in [(2, 0)] + ([] if quick else [(4, 0), (3, 1), (4, 2), (2, 2)]):
        specs.append({"kind": "synth", "h1": h1, "eri": eri, "ne": ne, "spin": spin, "frozen": None})
    # negative spins (n_alpha < n_beta) and Hamiltonians that are NOT symmetric under alpha <-> beta exchange: every open-shell
    # job gets a twin with the opposite sign of the requested spin and a Zeeman / number / alpha-only one-body term, so that the
    # (n_a, n_b) and (n_b, n_a) sectors are not degenerate and the reference occupation matters
    twins = []
    for sp in specs:
        if sp["spin"] > 0:
            nmo = len(sp["h1"]) - len(sp.get("frozen") or [])
            alpha = [[0] * nmo for _ in range(nmo)]
            alpha[0][0], alpha[0][nmo - 1], alpha[nmo - 1][0] = 1, (1 if nmo > 1 else 1), (1 if nmo > 1 else 1)
            asym = {"sz": 0.0625, "n": 0.25, "alpha": alpha}
            twins.append(dict(sp, spin_req=-sp["spin"], asym=asym))
            if not quick or sp["ne"] % 2:
                twins.append(dict(sp, spin_req=sp["spin"], asym=asym))
    specs += twins
    if not quick:
        h1, eri = synth_integrals(3, rng, irreps=[0, 1, 0])
        for ne, spin in [(2, 0), (4, 0), (3, 1)]:
            specs.append({"kind": "synth", "h1": h1, "eri": eri, "ne": ne, "spin": spin, "frozen": None, "irreps": [0, 1, 0]})
    return specs


def real_specs(chk):
    specs = [{"kind": "real", "name": "H2", "xyz": [["H", (0., 0., 0.)], ["H", (0., 0., 0.7414)]], "spin": 0},
             {"kind": "real", "name": "H2-triplet", "xyz": [["H", (0., 0., 0.)], ["H", (0., 0., 0.7414)]], "spin": 2}]
    # open-shell real molecule with a Zeeman term, both signs of the requested spin
    h3 = [["H", (0., 0., 0.)], ["H", (0., 0., 0.9)], ["H", (0., 0., 1.9)]]
    specs.append({"kind": "real", "name": "H3-radical-Zeeman", "xyz": h3, "spin": 1, "spin_req": -1, "asym": {"sz": 0.0625}})
    if not chk.quick:
        specs.append({"kind": "real", "name": "H3-radical-Zeeman", "xyz": h3, "spin": 1, "spin_req": 1, "asym": {"sz": 0.0625}})
        specs.append({"kind": "real", "name": "H3-radical", "xyz": h3, "spin": 1, "spin_req": -1})
        specs.append({"kind": "real", "name": "H4+-Zeeman", "q": 1, "spin": 1, "spin_req": -1, "asym": {"sz": 0.0625, "n": 0.25},
                      "xyz": [["H", (0.7071, 0., 0.)], ["H", (0., 0.7071, -0.1)], ["H", (-1.0071, 0., 0.)], ["H", (0., -1.0071, 0.2)]]})
    if not chk.quick:
        specs.append({"kind": "real", "name": "H4", "spin": 0,
                      "xyz": [["H", (0.7071, 0., 0.)], ["H", (0., 0.7071, -0.1)], ["H", (-1.0071, 0., 0.)], ["H", (0., -1.0071, 0.2)]]})
        specs.append({"kind": "real", "name": "H3+", "spin": 0, "q": 1,
                      "xyz": [["H", (0., 0., 0.)], ["H", (0., 0., 0.9)], ["H", (0., 0.8, 0.4)]]})
    return specs


def taper_negative_controls(jobs):
    ctl = []
    base = 10 ** 7
    for j in jobs:
        if j["structure"] or j["k"] == 0 or not j["T"] or len(ctl) >= 12:
            continue
        for field, bit in (("eps", 16 | 32), ("T", 16), ("S", 1 | 4 | 32), ("U", 2 | 4 | 8 | 16), ("sg", 4 | 8), ("TA", 512)):
            c = copy.deepcopy(j)
            c["id"] = base + len(ctl)
            if field == "eps":
                c["eps"][0] = -c["eps"][0]
            elif field == "T":
                c["T"][0]["c"] = {"c": [-x for x in c["T"][0]["c"]["c"]], "k": c["T"][0]["c"]["k"]}
            elif field == "S":
                q = c["q"][0]
                c["S"][0][q] = 0 if c["S"][0][q] else 3
            elif field == "U":
                c["U"][0]["c"] = {"c": [-x for x in c["U"][0]["c"]["c"]], "k": c["U"][0]["c"]["k"]}
                if len(c["U"]) == 1:
                    continue
            elif field == "sg":
                c["sg"][0] = 1 + (c["sg"][0] % 3)
            elif field == "TA":
                if not c["TA"] or not c["TA"][0]:
                    continue
                c["TA"][0][0]["c"] = {"c": [3 * x for x in c["TA"][0][0]["c"]["c"]], "k": c["TA"][0][0]["c"]["k"]}   # a scaled later copy
            c["_expect"] = bit
            ctl.append(c)
    return ctl


def run_taper(chk, rng):
    jobs, extras = [], {}
    mappings = ["JW", "BK", "JKMN"]
    for spec in synth_specs(chk, rng) + real_specs(chk):
        for mapping in mappings:
            for utd in (False, True):
                jid = len(jobs) + 1
                try:
                    rec = taper_record(chk, jid, spec, mapping, utd, structure=(spec["kind"] == "real"))
                except OffGrid as e:
                    chk.inconclusive += 1
                    chk.notes.append("taper off-grid: %s" % e)
                    continue
                if rec is None:
                    continue
                jobs.append(rec[0])
                extras[jid] = rec[1]
    for name in sorted(HANDWRITTEN):
        rec = handwritten_record(chk, len(jobs) + 1, name)
        if rec is not None:
            jobs.append(rec[0])
            extras[len(jobs)] = rec[1]
    if not jobs:
        chk.part("taper", jobs=0, note="every tapering call raised on this tree (see KNOWN-FINDING)")
        return
    # spread the expensive (large register) records evenly over the JVMs: judge() cuts the list into contiguous chunks
    par = 6 if chk.quick else 12
    heavy_first = sorted(jobs, key=lambda j: -(j["n"] * 1000 + len(j["H"])))
    balanced = [j for c in range(par) for j in heavy_first[c::par]]
    verdicts, results = tlc.judge("C14Taper", balanced, WD + "/taper", {"M": M}, max_parallel=par, timeout=7200, heap="6g")
    # negative controls are corrupted copies of records that CONFORM (second batch)
    ctl = taper_negative_controls([j for j in jobs if (verdicts[j["id"]] & TAPER_FAIL) == 0])
    expect = {c["id"]: c.pop("_expect") for c in ctl}
    if ctl:
        vc, rc = tlc.judge("C14Taper", ctl, WD + "/taper_ctl", {"M": M}, max_parallel=4, timeout=7200, heap="6g")
        verdicts.update(vc)
        results += rc
    structures = {}
    for r in results:
        chk.add_tlc(r)
        for st in r.prints("ST"):
            structures[st["id"]] = st["st"]
    nbad = n_struct = n_extra = 0
    for j in jobs:
        v = verdicts[j["id"]]
        ex = extras[j["id"]]
        chk.add_traces(1, "taper_structure" if j["structure"] else "taper_exact")
        if v & 64:
            raise tlc.TLCError("malformed taper record %s" % ex["case"])
        if v & 256:
            n_extra += 1
        if v & TAPER_FAIL:
            nbad += 1
            for bit, name in TAPER_BITS:
                if v & bit:
                    viol(chk, "QubitTapering:%s" % name, "TLC certificate bits %d for %s" % (v, ex["case"]), ex["case"])
        if j["structure"] and (v & TAPER_FAIL) == 0:
            # spec-structured contraction: TLC's words/signs x the code's float coefficients vs the code's tapered operator
            n_struct += 1
            want = {}
            for (t, c), st in zip(ex["hterms"], structures[j["id"]]):
                sgn = complex(st["re"], st["im"]) / (2 ** st["k"])
                key = tuple(st["tw"])
                want[key] = want.get(key, 0) + sgn * c
            err = 0.
            for copy_i, top in enumerate([ex["T"]] + list(ex.get("later", []))):      # first request and the later requests
                got = {tuple(word_of_term(t, j["n"] - j["k"])): c for t, c in top.terms.items()}
                err = max([err] + [abs(want.get(key, 0) - got.get(key, 0)) for key in set(want) | set(got)])
            chk.part("taper_contraction", cases=n_struct)
            if err > 1e-9:
                viol(chk, "QubitTapering:tapered-operator-differs:contraction", "max coefficient error %.3g for %s" % (err, ex["case"]), ex["case"])
        numeric_tail(chk, j, ex, v)
    bad_ctl = [cid for cid, e in expect.items() if not (verdicts[cid] & e)]
    chk.part("taper", jobs=len(jobs), nonconforming=nbad, extra_symmetry_jobs=n_extra, negative_controls=len(ctl),
             controls_rejected=len(ctl) - len(bad_ctl), qubits=sorted(set(j["n"] for j in jobs)), symmetries=sorted(set(j["k"] for j in jobs)))
    if not ctl and nbad == 0:
        raise tlc.TLCError("no taper negative controls could be built")
    if bad_ctl:
        raise tlc.TLCError("binding failure: corrupted taper records accepted: %s" % bad_ctl)
    j0 = jobs[0]
    chk.sample({"taper": {"n": j0["n"], "k": j0["k"], "S": j0["S"], "q": j0["q"], "sg": j0["sg"], "eps": j0["eps"], "T_terms": len(j0["T"])}})


# ======================================================================================================
#  trimming
# ======================================================================================================
TRIM_CFG = """CONSTANTS M = 8
Mode = "gen"
N = %(n)d
RecipeSet <- %(rs)s
EntSet <- %(es)s
INIT GenInit
NEXT GenNext
INVARIANT RecipeModel
"""


def trim_ops(n):
    from tangelo.toolboxes.operators import QubitOperator
    ops = []
    for q in range(n):
        for l in "ZXY":
            ops.append(QubitOperator(((q, l),), 1.0))
    g = QubitOperator((), 2.0) + QubitOperator(((0, "Z"),), 0.5)
    if n >= 2:
        g += QubitOperator(((0, "Z"), (1, "Z")), 0.75) + QubitOperator(((0, "X"), (1, "Y")), 0.25 + 0.125j) \
            + QubitOperator(((0, "Z"), (n - 1, "X")), 0.375) + QubitOperator(((n - 1, "Z"),), -1.5) \
            + QubitOperator(((0, "Y"), (n - 1, "Z")), 0.0625j)
    if n >= 3:
        g += QubitOperator(((0, "Z"), (1, "Z"), (2, "Z")), -0.3125) + QubitOperator(((1, "X"), (2, "X")), 1.25) \
            + QubitOperator(((1, "Z"), (n - 1, "Y")), 0.5) + QubitOperator(((n - 2, "Z"), (n - 1, "Z")), 0.875)
    ops.append(g)
    return ops


def trim_record(chk, jid, circ):
    from tangelo.linq import Circuit
    from tangelo.toolboxes.operators.trim_trivial_qubits import trim_trivial_qubits, trim_trivial_circuit, trim_trivial_operator
    n = circ["n"]
    case = {"kind": "trim", "circ": circ}

    def mk():
        return Circuit([json_to_gate(g, M) for g in circ["gates"]], n_qubits=n)
    ops = trim_ops(n)
    job = {"id": jid, "n": n, "gates": circ["gates"], "ops": [], "has_trim": False, "trim": [], "n2": 0, "gates2": []}
    try:
        c2 = None
        _, ts = trim_trivial_circuit(mk())
        for op in ops:
            op2, c2 = trim_trivial_qubits(copy.deepcopy(op), mk())
            n2 = c2.width
            op3 = trim_trivial_operator(copy.deepcopy(op), dict(ts), n, reindex=False)
            job["ops"].append({"op": qubit_op_to_json(op, n), "op2": qubit_op_to_json(op2, n2), "op3": qubit_op_to_json(op3, n)})
        job["n2"] = c2.width
        job["gates2"] = gates_to_json(list(c2), M)
        job["trim"] = [[int(q), int(b)] for q, b in ts.items()]
        job["has_trim"] = True
    except OffGrid as e:
        viol(chk, "trim_trivial_qubits:operator-outside-trimmed-register", "%s on %s" % (e, circ["gates"]), case)
        return None
    except Exception as e:     # noqa: BLE001
        viol(chk, "trim_trivial_qubits:raised:%s" % type(e).__name__, "raised %s: %s on %s" % (type(e).__name__, str(e)[:120], circ["gates"]), case)
        return None
    return job, case


def trim_negative_controls(jobs):
    ctl = []
    base = 10 ** 7
    for j in jobs:
        if len(ctl) >= 8 or j["n2"] == j["n"] or not j["trim"]:
            continue
        ones = [t for t in j["trim"] if t[1] == 1]
        c = copy.deepcopy(j)
        c["id"] = base + len(ctl)
        # claim the opposite basis state for one removed qubit in the recorded trim table
        c["trim"][0][1] = 1 - c["trim"][0][1]
        c["_expect"] = 4
        ctl.append(c)
        if ones:
            # flip the sign of the trimmed Z coefficient of a qubit that sits in |1>
            q = ones[0][0]
            c = copy.deepcopy(j)
            c["id"] = base + len(ctl)
            for pair in c["ops"]:
                if len(pair["op"]) == 1 and pair["op"][0]["w"][q] == 3 and sum(1 for x in pair["op"][0]["w"] if x) == 1:
                    for t in pair["op2"]:
                        t["c"] = {"c": [-x for x in t["c"]["c"]], "k": t["c"]["k"]}
            c["_expect"] = 1
            ctl.append(c)
    return ctl


# ------------------------------------------------------------------------------------------------------
#  NUMERIC TAIL (not model-checked): angles next to the grid
# ------------------------------------------------------------------------------------------------------
NEAR_DELTAS = [s * d for d in (1e-7, 3e-6, 3e-5, 3e-4, 3e-3, 3e-2) for s in (1, -1)]
DOC_ATOL = 1e-5          # documented: is_bitflip_gate(gate, atol=1e-5) "the absolute tolerance for gate parameter"


def near_grid_tail(chk, circuits, rng):
    """The exact engine lives on the 2pi/8 grid; the classification of a rotation as a bit flip has a documented angle
    tolerance (atol = 1e-5 rad).  Off-grid, the trusted float oracle is the cirq backend: for a TLC-generated circuit with
    one rotation angle moved by delta, whatever the code decides (trim or keep),
        | <psi|op|psi>(original, perturbed)  -  <psi'|op'|psi'>(trimmed pair) |  <=  2 * atol * ||op||_1 + 1e-9 .
    Justification: a qubit left in cos(d/2)|b> -i sin(d/2)|1-b> instead of |b> changes a Pauli expectation by at most
    |sin d| <= |d| (X, Y) resp. 1 - cos d (Z); the code may only ignore d when |d| <= atol, so each term moves by at most
    |c_w| * atol; the factor 2 is slack for second order / two perturbed letters of one word."""
    import inspect
    from tangelo.linq import Circuit, get_backend
    from tangelo.toolboxes.operators import QubitOperator
    from tangelo.toolboxes.operators.trim_trivial_qubits import trim_trivial_qubits, is_bitflip_gate
    from ring import k_to_angle
    atol = inspect.signature(is_bitflip_gate).parameters["atol"].default
    if atol != DOC_ATOL:
        chk.spec_drift("is_bitflip_gate's documented default tolerance is now %r (was %r): the numeric tail uses the new value" % (atol, DOC_ATOL))
    sim = get_backend("cirq")
    cand = [c for c in circuits if any(g["name"] in ("RX", "RY", "RZ") and not g["c"] for g in c["gates"])]
    cand = rng.sample(cand, min(len(cand), 40 if chk.quick else 400))
    stats = {"circuits": 0, "perturbed_runs": 0, "expectations_compared": 0, "max_excess_over_bound": 0.0, "max_error_over_norm1": 0.0,
             "documented_atol": atol, "deltas": sorted(set(abs(d) for d in NEAR_DELTAS)), "oracle": "cirq statevector (trusted float)", "failures": 0}

    def expval(op, circ):
        if circ.width == 0 or not op.terms:
            return complex(op.terms.get((), 0.)) if op.terms else 0j
        return complex(sim.get_expectation_value(op, circ))

    for circ in cand:
        n = circ["n"]
        stats["circuits"] += 1
        rot = [i for i, g in enumerate(circ["gates"]) if g["name"] in ("RX", "RY", "RZ") and not g["c"]]
        for gi in rot[:2]:
            q = circ["gates"][gi]["t"][0]
            ops = [QubitOperator(((q, l),), 1.0) for l in "XYZ"] + [trim_ops(n)[-1]]
            for delta in NEAR_DELTAS:
                def mk():
                    gs = []
                    for i, g in enumerate(circ["gates"]):
                        gate = json_to_gate(g, M)
                        if i == gi:
                            gate.parameter = k_to_angle(g["k"], M) + delta
                        gs.append(gate)
                    return Circuit(gs, n_qubits=n)
                stats["perturbed_runs"] += 1
                for op in ops:
                    case = {"kind": "trim-near-grid", "circ": circ, "gate": gi, "delta": delta, "op": [[list(map(list, t)), str(c)] for t, c in op.terms.items()]}
                    try:
                        e0 = expval(op, mk())
                        op2, c2 = trim_trivial_qubits(copy.deepcopy(op), mk())
                        e1 = expval(op2, c2)
                    except Exception as e:      # noqa: BLE001
                        viol(chk, "trim_trivial_qubits:near-grid-angle:raised:%s" % type(e).__name__, "delta=%g: %s" % (delta, str(e)[:120]), case)
                        stats["failures"] += 1
                        continue
                    norm1 = sum(abs(c) for c in op.terms.values())
                    err = abs(e0 - e1)
                    bound = 2 * atol * norm1 + 1e-9
                    stats["expectations_compared"] += 1
                    stats["max_error_over_norm1"] = max(stats["max_error_over_norm1"], err / norm1)
                    if err > bound:
                        stats["failures"] += 1
                        stats["max_excess_over_bound"] = max(stats["max_excess_over_bound"], err - bound)
                        viol(chk, "trim_trivial_qubits:near-grid-angle:expectation-moved-beyond-documented-tolerance:%s" % circ["gates"][gi]["name"],
                             "NUMERIC TAIL: %s(%s%+.0e) on qubit %d: |<op> - <op'>| = %.3g > 2*atol*||op||_1 = %.3g (atol=%g)" % (
                                 circ["gates"][gi]["name"], "k=%d*2pi/8" % circ["gates"][gi]["k"], delta, q, err, bound, atol), case)
    chk.part("numeric_tail_near_grid_angles", **stats)



def run_trim(chk, rng):
    quick = chk.quick
    gens = [(2, "RecipesAll", "EntAll"), (3, "RecipesCore", "EntCore" if quick else "EntAll")]
    if not quick:
        gens += [(3, "RecipesAll", "EntCore"), (4, "RecipesCore", "EntAll")]
    res = tlc.run_many([dict(module="C14Trim", cfg=TRIM_CFG % dict(n=n, rs=rs, es=es), name=WD + "/trimgen_%d_%s" % (n, rs), workers=2)
                        for n, rs, es in gens], max_parallel=4)
    circuits = []
    for (n, rs, es), r in zip(gens, res):
        if not r.ok:
            raise tlc.TLCError("C14Trim generation / recipe model failed: %s %s" % (r.violated, r.out[-1500:]))
        chk.add_tlc(r, "trim_gen_n%d_%s" % (n, rs))
        cs = r.prints("CIRC")
        cap = (800 if quick else 3000)
        if len(cs) > cap:
            cs = rng.sample(cs, cap)
        circuits += cs
    jobs, cases = [], {}
    for circ in circuits:
        jid = len(jobs) + 1
        rec = trim_record(chk, jid, circ)
        if rec is None:
            continue
        jobs.append(rec[0])
        cases[jid] = rec[1]
    consts = {"M": M, "Mode": '"judge"', "N": 1, "RecipeSet": "{}", "EntSet": "{}"}
    verdicts, results = tlc.judge("C14Trim", jobs, WD + "/trim", consts, max_parallel=6 if quick else 12, timeout=7200)
    ctl = trim_negative_controls([j for j in jobs if not (verdicts[j["id"]] & 23)])      # from conforming records only
    expect = {c["id"]: c.pop("_expect") for c in ctl}
    if ctl:
        vc, rc = tlc.judge("C14Trim", ctl, WD + "/trim_ctl", consts, max_parallel=2, timeout=7200)
        verdicts.update(vc)
        results += rc
    for r in results:
        chk.add_tlc(r)
    nbad = ntrimmed = 0
    for j in jobs:
        v = verdicts[j["id"]]
        chk.add_traces(1, "trim")
        if not (v & 8):
            ntrimmed += 1
        if v & 2:
            raise tlc.TLCError("malformed trim record %s" % cases[j["id"]])
        if v & 1:
            nbad += 1
            viol(chk, "trim_trivial_qubits:expectation-changed", "<psi|op|psi> != <psi'|op'|psi'> for recipes %s ent=%s order=%s; removed %s" % (
                cases[j["id"]]["circ"].get("rec"), cases[j["id"]]["circ"].get("ent"), cases[j["id"]]["circ"].get("order"), j["trim"]), cases[j["id"]])
        if v & 16:
            nbad += 1
            viol(chk, "trim_trivial_operator:expectation-changed:no-reindex", "<psi|op|psi> != <psi|op3|psi> (reindex=False) for recipes %s; removed %s" % (
                cases[j["id"]]["circ"].get("rec"), j["trim"]), cases[j["id"]])
        if v & 4:
            nbad += 1
            viol(chk, "trim_trivial_circuit:state-not-preserved", "circuit' x |removed bits> is not proportional to the original state for recipes %s; removed %s" % (
                cases[j["id"]]["circ"].get("rec"), j["trim"]), cases[j["id"]])
    bad_ctl = [cid for cid, e in expect.items() if not (verdicts[cid] & e)]
    chk.part("trim", circuits=len(jobs), with_removed_qubits=ntrimmed, nonconforming=nbad, operators_per_circuit=len(trim_ops(2)),
             negative_controls=len(ctl), controls_rejected=len(ctl) - len(bad_ctl))
    if jobs and not ctl and nbad == 0:
        raise tlc.TLCError("no trim negative controls could be built")
    if bad_ctl:
        raise tlc.TLCError("binding failure: corrupted trim records accepted: %s" % bad_ctl)
    if jobs:
        j0 = jobs[len(jobs) // 2]
        chk.sample({"trim": {"n": j0["n"], "gates": j0["gates"], "n2": j0["n2"], "removed": j0["trim"]}})
    near_grid_tail(chk, circuits, rng)


# ======================================================================================================
#  truncation
# ======================================================================================================
DEN = 64
TRUNC_CFG = 'CONSTANTS\nMode = "gen"\nNMax = %d\nINIT GenInit\nNEXT GenNext\nINVARIANT Parseval\n'


def mask_term(m, n):
    return tuple((q, "Z") for q in range(n) if (m >> q) & 1)


def trunc_record(chk, jid, n, terms, E):
    from tangelo.toolboxes.operators import QubitOperator
    case = {"kind": "truncate", "n": n, "terms": terms, "E": E}
    op = QubitOperator()
    for t in terms:
        if t["a"]:
            op += QubitOperator(mask_term(t["m"], n), t["a"] / DEN)
    eps = math.sqrt(E) / DEN
    try:
        op.frobenius_norm_compression(eps, n)
    except Exception as e:     # noqa: BLE001
        viol(chk, "frobenius_norm_compression:raised:%s" % type(e).__name__, "raised %s: %s" % (type(e).__name__, str(e)[:120]), case)
        return None
    kept = []
    for t, c in op.terms.items():
        if any(l != "Z" for _, l in t):
            raise tlc.TLCError("non-diagonal term returned for a diagonal input: %s" % (t,))
        a = c * DEN
        if abs(complex(a).imag) > 1e-12 or abs(np.real(a) - round(np.real(a))) > 1e-9:
            raise OffGrid("coefficient %r" % (c,))
        kept.append({"m": sum(1 << q for q, _ in t), "a": int(round(np.real(a)))})
    job = {"id": jid, "n": n, "terms": [t for t in terms if t["a"]], "kept": kept, "E": E}
    return job, case


def numeric_truncation_tail(chk, rng):
    """Non-diagonal operators: eigenvalue movement by LAPACK (numeric tail, not TLC-decided)."""
    from tangelo.toolboxes.operators import QubitOperator
    from openfermion.linalg import qubit_operator_sparse
    d = {"cases": 0, "moved_more_than_eps": 0}
    cases = []
    # the design probe: n = 3, all 8 Z-words with c = 1 next to 100 * X0, eps = 2 sqrt 8
    probe = [(mask_term(m, 3), 1.0) for m in range(8)] + [(((0, "X"),), 100.0)]
    cases.append((3, probe, 2 * math.sqrt(8)))
    for n in (2, 3, 4, 5):
        for _ in range(2 if chk.quick else 6):
            words = set()
            while len(words) < min(4 ** n - 1, 10):
                w = tuple((q, l) for q, l in ((q, rng.choice("IXYZ")) for q in range(n)) if l != "I")
                words.add(w)
            terms = [(w, rng.choice([1, 2, 3, -1, -2, 40, -64]) / 16.0) for w in sorted(words)]
            cases.append((n, terms, rng.choice([0.25, 0.5, 1.0, 2.0])))
    for n, terms, eps in cases:
        op = QubitOperator()
        for w, c in terms:
            op += QubitOperator(w, c)
        e0 = np.linalg.eigvalsh(qubit_operator_sparse(op, n).toarray())
        op2 = copy.deepcopy(op)
        op2.frobenius_norm_compression(eps, n)
        e1 = np.linalg.eigvalsh(qubit_operator_sparse(op2, n).toarray()) if op2.terms else np.zeros(2 ** n)
        mv = float(np.max(np.abs(e0 - e1)))
        d["cases"] += 1
        if mv > eps + 1e-9:
            d["moved_more_than_eps"] += 1
            viol(chk, "frobenius_norm_compression:eigenvalue-moved:%s-n:numeric" % ("odd" if n % 2 else "even"),
                 "n=%d eps=%.4f: an eigenvalue moved by %.4f (LAPACK, non-diagonal operator)" % (n, eps, mv),
                 {"kind": "truncate-numeric", "n": n, "terms": [[list(map(list, w)), c] for w, c in terms], "eps": eps})
    chk.part("truncate_numeric_tail", **d)


def run_truncate(chk, rng):
    quick = chk.quick
    r = tlc.run("C14Truncate", TRUNC_CFG % 5, WD + "/truncgen", workers=2)
    if not r.ok:
        raise tlc.TLCError("C14Truncate generation / Parseval self-check failed: %s %s" % (r.violated, r.out[-1500:]))
    chk.add_tlc(r, "truncate_gen")
    fams = r.prints("OPS")
    jobs, cases = [], {}
    for f in fams:
        for E in f["E"]:
            if E >= 2 ** 30:
                continue
            jid = len(jobs) + 1
            try:
                rec = trunc_record(chk, jid, f["n"], f["terms"], E)
            except OffGrid:
                chk.inconclusive += 1
                continue
            if rec is None:
                continue
            jobs.append(rec[0])
            cases[jid] = dict(rec[1], family=f["kind"])
    verdicts, results = tlc.judge("C14Truncate", jobs, WD + "/trunc", {"Mode": '"judge"', "NMax": 5}, max_parallel=6 if quick else 12)
    ctl = []
    for j in jobs:
        if verdicts[j["id"]] & 3:
            continue                      # controls are corrupted copies of conforming records
        if len(ctl) < 6 and len(j["kept"]) < len(j["terms"]) and len(j["kept"]) >= 1:
            c = copy.deepcopy(j)
            c["id"] = 10 ** 7 + len(ctl)
            ident = [t for t in c["kept"] if t["m"] == 0]
            if ident and ident[0]["a"] * ident[0]["a"] > c["E"]:
                c["kept"].remove(ident[0])         # pretend the identity term (a uniform shift > epsilon) was discarded too
                ctl.append(c)
    if ctl:
        vc, rc = tlc.judge("C14Truncate", ctl, WD + "/trunc_ctl", {"Mode": '"judge"', "NMax": 5}, max_parallel=2)
        verdicts.update(vc)
        results += rc
    for res in results:
        chk.add_tlc(res)
    nbad = ndisc = 0
    for j in jobs:
        v = verdicts[j["id"]]
        chk.add_traces(1, "truncate")
        if not (v & 8):
            ndisc += 1
        if v & 1:
            viol(chk, "frobenius_norm_compression:kept-terms-not-a-subset", "kept %s of %s" % (j["kept"], j["terms"]), cases[j["id"]])
        if v & 2:
            nbad += 1
            viol(chk, "frobenius_norm_compression:eigenvalue-moved:%s-n" % ("odd" if j["n"] % 2 else "even"),
                 "n=%d, family %s, epsilon=sqrt(%d)/64: a (sorted) eigenvalue moves by more than epsilon; kept %d of %d terms" % (
                     j["n"], cases[j["id"]]["family"], j["E"], len(j["kept"]), len(j["terms"])), cases[j["id"]])
    bad_ctl = [c["id"] for c in ctl if not (verdicts[c["id"]] & 2)]
    chk.part("truncate", jobs=len(jobs), with_discarded_terms=ndisc, nonconforming=nbad, negative_controls=len(ctl),
             controls_rejected=len(ctl) - len(bad_ctl), registers=sorted(set(j["n"] for j in jobs)))
    if not ctl and nbad == 0:
        raise tlc.TLCError("no truncation negative controls could be built")
    if bad_ctl:
        raise tlc.TLCError("binding failure: corrupted truncation records accepted: %s" % bad_ctl)
    chk.sample({"truncate": {k: jobs[len(jobs) // 3][k] for k in ("n", "terms", "kept", "E")}})
    numeric_truncation_tail(chk, rng)


# ======================================================================================================
def run(chk):
    rng = random.Random(chk.seed)
    if os.environ.get("VERIF_NO_KNOWN"):          # development aid for mutation experiments on a tree with the proposed fixes applied
        chk.known = []
    parts = os.environ.get("C14_PARTS", "taper,trim,truncate").split(",")      # development aid
    if "taper" in parts:
        run_taper(chk, rng)
    if "trim" in parts:
        run_trim(chk, rng)
    if "truncate" in parts:
        run_truncate(chk, rng)
    chk.cov["rule"] = ("taper: certificate (a)-(f) judged by TLC for synthetic integer-integral molecules (4 and 6 qubits, all sectors, "
                       "frozen orbital, extra Z2) x JW/BK/JKMN x both orderings, structure + contraction + LAPACK tail for H2/H4; "
                       "trim: TLC-generated circuits (recipe per qubit + entangling block) x 3n+1 operators, exact expectation values; "
                       "truncate: TLC-generated diagonal operator families x tolerances on n = 2..5, exact sorted spectra")
    chk.assumptions += ["tapering: coefficients dyadic (integer MO integrals); the encodings of the number operators are taken from the code "
                        "(fermion_to_qubit_mapping, subject of C03) to identify determinants in the qubit space",
                        "real molecules: coefficients are floats - the structure (words, signs, sector clause) is decided by TLC, the "
                        "coefficients by contraction at 1e-9 and the spectra by LAPACK (numeric tail, reported separately)",
                        "trimming: gate angles on the 2pi/8 grid; truncation: decided for diagonal operators only (coefficients k/64, "
                        "tolerance sqrt(E)/64); non-diagonal truncation is numeric tail"]


def replay(chk, rec):
    case = rec["case"]
    c2 = check.Check("C14", ["quick"])
    c2.known = []
    ok = True
    if case["kind"] == "taper":
        r = taper_record(c2, 1, case["mol"], case["mapping"], case["utd"], structure=case.get("structure", False))
        if r is None:
            ok = False
        else:
            verdicts, results = tlc.judge("C14Taper", [r[0]], WD + "/replay", {"M": M})
            print("TLC certificate bits:", verdicts[1], [nm for b, nm in TAPER_BITS if verdicts[1] & b])
            ok = (verdicts[1] & TAPER_FAIL) == 0
            if ok and case.get("structure"):
                print("(structure accepted; re-run the check for the coefficient contraction / numeric tail)")
    elif case["kind"] == "taper-handwritten":
        r = handwritten_record(c2, 1, case["name"])
        if r is None:
            ok = False
        else:
            verdicts, results = tlc.judge("C14Taper", [r[0]], WD + "/replay", {"M": M})
            print("TLC certificate bits:", verdicts[1], [nm for b, nm in TAPER_BITS if verdicts[1] & b])
            ok = (verdicts[1] & TAPER_FAIL) == 0
    elif case["kind"] == "trim":
        r = trim_record(c2, 1, case["circ"])
        if r is None:
            ok = False
        else:
            consts = {"M": M, "Mode": '"judge"', "N": 1, "RecipeSet": "{}", "EntSet": "{}"}
            verdicts, _ = tlc.judge("C14Trim", [r[0]], WD + "/replay", consts)
            print("gates:", case["circ"]["gates"], "\nremoved:", r[0]["trim"], " trimmed gates:", r[0]["gates2"], "\nTLC verdict bits:", verdicts[1])
            ok = not (verdicts[1] & 21)
    elif case["kind"] == "truncate":
        r = trunc_record(c2, 1, case["n"], case["terms"], case["E"])
        if r is None:
            ok = False
        else:
            verdicts, _ = tlc.judge("C14Truncate", [r[0]], WD + "/replay", {"Mode": '"judge"', "NMax": 5})
            print("n=%d eps=sqrt(%d)/64 kept %s of %d terms; TLC verdict bits: %s" % (case["n"], case["E"], r[0]["kept"], len(r[0]["terms"]), verdicts[1]))
            ok = not (verdicts[1] & 3)
    elif case["kind"] == "trim-near-grid":
        c3 = check.Check("C14", ["thorough"])
        c3.known = []

        class _One:            # replays exactly the recorded circuit (all deltas, first two rotations)
            def sample(self, cand, k):
                return [case["circ"]]
        near_grid_tail(c3, [case["circ"]], _One())
        for v in c3.violations:
            print("  ", v[0], "|", str(v[1])[:300])
        print(c3.cov["parts"]["numeric_tail_near_grid_angles"])
        ok = not c3.violations
    elif case["kind"] == "truncate-numeric":
        from tangelo.toolboxes.operators import QubitOperator
        from openfermion.linalg import qubit_operator_sparse
        op = QubitOperator()
        for w, c in case["terms"]:
            op += QubitOperator(tuple((q, l) for q, l in w), c)
        n, eps = case["n"], case["eps"]
        e0 = np.linalg.eigvalsh(qubit_operator_sparse(op, n).toarray())
        op.frobenius_norm_compression(eps, n)
        e1 = np.linalg.eigvalsh(qubit_operator_sparse(op, n).toarray()) if op.terms else np.zeros(2 ** n)
        mv = float(np.max(np.abs(e0 - e1)))
        print("eps=%.6f max eigenvalue movement %.6f" % (eps, mv))
        ok = mv <= eps + 1e-9
    for v in c2.violations:
        print("  ", v[0], "|", str(v[1])[:300])
    return ok and not c2.violations


if __name__ == "__main__":
    check.main("C14", run, replay)
