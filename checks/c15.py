#!/venv/bin/python
"""C15 - problem-decomposition energies satisfy their defining identities.

Increments (S+G): spec/C15Increments.tla is the incremental summation as a state machine (one action per truncation
    order) over arbitrary integer fragment energies; TLC checks Moebius inversion / the full-order identity and prints
    every explored transition; each is packed into the full_result format of MethodOfIncrementsHelper and
    mi_summation() (also with corrections and user_provided_energies) must return the spec's value EXACTLY.
ONIOM (S+V): spec/C15Oniom.tla: formal telescoping over uninterpreted energies; records of real
    ONIOMProblemDecomposition.simulate() runs (solver names, geometries incl. caps, fixed-point energies) are judged by
    TLC; Link.relink judged in exact integer arithmetic (G); atom distribution compared with the spec's selection.
DMET (G + observational V): spec/C15Dmet.tla: permutation semantics of the fragment-atom argument (G), and invariants
    over recorded fixed-point scalars of real runs (electron count, exact embedding, relabelling) - OBSERVATIONAL.
Python only drives the code, converts formats and compares floats with exact values TLC produced.
"""
import os
# tiny molecules: one BLAS/OpenMP thread each (the default, one per core, crawls on a shared machine)
for _v in ("OMP_NUM_THREADS", "MKL_NUM_THREADS", "OPENBLAS_NUM_THREADS"):
    os.environ[_v] = os.environ.get("VERIF_OMP", "1")
import copy
import warnings
warnings.filterwarnings("ignore", category=SyntaxWarning)
import itertools
import json
import math
import os
import random
import sys

sys.path.insert(0, os.path.join(os.path.dirname(os.path.abspath(__file__)), "..", "harness"))
import check  # noqa: E402
import tlc  # noqa: E402

MAXPAR = int(os.environ.get("VERIF_MAXPAR", "16"))
NOUSER = -999999


def control_outcome(chk, part, ctl, base_ok, accepted):
    """Negative controls, robust for every seed: a control is evaluated only when TLC accepted its base record; a corruption
    kind fails (binding failure, exit 2) only when it had evaluated candidates and NONE of them was rejected."""
    kinds = {}
    for c in ctl:
        if not base_ok(c):
            continue
        k = kinds.setdefault(c["ctl"], [0, 0])
        k[0] += 1
        k[1] += 0 if accepted(c) else 1
    chk.part(part, corrupted=sum(k[0] for k in kinds.values()), rejected=sum(k[1] for k in kinds.values()),
             by_kind={n: {"evaluated": k[0], "rejected": k[1]} for n, k in sorted(kinds.items())})
    dead = sorted(n for n, k in kinds.items() if k[0] > 0 and k[1] == 0)
    if dead:
        raise tlc.TLCError("binding failure (%s): no corrupted record of kind %s was rejected" % (part, dead))


# =====================================================================================================
# Method of increments
# =====================================================================================================
MI_INVS = ["Moebius", "AccDef", "FullOrder", "OneBody"]


def mi_cfg(nc, er="R3", mf="Mf2", cr="R1", um="NoUsers", ur="UR2", init="InitAll"):
    return ("CONSTANTS NC = %d\nERange <- %s\nMfRange <- %s\nCRange <- %s\nUMasks <- %s\nURange <- %s\nINIT %s\nNEXT Next\n"
            % (nc, er, mf, cr, um, ur, init) + "".join("INVARIANT %s\n" % i for i in MI_INVS))


def mask_to_id(x, m):
    return str(tuple(i for i in range(m) if (x >> i) & 1))


def mi_pack(rec, scale=1.0, rng=None):
    """TLC record -> (full_result dictionary in the QEMIST Cloud format, user_provided_energies or None)."""
    m, order, emf = rec["m"], rec["order"], rec["emf"]
    masks = [x for x in range(1, 2 ** m) if bin(x).count("1") <= order]
    if rng is not None:
        rng.shuffle(masks)
    sub = {}
    for x in masks:
        nb = bin(x).count("1")
        sub.setdefault(str(nb), {})[mask_to_id(x, m)] = {
            "energy_total": rec["E"][x - 1] * scale, "correction": rec["C"][x - 1] * scale,
            "energy_correlation": (rec["E"][x - 1] - emf) * scale, "problem_handle": 1000 + x,
            "frozen_orbitals_truncated": [], "complete_orbital_space": list(range(2 * m))}
    # the helper recovers e_mf = energy_total - energy_correlation: any pair with that difference will do
    # (deliberately NOT the expected answer)
    full = {"energy_total": (emf + 7) * scale, "energy_correlation": 7 * scale, "subproblem_data": sub}
    user = {mask_to_id(x, m): rec["U"][x - 1] * scale for x in masks if rec["U"][x - 1] != NOUSER}
    return full, (user if user else None)


def mi_call(rec, scale=1.0, rng=None, empty_user_dict=False):
    from tangelo.problem_decomposition import MethodOfIncrementsHelper
    full, user = mi_pack(rec, scale, rng)
    helper = MethodOfIncrementsHelper(full_result=full)
    if user is None and empty_user_dict:
        user = {}
    u_in = copy.deepcopy(user)
    val = helper.mi_summation(user_provided_energies=user) if user is not None else helper.mi_summation()
    if user != u_in:
        raise AssertionError("mi_summation modified user_provided_energies")
    # calling twice must give the same value (no state carried between calls)
    val2 = helper.mi_summation(user_provided_energies=user) if user is not None else helper.mi_summation()
    if val2 != val:
        raise AssertionError("second mi_summation call returned %r, first %r" % (val2, val))
    return val


def mi_jobs(chk, rng):
    """Seeded sample of assignments for InitJobs (wide ranges, corrections, user energies)."""
    jobs = {3: [], 4: []}
    n3, n4 = (150, 60) if chk.quick else (1500, 600)
    for m, n in ((3, n3), (4, n4)):
        nm = 2 ** m - 1
        for _ in range(n):
            style = rng.randrange(4)
            E = [rng.randint(-2000, 2000) for _ in range(nm)]
            C = [0] * nm if style == 0 else [rng.randint(-50, 50) for _ in range(nm)]
            if style <= 1:
                U = [NOUSER] * nm
            else:
                U = [rng.randint(-2000, 2000) if rng.random() < (0.3 if style == 2 else 1.0) else NOUSER for _ in range(nm)]
            jobs[m].append({"m": m, "emf": rng.randint(-3000, 3000), "E": E, "C": C, "U": U})
    return jobs


def mi_key(rec):
    kind = "user" if any(u != NOUSER for u in rec["U"]) else "stored"
    return "mi_summation:m%d:order%d:%s" % (rec["m"], rec["order"], "full" if rec["order"] == rec["m"] else "truncated") + ":" + kind


def run_increments(chk, rng):
    runs = [dict(module="C15Increments", cfg=mi_cfg(1, "R5", "Mf2", "R2", "AnyUsers", "UR2"), name="c15/mi_all_1"),
            dict(module="C15Increments", cfg=mi_cfg(2, "R3", "Mf2", "R2", "AnyUsers", "UR2"), name="c15/mi_all_2", workers=2),
            dict(module="C15Increments", cfg=mi_cfg(3, "R3", "Mf2", "R1", "NoUsers", "UR2"), name="c15/mi_all_3", workers=4)]
    names = ["all_m1", "all_m2", "all_m3"]
    jobs = mi_jobs(chk, rng)
    for m in (3, 4):
        p = tlc.write_json("c15/mi_jobs", "jobs_m%d.json" % m, jobs[m])
        runs.append(dict(module="C15Increments", cfg=mi_cfg(m, init="InitJobs"), name="c15/mi_jobs_%d" % m, workers=2,
                         env={"VERIF_JOBS": p}))
        names.append("sampled_m%d" % m)
    if not chk.quick:
        runs.append(dict(module="C15Increments", cfg=mi_cfg(2, "R5", "Mf2", "R2", "AnyUsers", "UR2"), name="c15/mi_all_2w", workers=4))
        names.append("all_m2_wide")
        runs.append(dict(module="C15Increments", cfg=mi_cfg(3, "R5", "R2", "R1", "NoUsers", "UR2"), name="c15/mi_all_3w", workers=6, heap="8g"))
        names.append("all_m3_wide")
    res = tlc.run_many(runs, max_parallel=min(MAXPAR, 6))
    n_bad = 0
    for nm, r in zip(names, res):
        if not r.ok:
            raise tlc.TLCError("C15Increments: spec-level identity violated (%s): %s\n%s" % (nm, r.violated, r.out[-1500:]))
        chk.add_tlc(r, "S_increments_" + nm)
        recs = sorted(r.prints("MI"), key=lambda q: json.dumps(q, sort_keys=True))     # worker interleaving must not matter
        if not recs:
            raise tlc.TLCError("C15Increments %s exported no transitions" % nm)
        for x, rec in enumerate(recs):
            for scale in ((1.0, 0.125) if x % 7 == 0 else (1.0,)):
                chk.add_traces(1, "G_increments")
                try:
                    val = mi_call(rec, scale, random.Random(chk.seed + x) if x % 3 == 0 else None, empty_user_dict=(x % 5 == 0))
                except Exception as e:
                    n_bad += 1
                    chk.violation(mi_key(rec) + ":exception", "%s: %s" % (type(e).__name__, e), {"kind": "mi", "rec": rec, "scale": scale})
                    continue
                want = rec["total"] * scale
                if not (isinstance(val, (int, float)) and val == want):
                    n_bad += 1
                    chk.violation(mi_key(rec), "mi_summation returned %r, the incremental sum of the spec is %r (order %d of %d centres)"
                                  % (val, want, rec["order"], rec["m"]), {"kind": "mi", "rec": rec, "scale": scale})
        if nm == "sampled_m4":
            chk.sample({"kind": "mi", "rec": recs[-1]})
    chk.part("G_increments", failing=n_bad)
    # negative control of the binding: a corrupted expected value must be noticed by the comparison
    rec = dict(sorted(res[2].prints("MI"), key=lambda q: json.dumps(q, sort_keys=True))[-1])
    rec["total"] += 1
    if mi_call(rec) == rec["total"]:
        raise tlc.TLCError("binding failure: corrupted increment record accepted")
    chk.part("negative_controls_increments", corrupted=1, rejected=1)


def replay_mi(case):
    rec, scale = case["rec"], case.get("scale", 1.0)
    try:
        val = mi_call(rec, scale)
    except Exception as e:
        print("mi_summation raised %s: %s" % (type(e).__name__, e))
        return False
    print("mi_summation -> %r ; spec value %r (m=%d, order=%d)" % (val, rec["total"] * scale, rec["m"], rec["order"]))
    return val == rec["total"] * scale


# =====================================================================================================
# ONIOM
# =====================================================================================================
ONIOM_INVS = ["TelescopeLow", "WholeModel", "CoefSum", "AtomBalance", "SystemFirst", "OptionsMatter"]


def oniom_cfg(na, meth, maxmodels, links, coords="NoCoords", init="InitFormal", nxt="NextFormal", invs=ONIOM_INVS, opts="Opt1"):
    return ("CONSTANTS NA = %d\nMethods <- %s\nOptions <- %s\nMaxModels = %d\nWithLinks = %s\nCoords <- %s\nFactors <- FactorsAll\nINIT %s\nNEXT %s\n"
            % (na, meth, opts, maxmodels, "TRUE" if links else "FALSE", coords, init, nxt) + "".join("INVARIANT %s\n" % i for i in invs))


def limbs(e):
    """float (Hartree) -> [hi, lo] with e = hi*1e-4 + lo*1e-10, 0 <= lo < 1e6 (conversion only)."""
    n = int(round(float(e) * 1e10))
    hi, lo = divmod(n, 10 ** 6)
    return [hi, lo]


def fix6(x):
    return int(round(float(x) * 1e6))


def geom_json(geom):
    return [[str(a[0]), fix6(a[1][0]), fix6(a[1][1]), fix6(a[1][2])] for a in geom]


def sel_arg(sel):
    return None if sel["kind"] == "none" else (sel["n"] if sel["kind"] == "count" else list(sel["l"]))


# ---- G: selection arguments on the real distribute_atoms (fragments that skip the expensive build) ----
def oniom_selection_g(chk, recs):
    from tangelo.problem_decomposition.oniom.oniom_problem_decomposition import ONIOMProblemDecomposition
    from tangelo.problem_decomposition.oniom._helpers.helper_classes import Fragment

    class UnbuiltFragment(Fragment):
        """The real Fragment (constructor, attributes); only the SCF build is skipped."""
        def build(self, integral_solver=None):
            pass

    n_bad = 0
    for rec in recs:
        na = rec["na"]
        geometry = [("H", (0.25 * i, 0.5 * (i % 2), 1.0 * i)) for i in range(na)]
        arg = sel_arg(rec["sel"])
        g_in = list(geometry)
        case = {"kind": "sel", "rec": rec}
        try:
            frag = UnbuiltFragment(solver_low="HF", solver_high=(None if arg is None else "CCSD"), selected_atoms=arg)
            other = UnbuiltFragment(solver_low="HF")
            on = ONIOMProblemDecomposition({"geometry": geometry, "fragments": [other, frag]})
            got = [geometry.index(a) for a in on.fragments[1].geometry]
        except Exception as e:
            n_bad += 1
            chk.violation("oniom:distribute_atoms:%s:exception" % rec["sel"]["kind"], "%s: %s" % (type(e).__name__, e), case)
            continue
        chk.add_traces(1, "G_oniom_selection")
        if got != rec["atoms"] or geometry != g_in or on.fragments[0].geometry != g_in:
            n_bad += 1
            chk.violation("oniom:distribute_atoms:%s" % rec["sel"]["kind"],
                          "selected_atoms=%r on %d atoms gives atoms %r, the selection denotes %r" % (arg, na, got, rec["atoms"]), case)
    return n_bad


# ---- G+V: selection form x broken links through distribute_atoms; recorded fragment geometries judged by TLC ---------
def fraggeom_record(rec):
    """Run one case (selection argument, 0-2 links) through the real ONIOMProblemDecomposition/distribute_atoms with fragments
    whose SCF build is skipped -> trace record for C15Trace (kind "fraggeom")."""
    from tangelo.problem_decomposition.oniom.oniom_problem_decomposition import ONIOMProblemDecomposition
    from tangelo.problem_decomposition.oniom._helpers.helper_classes import Fragment, Link

    class UnbuiltFragment(Fragment):
        def build(self, integral_solver=None):
            pass

    na = rec["na"]
    species = ["C", "N", "O", "F"]
    geometry = [(species[i], (0.125 * (3 * i * i - 2), 0.5 * (i % 2) - 0.25 * i, 1.0 * i + 0.375 * (i // 2))) for i in range(na)]
    arg = sel_arg(rec["sel"])
    links = [Link(l["s"], l["l"], l["f"] / 8.0, "H") for l in rec["links"]]
    geo = list(geometry)
    frag = UnbuiltFragment(solver_low="HF", solver_high=(None if arg is None else "CCSD"), selected_atoms=copy.deepcopy(arg),
                           broken_links=(links or None))
    other = UnbuiltFragment(solver_low="HF")
    on = ONIOMProblemDecomposition({"geometry": geo, "fragments": [frag, other]})
    return {"kind": "fraggeom", "geometry": geom_json(geometry), "geometry_after": geom_json(geo),
            "frags": [{"sel": rec["sel"], "geom": geom_json(on.fragments[0].geometry),
                       "links": [{"s": l["s"], "l": l["l"], "f8": l["f"], "sp": "H", "gsize": 1} for l in rec["links"]]},
                      {"sel": {"kind": "none", "n": 0, "l": []}, "links": [], "geom": geom_json(on.fragments[1].geometry)}]}


def fraggeom_key(rec, v):
    form = rec["sel"]["kind"] + ("-with-links" if rec["links"] else "")
    return "oniom:distribute_atoms:%s:%s" % (form, v)


def oniom_fraggeom(chk, recs):
    jobs = []
    for rec in recs:
        case = {"kind": "fraggeom", "rec": rec}
        try:
            j = fraggeom_record(rec)
        except Exception as e:
            chk.violation(fraggeom_key(rec, "exception"), "%s: %s (selected_atoms=%r, links=%r)" % (type(e).__name__, e, sel_arg(rec["sel"]), rec["links"]), case)
            continue
        j.update(id=len(jobs) + 1, case=case)
        jobs.append(j)
    ctl = []
    for j in [x for x in jobs if x["case"]["rec"]["links"] and x["case"]["rec"]["sel"]["kind"] != "none"][:4]:
        c = copy.deepcopy(j); c["frags"][0]["geom"] = c["frags"][0]["geom"][:-1]; c["ctl"] = "cap-missing"; ctl.append(c)
        c = copy.deepcopy(j); c["frags"][0]["links"][0]["f8"] += 1; c["ctl"] = "cap-factor"; ctl.append(c)
        c = copy.deepcopy(j); c["geometry_after"] = c["geometry_after"] + c["frags"][0]["geom"][-1:]; c["ctl"] = "input-geometry-grown"; ctl.append(c)
    for x, c in enumerate(ctl):
        c["base"], c["id"] = c["id"], 10 ** 6 + x
    verdicts, results = tlc.judge("C15Trace", [{k: v for k, v in j.items() if k not in ("case", "ctl", "base")} for j in jobs + ctl],
                                  "c15/on_frg", {}, max_parallel=min(MAXPAR, 4))
    for r in results:
        chk.add_tlc(r)
    n_bad = 0
    for j in jobs:
        chk.add_traces(1, "V_oniom_fragment_geometries")
        v = verdicts[j["id"]]
        if v.startswith("malformed"):
            raise tlc.TLCError("malformed fragment-geometry record (%s): %s" % (v, j["case"]))
        if v != "ok":
            n_bad += 1
            rec = j["case"]["rec"]
            chk.violation(fraggeom_key(rec, v), "selected_atoms=%r with links %r on %d atoms: %s" % (sel_arg(rec["sel"]), rec["links"], rec["na"], v), j["case"])
    control_outcome(chk, "negative_controls_oniom_fragment_geometries", ctl, lambda c: verdicts[c["base"]] == "ok", lambda c: verdicts[c["id"]] == "ok")
    import collections
    chk.part("V_oniom_fragment_geometries", failing=n_bad,
             by_form={"%s/%d links" % k: n for k, n in sorted(collections.Counter((j["case"]["rec"]["sel"]["kind"], len(j["case"]["rec"]["links"])) for j in jobs).items())})


def replay_fraggeom(case):
    try:
        j = dict(fraggeom_record(case["rec"]), id=1)
    except Exception as e:
        print("raised %s: %s" % (type(e).__name__, e))
        return False
    verdicts, _ = tlc.judge("C15Trace", [j], "c15/replay", {})
    print("selected_atoms=%r links=%r -> fragment geometry %s ; other fragment %d atoms; caller's geometry %d atoms; TLC verdict: %s"
          % (sel_arg(case["rec"]["sel"]), case["rec"]["links"], j["frags"][0]["geom"], len(j["frags"][1]["geom"]), len(j["geometry_after"]), verdicts[1]))
    return verdicts[1] == "ok"


def replay_sel(case):
    c2 = check.Check("C15", ["quick"])
    c2.known = []
    oniom_selection_g(c2, [case["rec"]])
    for v in c2.violations:
        print(v[0], v[1])
    return not c2.violations


# ---- G: Link.relink in exact arithmetic ----------------------------------------------------------------
def relink_call(rec, species="H"):
    from tangelo.problem_decomposition.oniom._helpers.helper_classes import Link
    s = tuple(x / 8.0 for x in rec["s"])
    l = tuple(x / 8.0 for x in rec["l"])
    geometry = [("C", (9.0, 9.0, 9.0)), ("C", s), ("N", l)]
    g_in = [tuple(a) for a in geometry]
    out = Link(1, 2, rec["f"] / 8.0, species).relink(geometry)
    if [tuple(a) for a in geometry] != g_in:
        raise AssertionError("relink modified the geometry")
    return out


def group_scalars(rec, sp, out):
    """Recorded scalars of a placed capping group (conversion of the code's output to fixed point; TLC compares)."""
    import numpy as np
    from tangelo.problem_decomposition.oniom._helpers.capping_groups import chemical_groups
    tmpl = chemical_groups[sp]
    ghost = np.array(tmpl[0][1], dtype=float)
    t = np.array([a[1] for a in tmpl[1:]], dtype=float)
    n = np.array([a[1] for a in out], dtype=float)
    bond = (np.array(rec["l"], dtype=float) - np.array(rec["s"], dtype=float)) / 8.0

    def d2(x):
        return [int(round(float(np.sum((x[a] - x[b]) ** 2)) * 1e8)) for a in range(len(x)) for b in range(a + 1, len(x))]

    def cos(x, axis):
        v = x[1:].mean(axis=0) - x[0]
        return int(round(float(np.dot(v, axis) / (np.linalg.norm(v) * np.linalg.norm(axis))) * 1e8))
    return {"kind": "group", "d2t": d2(t), "d2n": d2(n), "cost": cos(t, t[0] - ghost), "cosn": cos(n, bond), "tol": 200}


def oniom_relink_g(chk, recs, rng, group_jobs=None):
    n_bad = 0
    for x, rec in enumerate(recs):
        case = {"kind": "relink", "rec": rec, "species": "H"}
        chk.add_traces(1, "G_oniom_relink")
        try:
            out = relink_call(rec)
            ok = (len(out) == 1 and out[0][0] == "H" and [float(c) * 64.0 for c in out[0][1]] == [float(c) for c in rec["cap"]])
        except Exception as e:
            ok, out = False, "%s: %s" % (type(e).__name__, e)
        if not ok:
            n_bad += 1
            chk.violation("oniom:relink:atom", "Link(staying=%s/8, leaving=%s/8, factor=%d/8).relink -> %r; staying + factor*(leaving-staying) = %s/64"
                          % (rec["s"], rec["l"], rec["f"], out, rec["cap"]), case)
        # chemical groups: only the anchor atom is asserted (the orientation of the rest is real-valued)
        if x % 23 == 0 and rec["s"] != rec["l"]:
            for sp, size, anchor in (("CH3", 4, "C"), ("NH2", 3, "N"), ("CF3", 4, "C")):
                case = {"kind": "relink", "rec": rec, "species": sp}
                chk.add_traces(1, "G_oniom_relink_groups")
                try:
                    out = relink_call(rec, sp)
                    ok = (len(out) == size and out[0][0] == anchor
                          and all(abs(float(c) * 64.0 - r) <= 1e-6 for c, r in zip(out[0][1], rec["cap"])))
                    if ok and group_jobs is not None:
                        gj = group_scalars(rec, sp, out)
                        gj.update(id=len(group_jobs) + 1, case=case)
                        group_jobs.append(gj)
                except Exception as e:
                    ok, out = False, "%s: %s" % (type(e).__name__, e)
                if not ok:
                    n_bad += 1
                    chk.violation("oniom:relink:group", "Link(..., species=%s).relink -> %r; anchor expected at %s/64" % (sp, out, rec["cap"]), case)
    return n_bad


def replay_relink(case):
    rec = case["rec"]
    try:
        out = relink_call(rec, case["species"])
    except Exception as e:
        print("relink raised %s: %s" % (type(e).__name__, e))
        return False
    print("relink -> %r ; spec cap %s/64" % (out, rec["cap"]))
    return all(abs(float(c) * 64.0 - r) <= (0 if case["species"] == "H" else 1e-6) for c, r in zip(out[0][1], rec["cap"]))


# ---- V: real runs ----------------------------------------------------------------------------------------
H4 = [("H", (0., 0., 0.)), ("H", (0., 0., 0.75)), ("H", (0., 0., 1.75)), ("H", (0., 0., 2.5))]
H4B = [("H", (0., 0., 0.)), ("H", (0.75, 0., 0.)), ("H", (0.125, 1.625, 0.)), ("H", (0.875, 1.75, 0.25))]
H2O_H2 = [("O", (0., 0., 0.)), ("H", (0.75, 0.625, 0.)), ("H", (-0.75, 0.625, 0.)), ("H", (0., -2.5, 0.)), ("H", (0., -3.25, 0.))]
BEH2 = [("Be", (0., 0., 0.)), ("H", (0., 0., 1.375)), ("H", (0., 0., -1.375))]
LIH_H2 = [("Li", (0., 0., 0.)), ("H", (0., 0., 1.625)), ("H", (0., 2.5, 0.)), ("H", (0., 2.5, 0.75))]


def F(sel=None, low="HF", high=None, links=(), charge=0, spin=0, olow=None, ohigh=None):
    """Fragment description; olow / ohigh: solver options (basis, frozen_orbitals); None = the Fragment defaults."""
    return {"sel": sel, "low": low, "high": high, "links": [list(l) for l in links], "charge": charge, "spin": spin,
            "olow": olow, "ohigh": ohigh}


def level_opts(opts):
    """(basis, frozen_orbitals) a Fragment has to use for one level: what the documentation of the options says."""
    opts = opts if opts is not None else {"basis": "sto-3g"}
    return opts["basis"], opts.get("frozen_orbitals", None)


def oniom_runs(chk):
    runs = [
        dict(name="H4 low=high HF", geometry=H4, frags=[F(), F([0, 1], "HF", "HF")], expect="low"),
        dict(name="H4 two models low=high CCSD", geometry=H4B, frags=[F(low="CCSD"), F(2, "CCSD", "CCSD"), F([3, 2], "CCSD", "CCSD")], expect="low"),
        dict(name="H4 model=whole (count) FCI", geometry=H4, frags=[F(), F(4, "HF", "FCI")], expect="high"),
        dict(name="H4 model=whole (permuted list) CCSD", geometry=H4B, frags=[F(), F([2, 0, 3, 1], "HF", "CCSD")], expect="high"),
        dict(name="H2O-H2 generic", geometry=H2O_H2, frags=[F(), F([0, 1, 2], "HF", "CCSD")], expect="none", as_string=True),
        dict(name="BeH2 link FCI", geometry=BEH2, frags=[F(), F([0, 1], "HF", "FCI", links=[(0, 2, 6, "H")])], expect="none"),
        dict(name="BeH2 link low=high", geometry=BEH2, frags=[F(low="CCSD"), F([1, 0], "CCSD", "CCSD", links=[(0, 2, 5, "H")])], expect="low"),
        dict(name="H4 three layers", geometry=H4, frags=[F(), F([0, 1], "HF", "CCSD"), F([3, 2], "HF", "FCI")], expect="none"),
    ]
    FC = {"basis": "sto-3g", "frozen_orbitals": [0]}          # frozen core of Li / Be
    NF = {"basis": "sto-3g"}
    B321 = {"basis": "3-21g"}
    LIH = [("Li", (0., 0., 0.)), ("H", (0., 0., 1.625))]
    runs += [
        # the options of a level belong to the token: E(method, options, geometry)
        dict(name="LiH model=whole, HF : CCSD(frozen core)", geometry=LIH, options=True, expect="high",
             frags=[F(), F(2, "HF", "CCSD", olow=NF, ohigh=FC)]),
        dict(name="LiH model=whole, CCSD(frozen core) : CCSD (options differ, same method: no telescoping)", geometry=LIH, options=True, expect="none",
             frags=[F(), F([1, 0], "CCSD", "CCSD", olow=FC, ohigh=NF)]),
        dict(name="LiH-H2 high=low CCSD(frozen core) both", geometry=LIH_H2, options=True, expect="low",
             frags=[F(), F([0, 1], "CCSD", "CCSD", olow=FC, ohigh=copy.deepcopy(FC))]),
        dict(name="H4 model=whole, HF/sto-3g : FCI/3-21g", geometry=H4, options=True, expect="high",
             frags=[F(), F(4, "HF", "FCI", olow=NF, ohigh=B321)]),
        dict(name="H4 model HF/3-21g : CCSD/sto-3g, system HF/3-21g", geometry=H4B, options=True, expect="none",
             frags=[F(low="HF", olow=B321), F([0, 1], "HF", "CCSD", olow=B321, ohigh=NF)]),
    ]
    runs += [
        # one real run per selection form WITH broken links (list form: the BeH2 runs above)
        dict(name="BeH2 model by COUNT with a link", geometry=BEH2, frags=[F(), F(2, "HF", "FCI", links=[(0, 2, 6, "H")])], expect="none"),
        dict(name="H4 whole-system fragment (selected_atoms=None) with a link, two levels", geometry=H4B, tag="none-with-links",
             frags=[F(), F(None, "HF", "CCSD", links=[(1, 2, 4, "H")], charge=1)], expect="none"),
    ]
    B631 = {"basis": "6-31g"}
    runs += [
        # ONE dict object handed to several levels / fragments / successive ONIOM objects (the caller's `options_both`)
        dict(name="H4 model=whole, HF : FCI, ONE 6-31g dict object for every level, two successive ONIOM objects", geometry=H4, options=True,
             expect="high", shared={"both": B631}, successive=True,
             frags=[F(low="HF", olow="@both"), F(4, "HF", "FCI", olow="@both", ohigh="@both")]),
        dict(name="LiH-H2 high=low CCSD, ONE frozen-core dict object for low and high of the model", geometry=LIH_H2, options=True,
             expect="low", shared={"fc": FC}, frags=[F(), F([0, 1], "CCSD", "CCSD", olow="@fc", ohigh="@fc")]),
        dict(name="LiH two fragments sharing ONE frozen-core dict object (system CCSD, model=whole CCSD : FCI)", geometry=LIH, options=True,
             expect="high", shared={"fc": FC}, frags=[F(low="CCSD", olow="@fc"), F([1, 0], "CCSD", "FCI", olow="@fc", ohigh="@fc")]),
    ]
    if not chk.quick:
        runs += [
            dict(name="H4 3-21g dict shared by three fragments, successive objects", geometry=H4B, options=True, expect="none",
                 shared={"b": B321}, successive=True,
                 frags=[F(low="HF", olow="@b"), F([0, 1], "HF", "CCSD", olow="@b", ohigh="@b"), F([3, 2], "HF", "FCI", olow="@b", ohigh="@b")]),
            dict(name="BeH2 link, shared frozen-core dict, successive objects", geometry=BEH2, options=True, expect="none",
                 shared={"fc": FC}, successive=True,
                 frags=[F(low="HF", olow="@fc"), F([0, 1], "HF", "FCI", links=[(0, 2, 6, "H")], olow="@fc", ohigh="@fc")]),
        ]
    if not chk.quick:
        runs += [
            dict(name="BeH2 link, FCI(frozen core) : FCI", geometry=BEH2, options=True, expect="none",
                 frags=[F(), F([0, 1], "FCI", "FCI", links=[(0, 2, 6, "H")], olow=FC, ohigh=NF)]),
            dict(name="LiH-H2 model=whole permuted, HF : FCI(frozen [0, 5])", geometry=LIH_H2, options=True, expect="high",
                 frags=[F(), F([2, 3, 1, 0], "HF", "FCI", olow=NF, ohigh={"basis": "sto-3g", "frozen_orbitals": [0, 5]})]),
            dict(name="H4 high=low FCI/3-21g both, system HF/3-21g", geometry=H4, options=True, expect="low",
                 frags=[F(low="HF", olow=B321), F([2, 3], "FCI", "FCI", olow=B321, ohigh=copy.deepcopy(B321))]),
            dict(name="LiH system CCSD(frozen core), model=whole CCSD(frozen core) : FCI(frozen core)", geometry=LIH, options=True, expect="high",
                 frags=[F(low="CCSD", olow=FC), F([0, 1], "CCSD", "FCI", olow=copy.deepcopy(FC), ohigh=copy.deepcopy(FC))]),
        ]
    if not chk.quick:
        runs += [
            dict(name="LiH-H2 model=whole list in order", geometry=LIH_H2, frags=[F(low="CCSD"), F([0, 1, 2, 3], "CCSD", "FCI")], expect="high"),
            dict(name="LiH-H2 generic count", geometry=LIH_H2, frags=[F(), F(2, "HF", "FCI"), F([2, 3], "HF", "CCSD")], expect="none"),
            dict(name="H2O-H2 low=high FCI on H2", geometry=H2O_H2, frags=[F(), F([4, 3], "FCI", "FCI")], expect="low"),
            dict(name="H2O-H2 model=whole permuted", geometry=H2O_H2, frags=[F(), F([4, 2, 0, 1, 3], "HF", "CCSD")], expect="high"),
            dict(name="H4 system last", geometry=H4B, frags=[F([1, 0], "HF", "FCI"), F()], expect="none"),
            dict(name="BeH2 two links", geometry=BEH2, frags=[F(), F([0], "HF", "CCSD", links=[(0, 1, 8, "H"), (0, 2, 7, "H")])], expect="none"),
            dict(name="H4 cation model", geometry=H4, frags=[F(), F([0, 1, 2], "HF", "FCI", charge=1)], expect="none"),
            dict(name="H4 low=high FCI string geometry", geometry=H4B, frags=[F(low="FCI"), F(3, "FCI", "FCI", charge=1)], expect="low", as_string=True),
        ]
    return runs


def level_token(name, opts, charge, spin):
    """Level of a fragment as a token [m, o]: method and OPTIONS - the uninterpreted energy is E(method, options, geometry)."""
    if not name:
        return {"m": "none", "o": ""}
    basis, frozen = level_opts(opts)
    return {"m": name, "o": "basis=%s;frozen=%s;q=%d;s=%d" % (basis, json.dumps(frozen), charge, spin)}


_REF_CACHE = {}


def reference_energy(name, geom, charge, spin, opts=None):
    """E(method, options, geometry) by a direct, ONIOM-independent call of the solver classes with the SAME options
    (the uninterpreted function sampled where the trace needs it)."""
    from tangelo import SecondQuantizedMolecule
    from tangelo.algorithms import CCSDSolver, FCISolver
    basis, frozen = level_opts(opts)
    key = (name, tuple((a[0], tuple(a[1])) for a in geom), charge, spin, basis, json.dumps(frozen), check.REPO)
    if key not in _REF_CACHE:
        mol = SecondQuantizedMolecule([(a[0], tuple(a[1])) for a in geom], q=charge, spin=spin, basis=basis,
                                      frozen_orbitals=copy.deepcopy(frozen))
        if name == "HF":
            _REF_CACHE[key] = mol.mf_energy
        elif name == "CCSD":
            _REF_CACHE[key] = CCSDSolver(mol).simulate()
        elif name == "FCI":
            _REF_CACHE[key] = FCISolver(mol).simulate()
        else:
            raise ValueError(name)
    return _REF_CACHE[key]


def written_opts(run, o):
    """The options the caller WROTE for a level: a dict, None, or "@name" = the shared dict object run["shared"][name]."""
    if isinstance(o, str) and o.startswith("@"):
        return run["shared"][o[1:]]
    return o


def oniom_run(run):
    """Execute one real ONIOM run -> (trace records for C15Trace, total).  Option dictionaries: every level gets the dict
    object the run describes - "@name" levels all receive ONE shared object (as callers do with `options_both`); with
    run["successive"] a second ONIOMProblemDecomposition is built afterwards from fresh Fragments and the SAME dict objects
    (second record).  Tokens and references always use the options as written by the caller."""
    from tangelo.problem_decomposition.oniom.oniom_problem_decomposition import ONIOMProblemDecomposition
    from tangelo.problem_decomposition.oniom._helpers.helper_classes import Fragment, Link
    geometry = [(a[0], tuple(a[1])) for a in run["geometry"]]
    live = {k: copy.deepcopy(v) for k, v in run.get("shared", {}).items()}        # the caller's dict objects
    passed = []                                                                  # (label, object handed over, contents as written)

    def obj(o, label):
        if o is None:
            return None
        if isinstance(o, str) and o.startswith("@"):
            d = live[o[1:]]
            if not any(p[1] is d for p in passed):
                passed.append(("shared " + o[1:], d, copy.deepcopy(run["shared"][o[1:]])))
            return d
        d = copy.deepcopy(o)
        passed.append((label, d, copy.deepcopy(o)))
        return d

    def frame():
        return [json.dumps(d, sort_keys=True) for _, d, _ in passed]

    recs, total, objs = [], None, {}
    for rnd in range(2 if run.get("successive") else 1):
        frs = []
        for x, f in enumerate(run["frags"]):
            links = [Link(s, l, f8 / 8.0, sp) for s, l, f8, sp in f["links"]] or None
            if rnd == 0:
                objs[x] = (obj(f.get("olow"), "fragment %d low" % x), obj(f.get("ohigh"), "fragment %d high" % x))
            ol, oh = objs[x]
            frs.append(Fragment(solver_low=f["low"], solver_high=f["high"], selected_atoms=copy.deepcopy(f["sel"]),
                                options_low=ol, options_high=oh, charge=f["charge"], spin=f["spin"], broken_links=links))
        geo_arg = "\n".join("%s %r %r %r" % (a[0], a[1][0], a[1][1], a[1][2]) for a in geometry) if run.get("as_string") else list(geometry)
        on = ONIOMProblemDecomposition({"geometry": geo_arg, "fragments": frs})
        after_build = frame()
        total = on.simulate()
        total2 = on.simulate()
        after_sim = frame()
        rec = {"kind": "oniom", "geometry": geom_json(geometry), "frags": [], "refs": [], "total": limbs(total), "total2": limbs(total2),
               "expect": run["expect"], "round": rnd,
               "optframe": [{"name": p[0], "written": json.dumps(p[2], sort_keys=True), "built": ab, "simulated": asim}
                            for p, ab, asim in zip(passed, after_build, after_sim)]}
        for f, fr in zip(run["frags"], on.fragments):
            sel = f["sel"]
            selj = ({"kind": "none", "n": 0, "l": []} if sel is None else
                    {"kind": "count", "n": sel, "l": []} if isinstance(sel, int) else {"kind": "list", "n": 0, "l": list(sel)})
            fgeom = [(a[0], tuple(a[1])) for a in fr.geometry]
            wl, wh = written_opts(run, f.get("olow")), written_opts(run, f.get("ohigh"))
            rec["frags"].append({"sel": selj, "links": [{"s": s, "l": l, "f8": f8, "sp": sp, "gsize": 1} for s, l, f8, sp in f["links"]],
                                 "low": level_token(f["low"], wl, f["charge"], f["spin"]),
                                 "high": level_token(f["high"], wh, f["charge"], f["spin"]),
                                 "geom": geom_json(fgeom)})
            for name, opts in ((f["low"], wl), (f["high"], wh)):
                if name:
                    rec["refs"].append(dict(level_token(name, opts, f["charge"], f["spin"]), geom=geom_json(fgeom),
                                            e=limbs(reference_energy(name, fgeom, f["charge"], f["spin"], opts))))
        whole_refs(run, rec, geometry)
        recs.append(rec)
    return recs, total


def whole_refs(run, rec, geometry):
    # E(level, whole system in the input order) for every neutral singlet level that appears
    seen = set()
    for f in run["frags"]:
        for name, o in ((f["low"], f.get("olow")), (f["high"], f.get("ohigh"))):
            opts = written_opts(run, o)
            if name and f["charge"] == 0 and f["spin"] == 0:
                tok = level_token(name, opts, 0, 0)
                if (name, tok["o"]) not in seen:
                    seen.add((name, tok["o"]))
                    rec["refs"].append(dict(tok, geom=geom_json(geometry), e=limbs(reference_energy(name, geometry, 0, 0, opts))))


def oniom_negative_controls(jobs):
    ctl = []
    for j in jobs[:3] + [x for x in jobs if any(f["links"] for f in x["frags"])][:1]:
        c = copy.deepcopy(j); c["total"][1] = (c["total"][1] + 5000) % 10 ** 6; c["ctl"] = "total+5e-7"; ctl.append(c)
        c = copy.deepcopy(j); f = c["frags"][-1]; f["geom"] = f["geom"][1:]; c["ctl"] = "fragment-atom-dropped"; ctl.append(c)
        c = copy.deepcopy(j); c["refs"][0]["e"][1] = (c["refs"][0]["e"][1] + 777) % 10 ** 6; c["ctl"] = "reference-energy-shifted"; ctl.append(c)
        if any(f["links"] for f in j["frags"]):
            c = copy.deepcopy(j); [f for f in c["frags"] if f["links"]][0]["links"][0]["f8"] += 1; c["ctl"] = "link-factor"; ctl.append(c)
            c = copy.deepcopy(j); li = [f for f in c["frags"] if f["links"]][0]["links"][0]; li["s"], li["l"] = li["l"], li["s"]
            c["ctl"] = "link-direction"; ctl.append(c)
        if j["expect"] == "low":
            c = copy.deepcopy(j); c["frags"][-1]["high"]["o"] += ";other"; c["ctl"] = "premise-broken"; ctl.append(c)
    for j in [x for x in jobs if x["optframe"]][:2]:
        c = copy.deepcopy(j); c["optframe"][0]["built"] = "{}"; c["ctl"] = "option-dict-consumed"; ctl.append(c)
    return ctl


def run_oniom(chk, rng):
    quick = chk.quick
    # ---- S (formal telescoping) and G exports -------------------------------------------------------------
    runs = [dict(module="C15Oniom", cfg=oniom_cfg(3, "Meth2", 1, True, opts="Opt2"), name="c15/on_formal_a", workers=3),
            dict(module="C15Oniom", cfg=oniom_cfg(2, "Meth2", 2, True), name="c15/on_formal_b", workers=2),
            dict(module="C15Oniom", cfg=oniom_cfg(4, "Meth2", 1, False, init="InitSel", nxt="NextSel", invs=[]), name="c15/on_sel4"),
            dict(module="C15Oniom", cfg=oniom_cfg(3, "Meth2", 1, False, init="InitSel", nxt="NextSel", invs=[]), name="c15/on_sel3"),
            dict(module="C15Oniom", cfg=oniom_cfg(2, "Meth2", 1, False, coords=("CoordsSmall" if quick else "CoordsWide"),
                                                  init="InitLink", nxt="NextLink", invs=["CapOnBond"]), name="c15/on_link", workers=2)]
    for na, fac in ((3, "FactorsTwo"), (4, "FactorsOne")):
        runs.append(dict(module="C15Oniom", name="c15/on_frg%d" % na,
                         cfg=oniom_cfg(na, "Meth2", 1, False, init="InitFrag", nxt="NextFrag", invs=["FragCaseOK"]).replace("Factors <- FactorsAll", "Factors <- " + fac)))
    names = ["formal_na3_m1_links_2options", "formal_na2_m2_links", "sel4", "sel3", "link", "frg3", "frg4"]
    if not quick:
        runs.append(dict(module="C15Oniom", cfg=oniom_cfg(3, "Meth2", 2, False), name="c15/on_formal_c", workers=4))
        names.append("formal_na3_m2")
        runs.append(dict(module="C15Oniom", cfg=oniom_cfg(3, "Meth3", 1, True), name="c15/on_formal_d", workers=2))
        names.append("formal_na3_m1_links_3methods")
        runs.append(dict(module="C15Oniom", cfg=oniom_cfg(2, "Meth2", 2, False, opts="Opt2"), name="c15/on_formal_e", workers=4))
        names.append("formal_na2_m2_2options")
    res = dict(zip(names, tlc.run_many(runs, max_parallel=min(MAXPAR, 6))))
    for nm, r in res.items():
        if not r.ok:
            raise tlc.TLCError("C15Oniom (%s): %s\n%s" % (nm, r.violated, r.out[-1500:]))
        chk.add_tlc(r, "S_oniom_" + nm)
    sel_recs = sorted(res["sel4"].prints("SEL") + res["sel3"].prints("SEL"), key=lambda q: json.dumps(q, sort_keys=True))
    lnk_recs = sorted(res["link"].prints("LNK"), key=lambda q: json.dumps(q, sort_keys=True))
    if len(sel_recs) < 50 or len(lnk_recs) < 1000:
        raise tlc.TLCError("C15Oniom exported too few cases")
    nb = oniom_selection_g(chk, sel_recs)
    frg = sorted(res["frg3"].prints("FRG"), key=lambda q: json.dumps(q, sort_keys=True))
    frg4 = sorted(res["frg4"].prints("FRG"), key=lambda q: json.dumps(q, sort_keys=True))
    if quick:        # 4 atoms: every whole-system / count case, a seeded sample of the index lists
        frg4 = [q for q in frg4 if q["sel"]["kind"] != "list" or len(q["links"]) == 0] + rng.sample([q for q in frg4 if q["sel"]["kind"] == "list" and q["links"]], 120)
    if len(frg) < 150 or len(frg4) < 150:
        raise tlc.TLCError("C15Oniom exported too few fragment-geometry cases")
    oniom_fraggeom(chk, frg + frg4)
    group_jobs = []
    nb2 = oniom_relink_g(chk, lnk_recs, rng, group_jobs)
    chk.part("G_oniom", selection_cases=len(sel_recs), relink_cases=len(lnk_recs), failing=nb + nb2)
    # capping groups: rigid and oriented along the bond (OBSERVATIONAL scalars judged by TLC)
    if group_jobs:
        ctl = []
        for j in group_jobs[:3]:
            c = copy.deepcopy(j); c["cosn"] = -c["cosn"]; c["ctl"] = "orientation-flipped"; ctl.append(c)
            c = copy.deepcopy(j); c["d2n"][0] += 5000; c["ctl"] = "distance"; ctl.append(c)
        for x, c in enumerate(ctl):
            c["base"], c["id"] = c["id"], 10 ** 6 + x
        verdicts, results = tlc.judge("C15Trace", [{k: v for k, v in j.items() if k not in ("case", "ctl", "base")} for j in group_jobs + ctl],
                                      "c15/on_grp", {}, max_parallel=2)
        for r in results:
            chk.add_tlc(r)
        for j in group_jobs:
            chk.add_traces(1, "V_oniom_groups_observational")
            if verdicts[j["id"]] != "ok":
                chk.violation("oniom:relink:group:%s" % verdicts[j["id"]], "Link(species=%s).relink: %s (s=%s/8, l=%s/8, f=%d/8)"
                              % (j["case"]["species"], verdicts[j["id"]], j["case"]["rec"]["s"], j["case"]["rec"]["l"], j["case"]["rec"]["f"]),
                              dict(j["case"], kind="relink_group"))
        control_outcome(chk, "negative_controls_oniom_groups", ctl, lambda c: verdicts[c["base"]] == "ok", lambda c: verdicts[c["id"]] == "ok")
    # ---- V: real runs ------------------------------------------------------------------------------------------
    jobs = []
    for run in oniom_runs(chk):
        try:
            recs, total = oniom_run(run)
        except Exception as e:
            chk.violation("oniom:simulate:%s:exception:%s" % (run.get("tag", "run"), type(e).__name__), "%s: %s (%s)" % (type(e).__name__, e, run["name"]),
                          {"kind": "oniom", "run": run})
            continue
        for rec in recs:
            rec["id"] = len(jobs) + 1
            rec["run"] = run
            jobs.append(rec)
    ctl = oniom_negative_controls(jobs)
    for x, c in enumerate(ctl):
        c["base"], c["id"] = c["id"], 10 ** 6 + x
    send = [{k: v for k, v in j.items() if k not in ("run", "ctl", "base")} for j in jobs + ctl]
    verdicts, results = tlc.judge("C15Trace", send, "c15/on_v", {}, max_parallel=min(MAXPAR, 4))
    for r in results:
        chk.add_tlc(r)
    for j in jobs:
        v = verdicts[j["id"]]
        chk.add_traces(1, "V_oniom_runs")
        if v.startswith("malformed"):
            raise tlc.TLCError("malformed ONIOM record (%s): %s" % (v, j["run"]["name"]))
        if v != "ok":
            chk.violation("oniom:simulate:%s:%s" % (j["run"].get("tag", j["expect"]), v), "%s%s: %s" % (j["run"]["name"], " (second ONIOM object on the same option dicts)" if j.get("round") else "", v),
                          {"kind": "oniom", "run": j["run"]})
    control_outcome(chk, "negative_controls_oniom", ctl, lambda c: verdicts[c["base"]] == "ok", lambda c: verdicts[c["id"]] == "ok")
    if jobs:
        j = jobs[0]
        chk.sample({"kind": "oniom", "name": j["run"]["name"], "total": j["total"], "expect": j["expect"],
                    "frags": [{k: f[k] for k in ("sel", "low", "high")} for f in j["frags"]]})
        jo = [x for x in jobs if x["run"].get("options")]
        if jo:
            chk.sample({"kind": "oniom", "name": jo[0]["run"]["name"], "total": jo[0]["total"], "expect": jo[0]["expect"],
                        "frags": [{k: f[k] for k in ("sel", "low", "high")} for f in jo[0]["frags"]]})
    chk.part("V_oniom_runs", runs=len(jobs), observational_part="energies of equal tokens listed in different atom orders agree to 2e-6 Ha")


def replay_oniom(case):
    try:
        recs, total = oniom_run(case["run"])
    except Exception as e:
        print("ONIOM run raised %s: %s" % (type(e).__name__, e))
        return False
    for x, rec in enumerate(recs):
        rec["id"] = x + 1
    verdicts, _ = tlc.judge("C15Trace", recs, "c15/replay", {})
    print("%s: simulate() = %r ; TLC verdicts: %s" % (case["run"]["name"], total, [verdicts[r["id"]] for r in recs]))
    for r in recs:
        for o in r["optframe"]:
            if not (o["written"] == o["built"] == o["simulated"]):
                print("  option dict '%s': written %s, after build %s, after simulate %s" % (o["name"], o["written"], o["built"], o["simulated"]))
    return all(verdicts[r["id"]] == "ok" for r in recs)


# =====================================================================================================
# DMET
# =====================================================================================================
DMET_GEOMS = {
    2: ([("H", (0., 0., 0.)), ("H", (0., 0., 0.75))], 0),
    3: ([("H", (0., 0., 0.)), ("H", (0., 0., 0.875)), ("H", (0.75, 0., 0.375))], 1),
    4: ([("H", (0., 0., 0.)), ("H", (0., 0., 0.75)), ("H", (0., 0., 1.75)), ("H", (0., 0., 2.5))], 0),
}
_MOLS = {}


def dmet_mol(geom, charge=0, basis="sto-3g"):
    from tangelo import SecondQuantizedMolecule
    key = (tuple((a[0], tuple(a[1])) for a in geom), charge, basis, check.REPO)
    if key not in _MOLS:
        _MOLS[key] = SecondQuantizedMolecule([(a[0], tuple(a[1])) for a in geom], q=charge, spin=0, basis=basis, frozen_orbitals=None)
    return _MOLS[key]


def dmet_cfg(na, maxblocks, invalid):
    return ("CONSTANTS NA = %d\nMaxBlocks = %d\nWithInvalid = %s\nINIT Init\nNEXT Next\nINVARIANT PermutationOK\nINVARIANT FragmentsOK\n"
            "INVARIANT IdentityOK\n" % (na, maxblocks, "TRUE" if invalid else "FALSE"))


def dmet_arg_call(rec):
    """Construct the real DMETProblemDecomposition on rec's argument -> (order of atoms as indices of the input, counts)."""
    import warnings as w
    from tangelo.problem_decomposition import DMETProblemDecomposition
    from tangelo.toolboxes.molecular_computation.integral_solver_pyscf import mol_to_pyscf
    geom, charge = DMET_GEOMS[rec["na"]]
    mol = dmet_mol(geom, charge)
    arg = copy.deepcopy(rec["v"])
    with w.catch_warnings():
        w.simplefilter("ignore")
        dm = DMETProblemDecomposition({"molecule": mol, "fragment_atoms": arg, "fragment_solvers": "fci"})
    if arg != rec["v"]:
        raise AssertionError("fragment_atoms argument modified: %r" % (arg,))
    ref = [tuple(round(float(c), 9) for c in a[1]) for a in mol_to_pyscf(mol, mol.basis)._atom]
    got = [tuple(round(float(c), 9) for c in a[1]) for a in dm.molecule._atom]
    order = [ref.index(a) for a in got]
    return order, [int(c) for c in dm.fragment_atoms], dm.molecule.natm


def dmet_args_g(chk, recs):
    n_bad = 0
    for rec in recs:
        case = {"kind": "dmet_arg", "rec": rec}
        chk.add_traces(1, "G_dmet_fragment_atoms")
        try:
            order, counts, natm = dmet_arg_call(rec)
            raised = None
        except Exception as e:
            raised = "%s: %s" % (type(e).__name__, e)
        if rec["valid"]:
            if raised:
                n_bad += 1
                chk.violation("dmet:fragment_atoms:%s:exception" % rec["kind"], "valid fragmentation %r refused: %s" % (rec["v"], raised), case)
            elif order != rec["order"] or counts != rec["counts"]:
                n_bad += 1
                chk.violation("dmet:fragment_atoms:%s:reordering" % rec["kind"],
                              "fragment_atoms=%r: atoms ordered %r with counts %r; the partition denotes order %r counts %r"
                              % (rec["v"], order, counts, rec["order"], rec["counts"]), case)
        elif not raised:
            n_bad += 1
            chk.violation("dmet:fragment_atoms:%s:%s-accepted" % (rec["kind"], rec["why"]),
                          "fragment_atoms=%r on %d atoms is not a fragmentation (%s) but was accepted silently (calculation on %d atoms, counts %r)"
                          % (rec["v"], rec["na"], rec["why"], natm, counts), case)
    return n_bad


def replay_dmet_arg(case):
    c2 = check.Check("C15", ["quick"])
    c2.known = []
    dmet_args_g(c2, [case["rec"]])
    for v in c2.violations:
        print(v[0], v[1])
    return not c2.violations


# ---- V: traces of real runs (OBSERVATIONAL invariants) ----------------------------------------------------
H4CHAIN = DMET_GEOMS[4][0]
H4RECT = [("H", (0., 0., 0.)), ("H", (0.75, 0., 0.)), ("H", (0.125, 1.625, 0.)), ("H", (0.875, 1.75, 0.25))]   # a skewed ring: no symmetry
H6CHAIN = [("H", (0., 0., 0.875 * i + (0.125 if i % 2 else 0.))) for i in range(6)]


def permuted(geom, perm):
    return [geom[i] for i in perm]


def dmet_runs(chk):
    runs = [
        dict(name="H4 chain [2,2] fci meta-lowdin (fragment+bath = whole space)", geom=H4CHAIN, frag=[2, 2], solver="fci", loc="meta_lowdin", exact=True),
        dict(name="H4 chain [1,1,1,1] fci vs nested relabelling", geom=H4CHAIN, frag=[1, 1, 1, 1], solver="fci", loc="meta_lowdin",
             partner=dict(geom=permuted(H4CHAIN, [2, 0, 3, 1]), frag=[[1], [3], [0], [2]])),
        dict(name="H4 chain [3,1] fci vs reversed geometry nested", geom=H4CHAIN, frag=[3, 1], solver="fci", loc="meta_lowdin",
             partner=dict(geom=permuted(H4CHAIN, [3, 2, 1, 0]), frag=[[3, 1, 2], [0]])),
        dict(name="H4 skewed ring nested [[0,1],[3,2]] fci nao (exact) vs counts on relabelled", geom=H4RECT, frag=[[0, 1], [3, 2]], solver="fci", loc="nao",
             exact=True, partner=dict(geom=permuted(H4RECT, [1, 0, 2, 3]), frag=[2, 2])),
    ]
    runs.append(dict(name="H4 rectangle [2,2] fci nao (symmetric: the electron count is right for every chemical potential)",
                     geom=[("H", (0., 0., 0.)), ("H", (0., 0., 0.75)), ("H", (1.25, 0., 0.75)), ("H", (1.25, 0., 0.))],
                     frag=[2, 2], solver="fci", loc="nao", tag="symmetric-flat-mismatch"))
    if not chk.quick:
        runs += [
            dict(name="H4 chain [2,2] ccsd", geom=H4CHAIN, frag=[2, 2], solver="ccsd", loc="meta_lowdin"),
            dict(name="H6 chain [3,3] fci (exact)", geom=H6CHAIN, frag=[3, 3], solver="fci", loc="meta_lowdin", exact=True),
            dict(name="H6 chain [2,2,2] fci vs nested relabelling", geom=H6CHAIN, frag=[2, 2, 2], solver="fci", loc="meta_lowdin",
                 partner=dict(geom=permuted(H6CHAIN, [4, 5, 0, 1, 3, 2]), frag=[[2, 3], [5, 4], [0, 1]])),
            dict(name="H4 chain 3-21g [2,2] fci iao (exact)", geom=H4CHAIN, frag=[2, 2], solver="fci", loc="iao", basis="3-21g", exact=True),
            dict(name="H4 skewed ring [1,1,1,1] fci nao vs nested", geom=H4RECT, frag=[1, 1, 1, 1], solver="fci", loc="nao",
                 partner=dict(geom=H4RECT, frag=[[3], [2], [1], [0]])),
            dict(name="H4 chain [[0,1],[2,3]] mixed solvers", geom=H4CHAIN, frag=[[0, 1], [2, 3]], solver=["fci", "ccsd"], loc="meta_lowdin"),
        ]
    return runs


VOT = {"default": None, "zero": 0., "1e-3": 1e-3}
MU0 = {"0": 0.0, "2e-3": 2e-3}


def dmet_execute(geom, frag, solver, loc, basis="sto-3g", mu0=0.0, vot="default", optimizer="default", verbose=False):
    """One real DMET run with every evaluation of the cost function recorded
    -> dict(events, recheck, nelec, energy, dims, norb, optret)."""
    import contextlib
    import io
    import warnings as w
    from tangelo.problem_decomposition import DMETProblemDecomposition
    from tangelo.problem_decomposition.dmet import Localization
    mol = dmet_mol(geom, 0, basis)
    opts = {"molecule": mol, "fragment_atoms": copy.deepcopy(frag), "fragment_solvers": copy.deepcopy(solver),
            "electron_localization": getattr(Localization, loc), "initial_chemical_potential": mu0, "verbose": verbose}
    if VOT[vot] is not None:
        opts["virtual_orbital_threshold"] = VOT[vot]
    optret = []
    if optimizer == "user":
        def user_optimizer(func, x0):
            import scipy.optimize
            r = scipy.optimize.newton(func, x0, tol=1e-6)
            optret.append(complex(r).real)
            return r
        opts["optimizer"] = user_optimizer
    with w.catch_warnings(), contextlib.redirect_stdout(io.StringIO()):
        w.simplefilter("ignore")
        dm = DMETProblemDecomposition(opts)
        dm.build()
        events = []
        inner = dm._oneshot_loop

        def recorded(mu, *a, **kw):
            r = inner(mu, *a, **kw)
            events.append({"ev": "oneshot", "mu": limbs(complex(mu).real), "mis": limbs(complex(r).real), "e": limbs(dm.dmet_energy),
                           "save": bool(kw.get("save_results", a[0] if a else False))})
            return r
        dm._oneshot_loop = recorded           # runtime wrapper on this instance only (observe_at: _oneshot_loop(mu))
        energy = dm.simulate()
        events.append({"ev": "done", "mu": limbs(dm.chemical_potential), "e": limbs(energy)})
        dm._oneshot_loop = inner
        recheck = dm._oneshot_loop(dm.chemical_potential)
        # fragment + bath orbitals of every embedding problem (saved by the final evaluation; [] if it did not happen)
        dims = [int(info[4].shape[0]) for info in (getattr(dm, "scf_fragments", None) or [])]
        norb = int(dm.molecule.nao_nr())
    return dict(events=events, recheck=complex(recheck).real, nelec=mol.n_electrons, energy=energy, dims=dims, norb=norb,
                optret=(optret[-1] if optret else 0.0))


def dmet_run(run):
    from tangelo.algorithms import FCISolver
    basis = run.get("basis", "sto-3g")
    vot, mu0key, optimizer = run.get("vot", "default"), run.get("mu0", "0"), run.get("optimizer", "default")
    r = dmet_execute(run["geom"], run["frag"], run["solver"], run["loc"], basis, MU0[mu0key], vot, optimizer, bool(run.get("verbose")))
    rec = {"kind": "dmet", "dims": r["dims"], "norb": r["norb"], "events": r["events"], "recheck": limbs(r["recheck"]), "nelec": r["nelec"],
           "exact": bool(run.get("exact")), "efci": [0, 0], "haspartner": False, "partner": [0, 0], "tolN": 100000, "tolE": 10000,
           "vot": vot, "mu0": limbs(MU0[mu0key]), "useropt": optimizer == "user", "optret": limbs(r["optret"])}
    if run.get("exact"):
        mol = dmet_mol(run["geom"], 0, basis)
        key = ("fci", id(mol))
        if key not in _REF_CACHE:
            _REF_CACHE[key] = FCISolver(mol).simulate()
        rec["efci"] = limbs(_REF_CACHE[key])
    if run.get("partner"):
        p = run["partner"]
        r2 = dmet_execute(p["geom"], p["frag"], run["solver"], run["loc"], basis)
        rec["haspartner"], rec["partner"] = True, limbs(r2["energy"])
    return rec, r["energy"]


H4_631 = [("H", (0., 0., 0.)), ("H", (0., 0., 0.75)), ("H", (0., 0., 1.75)), ("H", (0., 0., 2.625))]     # asymmetric chain


def dmet_option_runs(chk, rng, configs):
    """Runs over the documented constructor options (configurations enumerated by TLC, C15Dmet!OptConfigs) on the asymmetric H4
    chain in 6-31G with fragment_atoms=[2, 2] (2 occupied orbitals < 4 fragment orbitals: the default threshold truncates the
    bath, threshold 0 must not).  quick: a seeded pairwise-covering subset + every localisation with threshold 0; thorough: all."""
    configs = sorted(configs, key=lambda c: json.dumps(c, sort_keys=True))
    keys = ["vot", "loc", "solvers", "optimizer", "mu0", "verbose"]
    if chk.quick:
        need = {(a, c[a], b, c[b]) for c in configs for a in keys for b in keys if a < b}
        pool, chosen = list(configs), []
        rng.shuffle(pool)
        must = [c for c in pool if c["vot"] == "zero" and c["solvers"] == "fci"]
        for loc in ("meta_lowdin", "nao", "iao"):                   # the premise-checked exact-embedding runs
            chosen.append([c for c in must if c["loc"] == loc][0])
        for c in chosen:
            need -= {(a, c[a], b, c[b]) for a in keys for b in keys if a < b}
        while need:
            best = max(pool, key=lambda c: len(need & {(a, c[a], b, c[b]) for a in keys for b in keys if a < b}))
            chosen.append(best)
            need -= {(a, best[a], b, best[b]) for a in keys for b in keys if a < b}
        configs = chosen
    runs = []
    for c in configs:
        runs.append(dict(name="H4 6-31G [2,2] options %s" % json.dumps(c, sort_keys=True), geom=H4_631, frag=[2, 2], basis="6-31g",
                         solver=("fci" if c["solvers"] == "fci" else ["fci", "ccsd"]), loc=c["loc"], vot=c["vot"], mu0=c["mu0"],
                         optimizer=c["optimizer"], verbose=c["verbose"], exact=(c["solvers"] == "fci"), tag="options"))
    return runs


def dmet_negative_controls(jobs):
    ctl = []
    for j in jobs[:2]:
        c = copy.deepcopy(j); c["recheck"] = limbs(3e-4); c["ctl"] = "mismatch-3e-4"; ctl.append(c)
        c = copy.deepcopy(j); c["events"][-1]["e"][1] = (c["events"][-1]["e"][1] + 50) % 10 ** 6; c["ctl"] = "returned-energy-shifted"; ctl.append(c)
        c = copy.deepcopy(j); del c["events"][-2]; c["ctl"] = "final-evaluation-missing"; ctl.append(c)
        c = copy.deepcopy(j); c["events"][-1]["mu"] = limbs(0.123); c["ctl"] = "returned-mu"; ctl.append(c)
        if j["exact"]:
            c = copy.deepcopy(j); c["efci"][1] = (c["efci"][1] + 30000) % 10 ** 6; c["ctl"] = "fci-3e-6"; ctl.append(c)
        if j["haspartner"]:
            c = copy.deepcopy(j); c["partner"][1] = (c["partner"][1] + 30000) % 10 ** 6; c["ctl"] = "partner-3e-6"; ctl.append(c)
    return ctl


def run_dmet(chk, rng):
    quick = chk.quick
    runs = [dict(module="C15Dmet", cfg=dmet_cfg(2, 2, True), name="c15/dm_2i"),
            dict(module="C15Dmet", cfg=dmet_cfg(3, 2, True), name="c15/dm_3i"),
            dict(module="C15Dmet", cfg=dmet_cfg(3, 3, False), name="c15/dm_3"),
            dict(module="C15Dmet", cfg=dmet_cfg(4, 4, False), name="c15/dm_4"),
            dict(module="C15Dmet", cfg=dmet_cfg(4, 4, False).replace("INIT Init", "INIT InitDerived"), name="c15/dm_4d"),
            dict(module="C15Dmet", cfg="CONSTANTS NA = 2\nMaxBlocks = 1\nWithInvalid = FALSE\nINIT InitOpt\nNEXT NextOpt\n", name="c15/dm_opt")]
    res = tlc.run_many(runs, max_parallel=min(MAXPAR, 6))
    opt_res = res.pop()
    if not opt_res.ok:
        raise tlc.TLCError("C15Dmet option enumeration failed\n%s" % opt_res.out[-1500:])
    chk.add_tlc(opt_res, "S_dmet_option_configs")
    opt_configs = opt_res.prints("OPT")
    if len(opt_configs) != 144:
        raise tlc.TLCError("C15Dmet exported %d option configurations" % len(opt_configs))
    recs = []
    for r, nm in zip(res, ("na2_all", "na3_invalid", "na3", "na4", "na4_invalid")):
        if not r.ok:
            raise tlc.TLCError("C15Dmet (%s): %s\n%s" % (nm, r.violated, r.out[-1500:]))
        chk.add_tlc(r, "S_dmet_" + nm)
        fa = sorted(r.prints("FA"), key=lambda q: json.dumps(q, sort_keys=True))
        if nm == "na3_invalid":
            fa = [q for q in fa if not q["valid"]]
            fa = rng.sample(fa, 120 if quick else 500)
        if nm == "na4_invalid":
            by = {}
            for q in fa:
                by.setdefault(q["why"], []).append(q)
            fa = [q for why in sorted(by) for q in rng.sample(by[why], min(len(by[why]), 25 if quick else 124))]
        if nm == "na4" and quick:
            fa = [q for q in fa if q["kind"] == "counts"] + rng.sample([q for q in fa if q["kind"] == "nested"], 60)
        recs += fa
    nb = dmet_args_g(chk, recs)
    chk.part("G_dmet_fragment_atoms", cases=len(recs), failing=nb,
             invalid=sum(1 for q in recs if not q["valid"]))
    # ---- traces of real runs -------------------------------------------------------------------------------
    jobs = []
    opt_runs = dmet_option_runs(chk, rng, opt_configs)
    chk.part("G_dmet_options", enumerated_by_tlc=len(opt_configs), run=len(opt_runs))
    for run in dmet_runs(chk) + opt_runs:
        try:
            rec, energy = dmet_run(run)
        except Exception as e:
            chk.violation("dmet:simulate:exception:%s:%s" % (type(e).__name__, run.get("tag", "run")),
                          "%s: %s (%s)" % (type(e).__name__, e, run["name"]), {"kind": "dmet", "run": run})
            continue
        rec["id"] = len(jobs) + 1
        rec["run"] = run
        jobs.append(rec)
    ctl = dmet_negative_controls(jobs)
    for x, c in enumerate(ctl):
        c["base"], c["id"] = c["id"], 10 ** 6 + x
    send = [{k: v for k, v in j.items() if k not in ("run", "ctl", "base")} for j in jobs + ctl]
    verdicts, results = tlc.judge("C15Trace", send, "c15/dm_v", {}, max_parallel=2)
    for r in results:
        chk.add_tlc(r)
    for j in jobs:
        v = verdicts[j["id"]]
        if v.startswith("skip-"):
            chk.inconclusive += 1
            continue
        chk.add_traces(1, "V_dmet_runs_observational")
        if v != "ok":
            chk.violation("dmet:simulate:%s" % v, "%s: %s" % (j["run"]["name"], v), {"kind": "dmet", "run": j["run"]})
    control_outcome(chk, "negative_controls_dmet", ctl, lambda c: verdicts[c["base"]] == "ok", lambda c: verdicts[c["id"]] == "ok")
    if jobs:
        chk.sample({"kind": "dmet", "name": jobs[0]["run"]["name"], "events": jobs[0]["events"], "recheck": jobs[0]["recheck"]})
    chk.part("V_dmet_runs_observational", runs=len(jobs),
             note="OBSERVATIONAL: the invariants are evaluated by TLC on fixed-point scalars recorded from real runs; the only oracle for the "
                  "energies is the code's own FCI solver; tolerances 1e-5 electrons, 1e-6 Ha")


def replay_dmet(case):
    try:
        rec, energy = dmet_run(case["run"])
    except Exception as e:
        print("DMET run raised %s: %s" % (type(e).__name__, e))
        return False
    rec["id"] = 1
    verdicts, _ = tlc.judge("C15Trace", [rec], "c15/replay", {})
    print("%s: E = %r ; TLC verdict: %s" % (case["run"]["name"], energy, verdicts[1]))
    return verdicts[1] == "ok"


# =====================================================================================================
def run(chk):
    rng = random.Random(chk.seed)
    run_increments(chk, rng)
    run_oniom(chk, random.Random(chk.seed + 1))
    run_dmet(chk, random.Random(chk.seed + 2))
    chk.cov["rule"] = ("increments: every assignment over small ranges (m<=3) + seeded wide-range sample (m=3,4) x every truncation order")
    chk.assumptions += ["integer (and integer/8) energies are exact in binary floating point: exact comparison"]


def replay(chk, rec):
    case = rec["case"]
    if case.get("kind") == "mi":
        return replay_mi(case)
    if case.get("kind") == "sel":
        return replay_sel(case)
    if case.get("kind") == "fraggeom":
        return replay_fraggeom(case)
    if case.get("kind") == "relink":
        return replay_relink(case)
    if case.get("kind") == "relink_group":
        out = relink_call(case["rec"], case["species"])
        gj = dict(group_scalars(case["rec"], case["species"], out), id=1)
        verdicts, _ = tlc.judge("C15Trace", [gj], "c15/replay", {})
        print("relink(%s) -> %r\nscalars %s\nTLC verdict: %s" % (case["species"], out, gj, verdicts[1]))
        return verdicts[1] == "ok"
    if case.get("kind") == "oniom":
        return replay_oniom(case)
    if case.get("kind") == "dmet_arg":
        return replay_dmet_arg(case)
    if case.get("kind") == "dmet":
        return replay_dmet(case)
    print(rec)
    return False


if __name__ == "__main__":
    check.main("C15", run, replay)
