#!/venv/bin/python
"""C16 - operator arithmetic returns correct values and never mutates operands.

S: spec/C16Laws.tla - TLC checks the value domain that judges the code (ring laws on the enumerated values, and
   value-level product == operator product on Fock space / Pauli matrices).
G: spec/C16OperatorHeap.tla - a heap of three named operator objects (Tangelo FermionOperator, openfermion
   FermionOperator / QubitOperator, QubitHamiltonian, openfermion QubitOperator; annotations) under
   r := x op y, r := x op s, r := s op y, x op= y, x op= s, x == y, r := -x with aliasing.  TLC explores all
   histories (BFS) and random chains (-simulate); each history is replayed on the real classes and EVERY name's
   class / annotation / terms is compared with the spec heap after EVERY step.
V: spec/C16Multiform.tla - MultiformOperator products, do_commute (plain and term-resolved) recorded from the code
   for pairs of Pauli operators and judged by TLC in the exact Pauli algebra; operands must stay unchanged.
"""
import copy
import itertools
import operator
import os
import random
import sys

sys.path.insert(0, os.path.join(os.path.dirname(os.path.abspath(__file__)), "..", "harness"))
import check  # noqa: E402
import tlc  # noqa: E402
from enc import qubit_op_to_json, OffGrid  # noqa: E402

import numpy as np  # noqa: E402

M = 8
WD = "c16" + os.environ.get("VERIF_WORKTAG", "")     # work directory under .work (tag: parallel development runs)
NQ = 2
TOL = 1e-9
LET = "IXYZ"
MAPPING = {0: None, 1: "JW", 2: "jw", 3: "BK"}
UTD = {0: None, 1: False, 2: True}
OPNAME = {"add": "add", "sub": "sub", "mul": "mul"}
BINOP = {"add": operator.add, "sub": operator.sub, "mul": operator.mul}
AUGOP = {"add": operator.iadd, "sub": operator.isub, "mul": operator.imul}


def _classes():
    import openfermion as of
    from tangelo.toolboxes.operators import FermionOperator, QubitOperator, QubitHamiltonian
    return {"TF": FermionOperator, "OF": of.FermionOperator, "QO": QubitOperator, "OQ": of.QubitOperator,
            "QH": QubitHamiltonian}


_CLS = None


def classes():
    global _CLS
    if _CLS is None:
        _CLS = _classes()
    return _CLS


def scalar(sid):
    """spec scalar table (C16Defs.ScalarVal): the number in every Python / numpy scalar type that COEFFICIENT_TYPES admits
    (np.complex64, id 15, is outside COEFFICIENT_TYPES: accept-either)."""
    return {1: -1, 2: 2.0, 3: 1j, 4: 0, 5: np.int8(-1), 6: np.int16(2), 7: np.int32(-2), 8: np.int64(3),
            9: np.uint8(3), 10: np.uint16(2), 11: np.uint32(3), 12: np.uint64(2), 13: np.float32(2.0), 14: np.float64(-1.0),
            15: np.complex64(1j), 16: np.complex128(1j), 17: -3}[sid]


SCALAR_TYPE = {1: "int", 2: "float", 3: "complex", 4: "int", 5: "np.int8", 6: "np.int16", 7: "np.int32", 8: "np.int64", 9: "np.uint8",
               10: "np.uint16", 11: "np.uint32", 12: "np.uint64", 13: "np.float32", 14: "np.float64", 15: "np.complex64", 16: "np.complex128", 17: "int"}


def key_to_term(family, t):
    if family == "F":
        return tuple((int(p), int(dg)) for p, dg in t)
    return tuple((q, LET[l]) for q, l in enumerate(t) if l)


def term_to_key(family, term, nq=NQ):
    if family == "F":
        return tuple((int(p), int(dg)) for p, dg in term)
    w = [0] * nq
    for q, l in term:
        w[q] = LET.index(l)
    return tuple(w)


def build(family, o):
    """spec object (export form) -> real object; None for an unbound name."""
    if o["cls"] == "null":
        return None
    C = classes()[o["cls"]]
    ann = list(o["ann"]) if o["ann"] else []
    if o["cls"] == "TF":
        obj = C(None, 1., *[None if a < 0 else a for a in ann])
    elif o["cls"] == "QH":
        obj = C(None, 1., MAPPING[ann[0]], UTD[ann[1]])
    else:
        obj = C()
    terms = {}
    for e in o["val"]:
        c = complex(e["re"], e["im"])
        terms[key_to_term(family, e["t"])] = c if e["im"] else float(e["re"])
    obj.terms = terms
    return obj


def project(family, obj):
    """real object -> (cls tag, annotation list, {key: complex})."""
    if obj is None:
        return ("null", [], {})
    C = classes()
    tag = "other:" + type(obj).__name__
    for k, c in C.items():
        if type(obj) is c:
            tag = k
    if tag == "TF":
        ann = [-1 if getattr(obj, a) is None else getattr(obj, a) for a in ("n_spinorbitals", "n_electrons", "spin")]
    elif tag == "QH":
        inv_m = {v: k for k, v in MAPPING.items()}
        inv_u = {None: 0, False: 1, True: 2}
        ann = [inv_m.get(obj.mapping, "?%r" % (obj.mapping,)), inv_u.get(obj.up_then_down, "?%r" % (obj.up_then_down,))]
    else:
        ann = []
    val = {}
    for t, c in obj.terms.items():
        c = complex(c)
        if abs(c) > 1e-12:
            val[term_to_key(family, t)] = c
    return (tag, ann, val)


def expected_proj(family, o):
    val = {}
    for e in o["val"]:
        k = tuple(tuple(x) for x in e["t"]) if family == "F" else tuple(e["t"])
        val[k] = complex(e["re"], e["im"])
    return (o["cls"], list(o["ann"]) if o["ann"] else [], val)


def same_val(a, b):
    if set(a) != set(b):
        return False
    return all(abs(a[k] - b[k]) <= TOL for k in a)


def site_of(step, lcls, rcls):
    """Name of the special method Python dispatches to (labels the violation key only)."""
    full = {"TF": "FermionOperator", "QH": "QubitHamiltonian", "QO": "QubitOperator", "OF": "of.FermionOperator",
            "OQ": "of.QubitOperator"}
    kind, op = step["kind"], step["op"]
    if kind == "neg":
        return full[lcls] + ".__neg__"
    if kind == "conv":
        return {"to_openfermion": full[lcls] + ".to_openfermion", "to_qubitoperator": "QubitHamiltonian.to_qubitoperator",
                "from_openfermion": "QubitOperator.from_openfermion", "to_qubitham": "qubitop_to_qubitham"}[op]
    if kind == "eq":
        if lcls in ("QO", "OQ") and rcls == "QH":
            return "QubitHamiltonian.__eq__"
        return full[lcls] + ".__eq__"
    if kind == "aug":
        return "%s.__i%s__" % (full[lcls], op)
    if lcls is None:
        return "%s.__r%s__" % (full[rcls], op)
    if lcls == "OF" and rcls == "TF" and op in ("add", "sub"):
        return "FermionOperator.__r%s__" % op
    return "%s.__%s__" % (full[lcls], op)


_seen = {}


def convert(op, xo):
    from tangelo.toolboxes.operators import QubitOperator
    from tangelo.toolboxes.operators.operators import qubitop_to_qubitham
    if op == "to_openfermion":
        return xo.to_openfermion()
    if op == "to_qubitoperator":
        return xo.to_qubitoperator()
    if op == "from_openfermion":
        return QubitOperator.from_openfermion(xo)
    if op == "to_qubitham":
        return qubitop_to_qubitham(xo, "JW", False)
    raise ValueError(op)


def viol(chk, key, detail, case):
    """chk.violation, but at most two recorded samples per key that is not a known finding (replay files are
    only written for the first 50 recorded samples)."""
    if chk.match_known(key) is None:
        _seen[key] = _seen.get(key, 0) + 1
        if _seen[key] > 2:
            return
    chk.violation(key, detail, case)


def replay_history(chk, family, h0, steps, where=None):
    """Replays one history on the real classes. Returns the number of steps compared.
    Every name is compared with the spec heap after every step; the first failing step ends the history."""
    heap = {n: build(family, h0[n]) for n in ("a", "b", "c")}
    if h0.get("zero") in ("a", "b") and heap[h0["zero"]] is not None:
        # representation only: an explicit zero-coefficient entry (the abstract value is unchanged)
        zt = key_to_term(family, h0["zkey"])
        if zt not in heap[h0["zero"]].terms:
            heap[h0["zero"]].terms[zt] = 0.0
    exp = {n: h0[n] for n in ("a", "b", "c")}
    case = {"kind": "history", "family": family, "h0": h0, "steps": steps}
    done = 0
    for si, st in enumerate(steps):
        kind, op = st["kind"], st["op"]
        xo = heap[st["xn"]] if st["xn"] else scalar(st["xs"])
        yo = None
        if kind in ("bin", "aug", "eq"):
            yo = heap[st["yn"]] if st["yn"] else scalar(st["ys"])
        lcls = exp[st["xn"]]["cls"] if st["xn"] else None
        rcls = exp[st["yn"]]["cls"] if st["yn"] else None
        site = site_of(st, lcls, rcls)
        other = (rcls or "scalar") if lcls else "scalar-left"
        if kind in ("bin", "aug") and (st["xs"] or st["ys"]) and (st["xs"] or st["ys"]) > 3:
            other += "[%s]" % SCALAR_TYPE[st["xs"] or st["ys"]]          # typed numpy / Python scalar
        if st["xn"] and st["xn"] == st["yn"]:
            other = "self"                       # the same object on both sides
        ann_l = exp[st["xn"]]["ann"] if st["xn"] else None
        ann_r = exp[st["yn"]]["ann"] if st["yn"] else None
        detail0 = "step %d of %d: %s %s [%s%s %s %s%s] target=%s" % (
            si + 1, len(steps), kind, op, lcls or "s%d" % st["xs"], ann_l or "", op, rcls or ("s%d" % st["ys"] if kind not in ("neg", "conv") else ""),
            ann_r or "", st["r"])
        if kind == "conv":
            other = "-"
        raised = None
        res = None
        try:
            if kind == "bin":
                res = BINOP[op](xo, yo)
            elif kind == "aug":
                res = AUGOP[op](xo, yo)
            elif kind == "eq":
                res = (xo == yo)
            elif kind == "neg":
                res = -xo
            elif kind == "conv":
                res = convert(op, xo)
        except Exception as e:       # noqa: BLE001 - any exception type counts as "rejected"
            raised = e
        out = st["out"]
        if raised is not None and out == "ok":
            viol(chk, "%s:raised:%s:%s" % (site, type(raised).__name__, other),
                          "%s: documented/algebraic operation raised %s: %s" % (detail0, type(raised).__name__, str(raised)[:120]), case)
            return done
        if raised is None and out == "reject":
            viol(chk, "%s:accepted-mismatch:%s" % (site, other), "%s: annotation mismatch silently accepted" % detail0, case)
            return done
        stop_after = False
        if raised is not None:
            stop_after = (out == "either")       # both behaviours conform; the spec followed the accepting branch
        else:
            if kind == "eq":
                if not isinstance(res, (bool, np.bool_)) or bool(res) != st["eqv"]:
                    viol(chk, "%s:wrong-result:%s" % (site, other), "%s: == returned %r, expected %r" % (detail0, res, st["eqv"]), case)
                    return done
            else:
                heap[st["r"]] = res
                exp[st["r"]] = st["upd"]
        # ---- compare every name with the spec heap -----------------------------------------------
        for n in ("a", "b", "c"):
            if raised is not None and out == "either" and kind == "aug" and st["xn"] == st["yn"] and n == st["xn"]:
                continue      # x op= x that raised half-way inside openfermion's in-place loop: x itself is not constrained
            got = project(family, heap[n])
            want = expected_proj(family, exp[n])
            is_target = (raised is None and kind != "eq" and n == st["r"])
            role = "result" if is_target else ("left" if n == st["xn"] else ("right" if n == st["yn"] else "bystander"))
            if got[0] != want[0]:
                if is_target and not got[0].startswith("other"):
                    chk.spec_drift("%s: result class %s where the dispatch model says %s (%s)" % (site, got[0], want[0], detail0))
                    return done
                viol(chk, "%s:%s-class:%s" % (site, role, other), "%s: name %s is a %s, expected %s" % (detail0, n, got[0], want[0]), case)
                return done
            if not same_val(got[2], want[2]):
                clause = "wrong-value" if is_target else "operand-changed:" + role
                viol(chk, "%s:%s:%s" % (site, clause, other),
                              "%s: name %s (%s) has terms %s, spec says %s" % (detail0, n, role, got[2], want[2]), case)
                return done
            if got[1] != want[1]:
                clause = "wrong-annotation" if is_target else "annotation-changed:" + role
                viol(chk, "%s:%s:%s" % (site, clause, other),
                              "%s: name %s (%s) has annotation %s, spec says %s" % (detail0, n, role, got[1], want[1]), case)
                return done
        done += 1
        if stop_after:
            return done
    return done


# ------------------------------------------------------------------------------------------------------
HEAP_CFG = """CONSTANTS M = 8
Family = "%(fam)s"
NQ = 2
MaxDepth = %(depth)d
MaxTerms = %(mt)d
MaxLen = %(ml)d
Bound = %(bound)d
ClsA <- %(clsa)s
ClsB <- %(clsb)s
ValsA <- %(valsa)s
ValsB <- %(valsb)s
Thirds <- %(thirds)s
Scalars <- %(scalars)s
Ops <- OpsAll
Targets <- %(targets)s
ZeroReps <- %(zero)s
Export = "%(export)s"
INIT Init
NEXT Next
INVARIANT TypeOK
INVARIANT EndOfBehaviour
PROPERTY FrameOK
%(extra)s
"""


def heap_cfg(fam, depth, clsa="ClsMain", clsb="ClsMain", valsa="ValsOnlyA", valsb="ValsOnlyB", thirds="ThirdNull",
             scalars="ScalarsAll", targets="TargetsC", export="leaf", view=False, mt=4, ml=6, bound=64, zero="ZeroNone"):
    return HEAP_CFG % dict(fam=fam, depth=depth, clsa=clsa, clsb=clsb, valsa=valsa, valsb=valsb, thirds=thirds,
                           scalars=scalars, targets=targets, export=export, extra="VIEW View" if view else "",
                           mt=mt, ml=ml, bound=bound, zero=zero)


def heap_runs(chk):
    quick = chk.quick
    W = 2 if quick else 4
    runs = []
    for fam in ("F", "Q"):
        # every single step from every class/annotation combination (both operands), two value choices each
        runs.append(dict(tag="%s_d1_allcls" % fam, fam=fam, module="C16OperatorHeap", workers=W,
                         cfg=heap_cfg(fam, 1, "ClsAll", "ClsAll", "ValsAZ", "ValsAB", "ThirdNull", targets="TargetsAC",
                                      zero="ZeroNone" if quick else "ZeroAll")))
        # every scalar form (binary, reflected, augmented; + - *) with every Python / numpy scalar TYPE of the table
        runs.append(dict(tag="%s_d1_scalars" % fam, fam=fam, module="C16OperatorHeap", workers=W,
                         cfg=heap_cfg(fam, 1, "ClsTangelo", "ClsSmall" if quick else "ClsMain", "ValsOnlyA" if quick else "ValsAZ",
                                      "ValsOnlyB" if quick else "ValsAB", scalars="ScalarsTyped", targets="TargetsC" if quick else "TargetsAC")))
        # all histories of length 2 whose left operand starts EMPTY (no terms) / identity-only: "op with an empty left
        # operand, then an in-place op on the result" - a result that adopted an operand's dictionary shows as a frame violation
        runs.append(dict(tag="%s_d2_empty" % fam, fam=fam, module="C16OperatorHeap", workers=W + 2,
                         cfg=heap_cfg(fam, 2, "ClsSmall" if quick else "ClsMain", "ClsSmall", "ValsZeroId",
                                      "ValsOnlyB" if quick else "ValsBZ", scalars="ScalarsOne", targets="TargetsC" if quick else "TargetsAC",
                                      zero="ZeroNone" if quick else "ZeroAll")))
        # all histories of length 2 on shared operands
        runs.append(dict(tag="%s_d2" % fam, fam=fam, module="C16OperatorHeap", workers=W + 2,
                         cfg=heap_cfg(fam, 2, "ClsMain", "ClsSmall", scalars="ScalarsOne" if quick else "ScalarsAll",
                                      targets="TargetsC" if quick else "TargetsAC")))
        # chains of length 10 (random), initial values from the generated pool
        runs.append(dict(tag="%s_sim" % fam, fam=fam, module="C16OperatorHeap", workers=1,
                         simulate="num=%d" % (60 if quick else 2000), depth=11, seed=chk.seed + (3 if fam == "F" else 5),
                         cfg=heap_cfg(fam, 10, "ClsAll", "ClsMain", "Vals1Z", "ValsFixed", "ThirdNull", targets="TargetsAC", scalars="ScalarsAll" if quick else "ScalarsTyped",
                                      mt=6, ml=8, bound=4096)))
        if not quick:
            # every transition out of every distinct heap reachable in 3 steps (one representative history each)
            runs.append(dict(tag="%s_d3_view" % fam, fam=fam, module="C16OperatorHeap", workers=6,
                             cfg=heap_cfg(fam, 3, "ClsD3A", "ClsD3B", scalars="ScalarsOne", targets="TargetsC",
                                          export="all", view=True)))
    only = os.environ.get("C16_ONLY")        # development aid: comma separated run tags
    if only:
        runs = [r for r in runs if r["tag"] in only.split(",")]
    return runs


def run_heap(chk):
    runs = heap_runs(chk)
    jobs = []
    for r in runs:
        jobs.append(dict(module=r["module"], cfg=r["cfg"], name=WD + "/" + r["tag"], workers=r["workers"],
                         simulate=r.get("simulate"), depth=r.get("depth"), seed=r.get("seed"), timeout=7200, heap="6g"))
    # one coverage run (small) to make sure every action of the machine is taken
    jobs.append(dict(module="C16OperatorHeap", cfg=heap_cfg("F", 1, export="none"), name=WD + "/cov_F", coverage=True))
    jobs.append(dict(module="C16OperatorHeap", cfg=heap_cfg("Q", 1, export="none"), name=WD + "/cov_Q", coverage=True))
    results = tlc.run_many(jobs, max_parallel=6 if chk.quick else 8)
    for res in results[-2:]:
        if not res.ok:
            raise tlc.TLCError("C16OperatorHeap (coverage run) failed: %s" % res.out[-1500:])
        cov = res.coverage_counts()
        acts = {a: cov.get(a, (0, 0))[1] for a in ("BinOO", "BinOS", "BinSO", "AugOO", "AugOS", "EqStep", "NegStep", "ConvStep")}
        chk.part("coverage_" + res.name.split("/")[-1], **acts)
        if any(v == 0 for v in acts.values()):
            raise tlc.TLCError("vacuity: an action of C16OperatorHeap was never taken: %s" % acts)
    total_h = total_s = 0
    for r, res in zip(runs, results):
        if not res.ok:
            raise tlc.TLCError("C16OperatorHeap: the specification itself failed (%s): %s" % (res.violated, res.out[-1500:]))
        chk.add_tlc(res, "heap_" + r["tag"])
        hs = res.prints("H")
        if not hs:
            raise tlc.TLCError("no histories exported by %s" % r["tag"])
        nsteps = 0
        for h in hs:
            nsteps += replay_history(chk, r["fam"], h["h0"], h["steps"])
        chk.add_traces(len(hs), "heap_" + r["tag"])
        chk.part("heap_" + r["tag"], histories=len(hs), steps_compared=nsteps)
        total_h += len(hs)
        total_s += nsteps
        if len(chk.cov["samples"]) < 3:
            h = hs[len(hs) // 2]
            chk.sample({"history": {"family": r["fam"], "h0": {k: h["h0"][k]["cls"] for k in ("a", "b", "c")},
                                    "steps": [{k: s[k] for k in ("kind", "op", "r", "xn", "xs", "yn", "ys", "out")} for s in h["steps"]]}})
        res.out = ""      # free memory
    chk.part("heap_total", histories=total_h, steps_compared=total_s)


def run_laws(chk):
    res = tlc.run_many([dict(module="C16Laws", cfg='CONSTANTS M = 8\nFamily = "%s"\nNQ = 2\nINIT Init\nNEXT Next\n' % f,
                             name=WD + "/laws_" + f) for f in ("F", "Q")], max_parallel=2)
    for f, r in zip("FQ", res):
        lc = r.tuples("LC")
        bad = [t for t in lc if t[1] is not True]
        if bad or len(lc) < 7 or not r.ok:
            raise tlc.TLCError("C16Laws(%s): the value domain violates %s" % (f, bad or r.out[-800:]))
        chk.add_tlc(r, "S_laws_" + f)
        chk.part("S_laws_" + f, checks=len(lc))


# ------------------------------------------------------------------------------------------------------
#  MultiformOperator
# ------------------------------------------------------------------------------------------------------
COEF = [1, -1, 1j, -1j]


def all_words(n):
    return list(itertools.product(range(4), repeat=n))


def mk_qop(terms):
    """terms: list of (word tuple, coef) -> Tangelo QubitOperator (insertion order = list order)."""
    from tangelo.toolboxes.operators import QubitOperator
    op = QubitOperator()
    for w, c in terms:
        op += QubitOperator(tuple((q, LET[l]) for q, l in enumerate(w) if l), c)
    return op


def op_space(n, max_terms, rng, limit=None):
    """operators with <= max_terms distinct words, first coefficient 1 or i, others in +-1, +-i."""
    ws = all_words(n)
    ops = [[(w, c)] for w in ws for c in (1, 1j)]
    if max_terms >= 2:
        for w1, w2 in itertools.combinations(ws, 2):
            for c2 in COEF:
                ops.append([(w1, 1), (w2, c2)])
    if limit and len(ops) > limit:
        ops = rng.sample(ops, limit)
    return ops


def mf_snapshot(m):
    return (dict(m.terms), m.n_qubits, np.array(m.factors).copy(), m.integer.copy(), m.binary.copy(), m.binary_swap.copy())


def mf_same(a, b):
    return (a[0] == b[0] and a[1] == b[1] and np.array_equal(a[2], b[2]) and np.array_equal(a[3], b[3])
            and np.array_equal(a[4], b[4]) and np.array_equal(a[5], b[5]))


def rows_json(int_rows, factors, n):
    from ring import gauss_dyadic
    out = []
    for row, f in zip(int_rows, factors):
        # Tangelo integer code: 0 I, 1 Z, 2 X, 3 Y  ->  spec letters 0 I 1 X 2 Y 3 Z
        w = [{0: 0, 1: 3, 2: 1, 3: 2}[int(v)] for v in row]
        c = gauss_dyadic(complex(f), M)
        if c is None:
            raise OffGrid("factor %r" % (f,))
        out.append({"w": w, "c": c})
    return out


def terms_json(terms, n):
    from ring import gauss_dyadic
    out = []
    for t, f in terms.items():
        w = [0] * n
        for q, l in t:
            w[q] = LET.index(l)
        c = gauss_dyadic(complex(f), M)
        if c is None:
            raise OffGrid("coef %r" % (f,))
        out.append({"w": w, "c": c})
    return out


def mf_record(chk, jid, n, ta, tb):
    """Runs the code on the pair (A, B); returns the job for TLC (or None)."""
    from tangelo.toolboxes.operators.multiformoperator import MultiformOperator, do_commute
    case = {"kind": "multiform", "n": n, "A": [[list(w), str(c)] for w, c in ta], "B": [[list(w), str(c)] for w, c in tb]}
    A = MultiformOperator.from_qubitop(mk_qop(ta), n)
    B = MultiformOperator.from_qubitop(mk_qop(tb), n)
    sa, sb = mf_snapshot(A), mf_snapshot(B)
    job = {"id": jid, "kind": "pair", "n": n, "A": rows_json(A.integer, A.factors, n), "B": rows_json(B.integer, B.factors, n),
           "has_prod": False, "P": [], "PT": [], "has_dc": False, "dc": False, "has_tr": False, "tr": []}
    try:
        P = A * B
        job["P"] = rows_json(P.integer, P.factors, n)
        job["PT"] = terms_json(P.terms, n)
        job["has_prod"] = True
    except OffGrid:
        chk.inconclusive += 1
    except Exception as e:   # noqa: BLE001
        viol(chk, "MultiformOperator.__mul__:raised:%s" % type(e).__name__, "A*B raised %s: %s" % (type(e).__name__, str(e)[:150]), case)
    try:
        dc = do_commute(A, B)
        job["dc"] = bool(dc)
        job["has_dc"] = True
    except Exception as e:   # noqa: BLE001
        viol(chk, "do_commute:raised:%s" % type(e).__name__, "do_commute raised %s: %s" % (type(e).__name__, str(e)[:150]), case)
    try:
        tr = do_commute(A, B, term_resolved=True)
        job["tr"] = [bool(x) for x in tr]
        job["has_tr"] = True
    except Exception as e:   # noqa: BLE001
        viol(chk, "do_commute[term_resolved]:raised:%s" % type(e).__name__, "do_commute(term_resolved) raised %s: %s" % (type(e).__name__, str(e)[:150]), case)
    if not mf_same(sa, mf_snapshot(A)) or not mf_same(sb, mf_snapshot(B)):
        viol(chk, "MultiformOperator:operand-changed", "an operand of A*B / do_commute(A,B) was modified", case)
    return job, case


VBITS = [(1, "MultiformOperator.__mul__:wrong-product"), (2, "MultiformOperator.__mul__:not-collapsed"),
         (4, "MultiformOperator.__mul__:terms-differ-from-integer-form"), (8, "do_commute:true-but-noncommuting"),
         (16, "do_commute:false-but-commuting"), (32, "do_commute[term_resolved]:wrong"), (64, "machinery:malformed-record")]


def mf_pairs(chk, rng):
    quick = chk.quick
    pairs = []
    # every letter pair on one qubit (the phase table), every pair of single words on two qubits
    s1 = [[(w, 1)] for w in all_words(1)]
    pairs += [(1, a, b) for a in s1 for b in s1]
    o1 = op_space(1, 2, rng)
    pairs += [(1, a, b) for a in o1 for b in o1]
    s2 = [[(w, 1)] for w in all_words(2)]
    pairs += [(2, a, b) for a in s2 for b in s2]
    o2 = op_space(2, 2, rng)
    if quick:
        pairs += [(2, rng.choice(o2), rng.choice(o2)) for _ in range(2500)]
    else:
        pairs += [(2, rng.choice(o2), rng.choice(o2)) for _ in range(40000)]
    # three qubits, up to three terms (sampled)
    w3 = all_words(3)
    for _ in range(300 if quick else 6000):
        def rnd_op():
            k = rng.choice((1, 2, 3))
            ws = rng.sample(w3, k)
            return [(w, rng.choice(COEF)) for w in ws]
        pairs.append((3, rnd_op(), rnd_op()))
    # the documented counterexample family: X0 + Z1 against Z0 (one term anticommutes, one commutes)
    pairs.append((2, [((1, 0), 1), ((0, 3), 1)], [((3, 0), 1)]))
    pairs.append((2, [((1, 1), 1), ((2, 2), 1)], [((3, 0), 1), ((0, 3), 1)]))     # commute only by cancellation
    return pairs


def mf_negative_controls(jobs):
    ctl = []
    base = 10 ** 7
    for j in jobs:
        if j["has_prod"] and j["P"] and j["has_dc"] and j["has_tr"] and len(ctl) < 9:
            c = copy.deepcopy(j)
            c["id"] = base + len(ctl)
            c["P"][0]["c"] = {"c": [-x for x in c["P"][0]["c"]["c"]], "k": c["P"][0]["c"]["k"]}
            c["_expect"] = 1
            ctl.append(c)
            c = copy.deepcopy(j)
            c["id"] = base + len(ctl)
            c["dc"] = not c["dc"]
            c["_expect"] = 8 | 16
            ctl.append(c)
            c = copy.deepcopy(j)
            c["id"] = base + len(ctl)
            c["tr"][0] = not c["tr"][0]
            c["_expect"] = 32
            ctl.append(c)
    return ctl


def run_multiform(chk, rng):
    pairs = mf_pairs(chk, rng)
    jobs, cases = [], {}
    for n, ta, tb in pairs:
        jid = len(jobs) + 1
        try:
            job, case = mf_record(chk, jid, n, ta, tb)
        except OffGrid:
            chk.inconclusive += 1
            continue
        jobs.append(job)
        cases[jid] = case
    verdicts, results = tlc.judge("C16Multiform", jobs, WD + "/mf", {"M": M}, max_parallel=6 if chk.quick else 12, timeout=7200)
    ctl = mf_negative_controls([j for j in jobs if verdicts[j["id"]] == 0])        # corrupted copies of conforming records
    expect = {c["id"]: c.pop("_expect") for c in ctl}
    if ctl:
        vc, rc = tlc.judge("C16Multiform", ctl, WD + "/mf_ctl", {"M": M}, max_parallel=2, timeout=7200)
        verdicts.update(vc)
        results += rc
    for r in results:
        chk.add_tlc(r)
    nbad = 0
    for j in jobs:
        v = verdicts[j["id"]]
        chk.add_traces(1, "multiform")
        if v == 0:
            continue
        nbad += 1
        if v & 64:
            raise tlc.TLCError("malformed multiform record %s" % j)
        for bit, key in VBITS:
            if v & bit:
                viol(chk, key, "TLC verdict bits %d for A=%s B=%s (dc=%s tr=%s P=%s)" % (
                    v, cases[j["id"]]["A"], cases[j["id"]]["B"], j["dc"], j["tr"], j["P"]), cases[j["id"]])
    bad_ctl = [cid for cid, e in expect.items() if not (verdicts[cid] & e)]
    chk.part("multiform", pairs=len(jobs), nonconforming=nbad, negative_controls=len(ctl), controls_rejected=len(ctl) - len(bad_ctl),
             with_product=sum(1 for j in jobs if j["has_prod"]))
    if jobs and not ctl and nbad == 0 and any(j["has_prod"] for j in jobs):
        raise tlc.TLCError("no negative controls could be built")
    if bad_ctl:
        raise tlc.TLCError("binding failure: corrupted multiform records accepted: %s" % bad_ctl)
    if jobs:
        chk.sample({"multiform": {k: jobs[len(jobs) // 2][k] for k in ("n", "A", "B", "dc", "tr")}})

# ------------------------------------------------------------------------------------------------------
#  MultiformOperator.collapse on large stacked arrays (V)
# ------------------------------------------------------------------------------------------------------
SPEC2INT = {0: 0, 1: 2, 2: 3, 3: 1}        # spec letter (I X Y Z) -> Tangelo integer code (0 I, 1 Z, 2 X, 3 Y)


def collapse_inputs(chk, rng):
    """(n, rows of A, rows of B, dtype): stacked sizes from 1 to ~300 rows, repeated words inside and across the halves,
    non-uniform Gaussian-dyadic factors, int8 (the documented dtype of .integer) and int64."""
    quick = chk.quick

    def fac(k):
        return complex(((k * 5) % 7) - 3, ((k * 3) % 5) - 2) / 2.0 or 0.5

    cases = []
    sizes = [(1, 0), (2, 1), (100, 27), (128, 0), (129, 0), (130, 40), (200, 56), (255, 0), (256, 0), (257, 0), (256, 44), (150, 150)]
    if not quick:
        sizes += [(127, 1), (128, 1), (131, 131), (180, 75), (250, 50), (64, 64), (300, 0), (140, 139), (7, 250), (256, 256)]
    for idx, (na, nb) in enumerate(sizes):
        for n in ((4,) if quick else (4, 5)):
            ws = all_words(n)
            pool = rng.sample(ws, min(len(ws), max(3, (na + nb) * 3 // 4)))       # fewer words than rows: repeats
            if na + nb in (256, 255, 257) and nb == 0 and n == 4:
                pool = ws                                                        # all 4^4 words
            a_words = [pool[i % len(pool)] for i in range(na)] if na > len(pool) else rng.sample(pool, na)
            b_words = [rng.choice(pool) for _ in range(nb)]
            if na == 257:
                a_words = list(ws) + [ws[5]]
            rng.shuffle(a_words)
            A = [(w, fac(i + 1)) for i, w in enumerate(a_words)]
            B = [(w, fac(3 * i + 2)) for i, w in enumerate(b_words)]
            for dt in ("int8", "int64"):
                cases.append((n, A, B, dt))
    return cases


def collapse_record(chk, jid, n, A, B, dt):
    from tangelo.toolboxes.operators.multiformoperator import MultiformOperator
    from ring import gauss_dyadic
    case = {"kind": "collapse", "n": n, "dtype": dt, "A": [[list(w), str(c)] for w, c in A], "B": [[list(w), str(c)] for w, c in B]}
    rows = np.array([[SPEC2INT[l] for l in w] for w, _ in A + B], dtype=getattr(np, dt)).reshape(len(A) + len(B), n)
    factors = np.array([c for _, c in A + B], dtype=complex)
    r0, f0 = rows.copy(), factors.copy()

    def rj(pairs):
        return [{"w": list(w), "c": gauss_dyadic(c, M)} for w, c in pairs]
    try:
        u, f = MultiformOperator.collapse(rows, factors)
    except Exception as e:     # noqa: BLE001
        viol(chk, "MultiformOperator.collapse:raised:%s" % type(e).__name__, "collapse of %d rows (%s) raised %s: %s" % (len(rows), dt, type(e).__name__, str(e)[:120]), case)
        return None
    if not (np.array_equal(rows, r0) and np.array_equal(factors, f0)):
        viol(chk, "MultiformOperator.collapse:argument-changed", "collapse modified its input arrays (%d rows, %s)" % (len(rows), dt), case)
    job = {"id": jid, "kind": "collapse", "n": n, "A": rj(A), "B": rj(B), "P": rows_json(np.atleast_2d(u), f, n),
           "PT": [], "has_prod": True, "has_dc": False, "dc": False, "has_tr": False, "tr": []}
    return job, case


def run_collapse(chk, rng):
    jobs, cases = [], {}
    for n, A, B, dt in collapse_inputs(chk, rng):
        rec = collapse_record(chk, len(jobs) + 1, n, A, B, dt)
        if rec is None:
            continue
        jobs.append(rec[0])
        cases[rec[0]["id"]] = rec[1]
    if not jobs:
        return
    verdicts, results = tlc.judge("C16Multiform", jobs, WD + "/collapse", {"M": M}, max_parallel=6 if chk.quick else 12, timeout=7200)
    good = [j for j in jobs if verdicts[j["id"]] == 0 and len(j["P"]) > 1]
    ctl = []
    for j in good[:4]:
        c = copy.deepcopy(j)
        c["id"] = 10 ** 7 + len(ctl)
        c["P"][0]["c"], c["P"][1]["c"] = c["P"][1]["c"], c["P"][0]["c"]      # two words paired with each other's factor
        if c["P"][0]["c"] != c["P"][1]["c"]:
            ctl.append(c)
    if ctl:
        vc, rc = tlc.judge("C16Multiform", ctl, WD + "/collapse_ctl", {"M": M}, max_parallel=2)
        verdicts.update(vc)
        results += rc
    for r in results:
        chk.add_tlc(r)
    nbad = 0
    for j in jobs:
        v = verdicts[j["id"]]
        chk.add_traces(1, "collapse")
        if v & 64:
            raise tlc.TLCError("malformed collapse record %s" % cases[j["id"]])
        rows = len(j["A"]) + len(j["B"])
        cls = "rows>128" if rows > 128 else "rows<=128"
        if v & 1:
            nbad += 1
            viol(chk, "MultiformOperator.collapse:wrong-sum:%s:%s" % (cases[j["id"]]["dtype"], cls),
                 "collapse of %d stacked rows (n=%d, %s) is not the sum of the two operators" % (rows, j["n"], cases[j["id"]]["dtype"]), cases[j["id"]])
        if v & 2:
            nbad += 1
            viol(chk, "MultiformOperator.collapse:not-collapsed:%s:%s" % (cases[j["id"]]["dtype"], cls),
                 "collapse of %d stacked rows returns duplicate words or zero factors" % rows, cases[j["id"]])
    bad_ctl = [c["id"] for c in ctl if not (verdicts[c["id"]] & 1)]
    chk.part("collapse", jobs=len(jobs), max_rows=max(len(j["A"]) + len(j["B"]) for j in jobs), nonconforming=nbad,
             negative_controls=len(ctl), controls_rejected=len(ctl) - len(bad_ctl))
    if not ctl and nbad == 0:
        raise tlc.TLCError("no collapse negative controls could be built")
    if bad_ctl:
        raise tlc.TLCError("binding failure: corrupted collapse records accepted: %s" % bad_ctl)


# ------------------------------------------------------------------------------------------------------
#  MultiformOperator as a state machine (G): spec/C16MultiformMachine.tla
# ------------------------------------------------------------------------------------------------------
MM_CFG = """CONSTANTS M = 8
Family = "Q"
NQ = 2
MaxDepth = %(depth)d
MaxTerms = %(mt)d
Bound = %(bound)d
ValsM <- %(vm)s
ValsS <- %(vs)s
Scalars <- %(sc)s
Targets <- %(tg)s
Export = "%(export)s"
INIT Init
NEXT Next
INVARIANT TypeOK
INVARIANT EncodingOK
INVARIANT EndOfBehaviour
PROPERTY FrameOK
%(extra)s
"""
MM_ACTIONS = ("IMulO", "IMulS", "IAddO", "CompressDD", "CompressDN", "CompressTD", "CompressTN", "CompressBD", "CompressBN",
              "RemoveInt", "RemoveList", "RemoveArray", "ArrMul", "AddCollapse", "Commute", "RoundTripN", "RoundTripD", "GetKernel")
MM_TOL = {"D": None, "T": 1e-12, "B": 1.5}


def mm_cfg(depth, vm="ValsMSmall", vs="ValsSSmall", sc="ScalarsOne", tg="TargetsP", export="leaf", view=False, mt=8, bound=256):
    return MM_CFG % dict(depth=depth, vm=vm, vs=vs, sc=sc, tg=tg, export=export, extra="VIEW View" if view else "", mt=mt, bound=bound)


def mm_build(o):
    from tangelo.toolboxes.operators.multiformoperator import MultiformOperator
    if not o["ex"]:
        return None
    return MultiformOperator.from_qubitop(mk_qop([(tuple(e["t"]), complex(e["re"], e["im"]) if e["im"] else float(e["re"])) for e in o["val"]]), NQ)


def mm_compare(obj, want, ordered=True):
    """Compares EVERY derived attribute of the real object with the exported abstract object. Returns a clause or None."""
    if (obj is None) != (not want["ex"]):
        return "existence"
    if obj is None:
        return None
    n = want["n"]
    val = {}
    for t, c in obj.terms.items():
        if abs(complex(c)) > 1e-12:
            val[term_to_key("Q", t, NQ)] = complex(c)
    wv = {tuple(e["t"]): complex(e["re"], e["im"]) for e in want["val"]}
    if not same_val(val, wv):
        return "terms-wrong"
    arr = want["arr"]
    byint = {tuple(e["int"]): e for e in arr}
    if obj.n_qubits != n:
        return "n_qubits-wrong"
    integer = np.asarray(obj.integer)
    if integer.ndim != 2 or integer.shape != (len(arr), n):
        return "integer-shape-wrong"
    rows = [tuple(int(v) for v in r) for r in integer]
    if set(rows) != set(byint) or len(set(rows)) != len(rows):
        return "integer-rows-wrong"
    factors = np.asarray(obj.factors)
    binary = np.asarray(obj.binary)
    swp = np.asarray(obj.binary_swap)
    if factors.shape != (len(arr),):
        return "factors-shape-wrong"
    if binary.shape != (len(arr), 2 * n):
        return "binary-shape-wrong"
    if swp.shape != (len(arr), 2 * n):
        return "binary_swap-shape-wrong"
    for i, r in enumerate(rows):
        e = byint[r]
        if abs(complex(factors[i]) - complex(e["re"], e["im"])) > TOL:
            return "factors-wrong"
        if [int(bool(v)) for v in binary[i]] != list(e["bin"]):
            return "binary-wrong"
        if [int(bool(v)) for v in swp[i]] != list(e["swp"]):
            return "binary_swap-wrong"
    # row order = order of the terms dictionary whenever the arrays are in sync with the terms
    if ordered and set(wv) == set(tuple(e["w"]) for e in arr) and len(obj.terms) == len(arr):
        byword = {tuple(e["w"]): tuple(e["int"]) for e in arr}
        order = [byword[term_to_key("Q", t, NQ)] for t in obj.terms]
        if order != rows:
            return "row-order-differs-from-terms"
        if obj.n_terms != len(arr):
            return "n_terms-wrong"
    if (obj.kernel is not None) != want["k"]:
        return "kernel-flag-wrong"
    return None


def mm_replay(chk, h0, steps):
    from tangelo.toolboxes.operators.multiformoperator import MultiformOperator, do_commute
    heap = {nm: mm_build(h0[nm]) for nm in ("m", "s", "p")}
    exp = {nm: h0[nm] for nm in ("m", "s", "p")}
    ordered = {nm: True for nm in ("m", "s", "p")}       # arrays were (re)derived from the terms by the last action on the name
    case = {"kind": "mm-history", "h0": h0, "steps": steps}
    done = 0
    for si, st in enumerate(steps):
        kind = st["kind"]
        x = heap[st["x"]]
        y = heap[st["y"]] if st["y"] else None
        site = {"imul": "__imul__", "imuls": "__imul__", "iadd": "__iadd__", "isub": "__isub__", "compress": "compress",
                "remove": "remove_terms", "mul": "__mul__", "addcollapse": "collapse", "commute": "do_commute",
                "roundtrip": "from_qubitop", "kernel": "get_kernel"}[kind]
        if kind == "compress":
            site = "compress[abs_tol=%s,n_qubits=%s]" % ({"D": "default", "T": "1e-12", "B": "1.5"}[st["flag"][0]], {"D": "default", "N": "N"}[st["flag"][1]])
        elif kind == "remove":
            site = "remove_terms[%s]" % st["flag"]
        elif kind == "roundtrip":
            site = "from_qubitop[n_qubits=%s]" % {"D": "default", "N": "N"}[st["flag"]]
        detail0 = "step %d of %d: %s(x=%s%s)%s after %s" % (si + 1, len(steps), kind, st["x"], (", y=" + st["y"]) if st["y"] else "",
                                                         " opt=%s" % (st["flag"],) if st["flag"] else "",
                                                         [s["kind"] for s in steps[:si]])
        res = None
        try:
            if kind == "imul":
                x *= y
                heap[st["x"]] = x
            elif kind == "imuls":
                x *= scalar(st["s"])
                heap[st["x"]] = x
            elif kind == "iadd":
                x += y
                heap[st["x"]] = x
            elif kind == "isub":
                x -= y
                heap[st["x"]] = x
            elif kind == "compress":
                kw = {}
                if MM_TOL[st["flag"][0]] is not None:
                    kw["abs_tol"] = MM_TOL[st["flag"][0]]
                if st["flag"][1] == "N":
                    kw["n_qubits"] = NQ
                x.compress(**kw)
            elif kind == "remove":
                rows = [tuple(int(v) for v in r) for r in np.asarray(x.integer)]
                idx = [rows.index(tuple(r)) for r in st["rows"]]
                x.remove_terms({"int": lambda: idx[0], "list": lambda: list(idx), "array": lambda: np.array(idx)}[st["flag"]]())
            elif kind == "mul":
                heap[st["r"]] = x * y
            elif kind == "addcollapse":
                u, f = MultiformOperator.collapse(np.concatenate((x.integer, y.integer)), np.concatenate((x.factors, y.factors)))
                heap[st["r"]] = MultiformOperator.from_integerop(u, f)
            elif kind == "commute":
                res = do_commute(x, y, term_resolved=(st["flag"] == "tr"))
            elif kind == "roundtrip":
                from tangelo.toolboxes.operators import QubitOperator
                q = x.qubitoperator
                if st["flag"] == "N":
                    new = MultiformOperator.from_qubitop(q, NQ)
                    new.compress(n_qubits=NQ)
                else:
                    new = MultiformOperator.from_qubitop(q)
                    # the default register width (count_qubits) is checked before compress() recomputes it; only when the
                    # handed-out operator stores no explicit zero-coefficient word (those count for count_qubits)
                    if all(abs(complex(c)) > 1e-12 for c in q.terms.values()) and \
                            (new.n_qubits != st["upd"]["n"] or np.asarray(new.integer).shape[1:] != (st["upd"]["n"],)):
                        viol(chk, "MultiformOperator.from_qubitop[n_qubits=default]:n_qubits-wrong:before-compress",
                             "%s: from_qubitop(q) built a register of %s qubits (integer shape %s), count_qubits says %d" % (
                                 detail0, new.n_qubits, np.asarray(new.integer).shape, st["upd"]["n"]), case)
                        return done
                    new.compress()
                q += QubitOperator((), 7.0)          # the operator handed out is a copy: scribbling on it must not reach x (or new)
                heap[st["r"]] = new
            elif kind == "kernel":
                res = x.get_kernel()
        except Exception as e:     # noqa: BLE001
            viol(chk, "MultiformOperator.%s:raised:%s" % (site, type(e).__name__), "%s raised %s: %s" % (detail0, type(e).__name__, str(e)[:150]), case)
            return done
        if kind != "commute":
            exp[st["r"]] = st["upd"]
            if kind in ("imul", "imuls", "iadd", "isub"):
                ordered[st["r"]] = False
            elif kind != "kernel":
                ordered[st["r"]] = True
        # ---- results --------------------------------------------------------------------------------
        if kind == "commute":
            e = st["exp"]
            if st["flag"] == "tr":
                rows = [tuple(int(v) for v in r) for r in np.asarray(x.integer)]
                want = {tuple(t["int"]): t["c"] for t in e["trw"]}
                got = [bool(v) for v in np.asarray(res).ravel()]
                if len(got) != len(rows) or any(r not in want or want[r] != g for r, g in zip(rows, got)):
                    viol(chk, "do_commute[term_resolved]:wrong:history", "%s: returned %s for rows %s, spec says %s" % (detail0, got, rows, want), case)
                    return done
            else:
                got = bool(res)
                if got and not e["zero"]:
                    viol(chk, "do_commute:true-but-noncommuting:history", "%s: True although [x, y] != 0" % detail0, case)
                    return done
                if not got and e["tw"]:
                    viol(chk, "do_commute:false-but-termwise-commuting:history", "%s: False although every pair of words commutes" % detail0, case)
                    return done
                if not got and e["zero"]:
                    viol(chk, "do_commute:false-but-commuting", "%s: False, the operators commute by cancellation between terms" % detail0, case)
        if kind == "kernel":
            allowed = set(tuple(r) for r in st["exp"]["comm"])
            k = np.asarray(res)
            bad = k.ndim != 2 or k.shape[1] != 2 * NQ or any(tuple(int(bool(v)) for v in r) not in allowed for r in k)
            if bad:
                viol(chk, "MultiformOperator.get_kernel:row-does-not-commute", "%s: kernel %s is not inside the commutant %s" % (detail0, k.tolist(), sorted(allowed)), case)
                return done
        # ---- every attribute of every object ------------------------------------------------------------
        for nm in ("m", "s", "p"):
            clause = mm_compare(heap[nm], exp[nm], ordered[nm])
            if clause:
                role = "target" if (nm == st["r"] and kind != "commute") else "bystander"
                viol(chk, "MultiformOperator.%s:%s:%s" % (site, clause, role),
                     "%s: object %s (%s): %s" % (detail0, nm, role, clause), case)
                return done
        done += 1
    return done


def machine_start(chk):
    """Starts the TLC runs of the state machine in the background; returns a handle for machine_finish."""
    import concurrent.futures as cf
    quick = chk.quick
    runs = [dict(tag="mm_d2", cfg=mm_cfg(2, "ValsMAll", "ValsSAll", tg="TargetsP" if quick else "TargetsAll"), workers=4),
            dict(tag="mm_sim", cfg=mm_cfg(8, "ValsMAll", "ValsSAll", sc="ScalarsAll", tg="TargetsAll", mt=12, bound=4096), workers=1,
                 simulate="num=%d" % (80 if quick else 1500), depth=9, seed=chk.seed + 11)]
    if not quick:
        runs.append(dict(tag="mm_d3_view", cfg=mm_cfg(3, "ValsMSmall", "ValsSSmall", export="all", view=True), workers=6))
    jobs = [dict(module="C16MultiformMachine", cfg=r["cfg"], name=WD + "/" + r["tag"], workers=r["workers"], simulate=r.get("simulate"),
                 depth=r.get("depth"), seed=r.get("seed"), timeout=7200, heap="6g") for r in runs]
    jobs.append(dict(module="C16MultiformMachine", cfg=mm_cfg(2, export="none"), name=WD + "/mm_cov", coverage=True))
    ex = cf.ThreadPoolExecutor(max_workers=1)
    return runs, ex.submit(tlc.run_many, jobs, 3)


def machine_finish(chk, handle):
    runs, fut = handle
    results = fut.result()
    cov = results[-1]
    if not cov.ok:
        raise tlc.TLCError("C16MultiformMachine (coverage run) failed: %s" % cov.out[-1500:])
    cc = cov.coverage_counts()
    acts = {a: cc.get(a, (0, 0))[1] for a in MM_ACTIONS}
    chk.part("coverage_mm", **acts)
    if any(v == 0 for v in acts.values()):
        raise tlc.TLCError("vacuity: an action of C16MultiformMachine was never taken: %s" % acts)
    for r, res in zip(runs, results):
        if not res.ok:
            raise tlc.TLCError("C16MultiformMachine: the specification itself failed (%s): %s" % (res.violated, res.out[-1500:]))
        chk.add_tlc(res, r["tag"])
        hs = res.prints("MH")
        if not hs:
            raise tlc.TLCError("no histories exported by %s" % r["tag"])
        n = 0
        for h in hs:
            n += mm_replay(chk, h["h0"], h["steps"])
        chk.add_traces(len(hs), r["tag"])
        chk.part(r["tag"], histories=len(hs), steps_compared=n)
        res.out = ""
    if hs:
        chk.sample({"multiform-history": [{k: s[k] for k in ("kind", "x", "y", "r", "flag")} for s in hs[len(hs) // 2]["steps"]]})


def run(chk):
    rng = random.Random(chk.seed)
    if os.environ.get("VERIF_NO_KNOWN"):          # development aid for mutation experiments on a tree with the proposed fixes applied
        chk.known = []
    parts = os.environ.get("C16_PARTS", "laws,heap,multiform,collapse,machine").split(",")     # development aid
    handle = machine_start(chk) if "machine" in parts else None
    if "laws" in parts:
        run_laws(chk)
    if "heap" in parts:
        run_heap(chk)
    if "multiform" in parts:
        run_multiform(chk, rng)
    if "collapse" in parts:
        run_collapse(chk, rng)
    if handle is not None:
        machine_finish(chk, handle)
    chk.cov["rule"] = ("S: ring laws + product-is-operator-product on the enumerated value domain. G: BFS of all histories "
                       "(length 1 over all class/annotation pairs, length 2 on shared operands, length 3 via distinct heaps in "
                       "thorough) and -simulate chains of length 10 of C16OperatorHeap replayed on the real classes, all names "
                       "compared after every step. V: MultiformOperator product / do_commute records judged by TLC "
                       "(all 1-qubit pairs with <= 2 terms, all 2-qubit single-word pairs, sampled 2- and 3-qubit pairs)")
    chk.assumptions += ["values over 2 modes / 2 qubits with Gaussian-integer coefficients built from {-1, 1, 2, i}; the arithmetic of the "
                        "classes is coefficient-generic (dictionary of Python numbers), so coefficient identity is not a bug dimension",
                        "the class of a result follows Python's dispatch rules for the methods the classes define today; a different "
                        "result class is reported as SPEC-DRIFT, not as a violation",
                        "mixed cases on which the documentation is silent (openfermion object on the left of an annotated Tangelo "
                        "object, QubitOperator op openfermion QubitOperator, QubitHamiltonian -,* QubitOperator) may either raise or "
                        "return the algebraic result; the frame conditions are enforced in both cases"]


def replay(chk, rec):
    case = rec["case"]
    c2 = check.Check("C16", ["quick"])
    c2.known = []
    if case["kind"] == "history":
        n = replay_history(c2, case["family"], case["h0"], case["steps"])
        for v in c2.violations:
            print("  ", v[0], "|", v[1][:300])
        print("history of %d steps: %d steps conformed" % (len(case["steps"]), n))
        return not c2.violations
    if case["kind"] == "mm-history":
        n = mm_replay(c2, case["h0"], case["steps"])
        for v in c2.violations:
            print("  ", v[0], "|", v[1][:400])
        print("MultiformOperator history of %d steps: %d steps conformed" % (len(case["steps"]), n))
        return not c2.violations
    if case["kind"] == "collapse":
        A = [(tuple(w), complex(c)) for w, c in case["A"]]
        B = [(tuple(w), complex(c)) for w, c in case["B"]]
        r = collapse_record(c2, 1, case["n"], A, B, case["dtype"])
        if r is None:
            return False
        verdicts, _ = tlc.judge("C16Multiform", [r[0]], WD + "/replay", {"M": M})
        print("collapse of %d + %d rows (%s): %d rows returned, TLC verdict bits %s" % (len(A), len(B), case["dtype"], len(r[0]["P"]), verdicts[1]))
        return verdicts[1] == 0 and not c2.violations
    if case["kind"] == "multiform":
        ta = [(tuple(w), complex(c)) for w, c in case["A"]]
        tb = [(tuple(w), complex(c)) for w, c in case["B"]]
        job, _ = mf_record(c2, 1, case["n"], ta, tb)
        verdicts, _ = tlc.judge("C16Multiform", [job], WD + "/replay", {"M": M})
        print("A=%s B=%s  product rows=%s dc=%s tr=%s  TLC verdict bits=%s" % (case["A"], case["B"], job["P"], job["dc"], job["tr"], verdicts[1]))
        for v in c2.violations:
            print("  ", v[0], "|", v[1][:300])
        return verdicts[1] == 0 and not c2.violations
    print(rec)
    return False


if __name__ == "__main__":
    check.main("C16", run, replay)
