#!/venv/bin/python
"""C17 - circuits and operators survive export/import round trips.

S: TLC model-checks spec/C17RoundTrip.tla (export enabled exactly on the supported set, refusal otherwise, the
   imported circuit equals the source incl. width; eval(repr(g)) = g; operator value preserved).
G: with Emit = TRUE the same runs print every terminal transition (the circuit / gate / operator TLC built and what
   the specification expects); the driver executes the real translate_circuit / repr+eval / translate_operator.
V: what the implementation did (status, circuit read back, source afterwards) is written to a JSON file and judged
   by TLC (spec/C17Trace.tla) with the definitions of C17Defs.tla.  Python only builds objects, runs the code and
   converts results to JSON (parameter values <-> uninterpreted tokens by exact equality).
"""
import copy
import math
import os
import random
import sys
import warnings

sys.path.insert(0, os.path.join(os.path.dirname(os.path.abspath(__file__)), "..", "harness"))
import check  # noqa: E402
import tlc  # noqa: E402
from enc import qubit_op_to_json, json_to_qubit_op, OffGrid  # noqa: E402

warnings.filterwarnings("ignore")
M = 8
PAR = int(os.environ.get("VERIF_PAR", "6"))      # parallel TLC JVMs

# parameter tokens of the specification -> concrete values (1 and 3 differ by exactly 2 pi: Tangelo's Gate.__eq__
# would call them equal, the property does not; 8 = 2 pi vs 0 likewise)
PARAMS = {0: 0.0, 1: math.pi / 4, 2: -math.pi / 2, 3: 2 * math.pi + math.pi / 4, 4: -7.5, 5: 1, 6: 1e-07,
          7: 123456.789, 8: 2 * math.pi, 9: 3, 100: "theta"}

OK_VERDICTS = {"ok", "ok-refused"}
DRIFT_VERDICTS = {"drift-unsupported-roundtrips"}


_PER_KEY = {}


def viol(chk, key, detail, case):
    """At most 3 recorded samples per key: every distinct key keeps a replay file (check.py writes the first 50)."""
    k = (id(chk), key)
    _PER_KEY[k] = _PER_KEY.get(k, 0) + 1
    if _PER_KEY[k] <= 3 or chk.match_known(key) is not None:
        chk.violation(key, detail, case)


def tok_of(value):
    """Value returned by the implementation -> token (exact equality), -1 = no parameter, -2 = not in the table."""
    if isinstance(value, str) and value == "":
        return -1
    if isinstance(value, bool):
        return -2
    for k, v in PARAMS.items():
        if isinstance(v, str) != isinstance(value, str):
            continue
        try:
            if value == v:
                return k
        except Exception:
            pass
    return -2


def gate_from_json(g, style="list"):
    from tangelo.linq import Gate
    t = list(g["t"])
    c = list(g["c"]) if g["c"] else None
    if style == "int":
        if len(t) == 1:
            t = t[0]
        if c is not None and len(c) == 1:
            c = c[0]
    p = PARAMS[g["p"]] if g["p"] != -1 else ""
    return Gate(g["name"], t, c, parameter=p, is_variational=bool(g["v"]))


def _ints(x):
    if x is None:
        return []
    if isinstance(x, (list, tuple)):
        return [int(y) if isinstance(y, int) and not isinstance(y, bool) else -99 for y in x]
    return [int(x)] if isinstance(x, int) and not isinstance(x, bool) else [-99]


def gate_to_json(g):
    return {"name": str(g.name), "t": _ints(g.target), "c": _ints(g.control), "p": tok_of(g.parameter),
            "v": bool(g.is_variational)}


def circ_to_json(c):
    return {"n": int(c.width), "gates": [gate_to_json(g) for g in c._gates]}


def gclass(g):
    return "%s/c%d" % (g["name"], len(g["c"]))


# ---- OpenQASM documents when qiskit (the exporter's back end) is absent ---------------------------------------------
QASM_NAME = {"H": "h", "X": "x", "Y": "y", "Z": "z", "S": "s", "T": "t", "RX": "rx", "RY": "ry", "RZ": "rz", "PHASE": "p",
             "CNOT": "cx", "CX": "cx", "CY": "cy", "CZ": "cz", "CRZ": "crz", "CPHASE": "cp", "SWAP": "swap", "CSWAP": "cswap"}
QASM_PI = {1: "pi/4", 2: "-pi/2"}        # qiskit spells simple fractions of pi; the importer evaluates them


def have(mod):
    try:
        __import__(mod)
        return True
    except Exception:
        return False


def render_qasm(n, gates):
    """The abstract document of the specification (width + gates) written in the OpenQASM 2.0 layout qiskit produces
    (the layout recorded in tangelo/linq/tests/test_translator_circuit.py::test_abs2openqasm)."""
    out = 'OPENQASM 2.0;\ninclude "qelib1.inc";\nqreg q[%d];\ncreg c[%d];\n' % (n, n)
    for g in gates:
        if g["name"] == "MEASURE":
            out += "measure q[%d] -> c[%d];\n" % (g["t"][0], g["t"][0])
            continue
        par = ""
        if g["p"] != -1:
            par = "(%s)" % QASM_PI.get(g["p"], repr(PARAMS[g["p"]]))
        out += "%s%s %s;\n" % (QASM_NAME[g["name"]], par, ",".join("q[%d]" % q for q in g["c"] + g["t"]))
    return out


# ---- drivers: run the real code on one TLC-generated input, return the job for the trace judge ------------------
def run_circuit(tr):
    from tangelo.linq import Circuit, translate_circuit
    fmt, n = tr["fmt"], tr["n"]
    c = Circuit([gate_from_json(g) for g in tr["obj"]], n_qubits=n)
    job = {"kind": "circuit", "fmt": fmt, "n": n, "gates": tr["obj"], "status": "refused", "istatus": "none",
           "out": {"n": 0, "gates": []}, "info": "", "writer": "tangelo"}
    try:
        if fmt == "openqasm" and not have("qiskit"):
            # export needs qiskit: exercise the importer on the document a faithful writer produces (supported gates only)
            if tr["cls"] != "supported":
                return None
            x = render_qasm(n, tr["obj"])
            job["writer"] = "reference"
        else:
            x = translate_circuit(c, fmt)
        job["status"] = "exported"
    except Exception as e:
        job["info"] = "%s: %s" % (type(e).__name__, str(e)[:120])
        x = None
    if job["status"] == "exported":
        try:
            c2 = translate_circuit(x, "tangelo", source=fmt)
            job["out"] = circ_to_json(c2)
            job["istatus"] = "imported"
        except Exception as e:
            job["istatus"] = "import-raised"
            job["info"] = "%s: %s | document: %s" % (type(e).__name__, str(e)[:120], str(x)[:200])
    job["after"] = circ_to_json(c)
    return job


def doc_type(x):
    """Python type of a document, as a label the specification can compare (ExpectedType)."""
    from tangelo.linq import Circuit
    if isinstance(x, Circuit):
        return "tangelo-circuit"
    if isinstance(x, dict):
        return "dict"
    if isinstance(x, str):
        return "str"
    mod = type(x).__module__.split(".")[0]
    return mod if mod in ("cirq", "sympy") else "%s.%s" % (type(x).__module__, type(x).__name__)


def run_convert(tr):
    """Export(fmt) -> direct conversion translate_circuit(doc, fmt2, source=fmt) -> Import(fmt2) (two-way targets) or
    comparison with the direct export (cirq, sympy)."""
    from tangelo.linq import Circuit, translate_circuit
    fmt, fmt2, n = tr["fmt"], tr["fmt2"], tr["n"]
    c = Circuit([gate_from_json(g) for g in tr["obj"]], n_qubits=n)
    job = {"kind": "convert", "fmt": fmt, "fmt2": fmt2, "n": n, "gates": tr["obj"], "status": "refused", "cstatus": "none",
           "ctype": "none", "same_direct": True, "istatus": "none", "out": {"n": 0, "gates": []}, "info": "", "writer": "tangelo"}
    x = None
    try:
        if fmt == "openqasm" and not have("qiskit"):
            if tr["cls1"] != "supported":
                return None
            x = render_qasm(n, tr["obj"])
            job["writer"] = "reference"
        else:
            x = translate_circuit(c, fmt)
        job["status"] = "exported"
    except Exception as e:
        job["info"] = "export: %s: %s" % (type(e).__name__, str(e)[:120])
    if job["status"] == "exported":
        try:
            y = translate_circuit(x, fmt2, source=fmt)
            job["cstatus"] = "converted"
            job["ctype"] = doc_type(y)
        except Exception as e:
            job["cstatus"] = "refused"
            job["info"] = "conversion: %s: %s" % (type(e).__name__, str(e)[:120])
    if job["cstatus"] == "converted":
        if fmt2 in ("cirq", "sympy"):
            try:
                direct = translate_circuit(Circuit([gate_from_json(g) for g in tr["obj"]], n_qubits=n), fmt2)
                job["same_direct"] = bool(y == direct)
            except Exception as e:
                job["same_direct"] = False
                job["info"] = "direct export raised: %s: %s" % (type(e).__name__, str(e)[:120])
        else:
            try:
                c2 = translate_circuit(y, "tangelo", source=fmt2)
                job["out"] = circ_to_json(c2)
                job["istatus"] = "imported"
            except Exception as e:
                job["istatus"] = "import-raised"
                job["info"] = "%s: %s | converted document (%s): %s" % (type(e).__name__, str(e)[:120], job["ctype"], str(y)[:160])
    job["after"] = circ_to_json(c)
    return job


def run_gate(tr):
    from tangelo.linq import Gate
    g = tr["obj"][0]
    gate = gate_from_json(g, tr["style"])
    job = {"kind": "gate", "g": g, "style": tr["style"], "status": "eval-raised", "out": g, "info": ""}
    try:
        text = repr(gate)
        job["info"] = text
        g2 = eval(text, {"Gate": Gate})
        job["out"] = gate_to_json(g2)
        job["status"] = "evaluated"
    except Exception as e:
        job["info"] += " -> %s: %s" % (type(e).__name__, str(e)[:120])
    job["after"] = gate_to_json(gate)
    return job


def run_op(tr):
    from tangelo.toolboxes.operators import QubitOperator
    from tangelo.linq.translator import translate_operator
    n, fmt = tr["n"], tr["fmt"]
    op = json_to_qubit_op(tr["obj"], M)
    job = {"kind": "op", "fmt": fmt, "n": n, "terms": tr["obj"], "status": "raised", "out": [], "offgrid": False, "info": ""}
    try:
        if fmt == "cirq":
            x = translate_operator(op, "tangelo", "cirq")
            back = translate_operator(x, "cirq", "tangelo")
        elif fmt == "openfermion":
            x = op.to_openfermion()
            back = QubitOperator.from_openfermion(x)
        else:
            x = translate_operator(op, "tangelo", fmt)
            back = translate_operator(x, fmt, "tangelo")
        job["status"] = "converted"
        try:
            job["out"] = qubit_op_to_json(back, n, M)
        except OffGrid as e:
            job["offgrid"] = True
            job["info"] = str(e)
    except Exception as e:
        job["info"] = "%s: %s" % (type(e).__name__, str(e)[:160])
    try:
        job["after"] = qubit_op_to_json(op, n, M)
    except OffGrid:
        job["after"] = []
    return job


def run_circuit_or_convert(tr):
    return run_circuit(tr) if tr.get("fmt2", "none") == "none" else run_convert(tr)


RUNNERS = {"circuit": run_circuit_or_convert, "convert": run_convert, "gate": run_gate, "op": run_op}


# ---- TLC configurations ------------------------------------------------------------------------------------------
INVS = ["AlphabetOK", "RoundTripInv", "RefuseInv", "ExportedInv", "SupportedEnabled", "UnsupportedRefused",
        "WidthSurvives", "ReprInv", "OpInv", "ConvertEnabled", "ConvertedInv"]


def cfg(kinds, N, maxlen=1, toks="TokAll", strtoks="NoStr", mc=2, fmts="FmtAll", maxterms=1, coefs="CoefSmall", emit=True, minlen=0, conv="NoConv"):
    N = {1: "W1", 2: "W12", 3: "W123"}.get(N, N)
    s = "CONSTANTS M = %d\nWidths <- %s\nMinLen = %d\nMaxLen = %d\nToks <- %s\nStrToks <- %s\nMaxCtrl = %d\nFmts <- %s\nConvTargets <- %s\nOpFmts <- OpFmtAll\n" % (
        M, N, minlen, maxlen, toks, strtoks, mc, fmts, conv)
    s += "Kinds <- %s\nMaxTerms = %d\nCoefs <- %s\nEmit = %s\nINIT Init\nNEXT Next\n" % (
        kinds, maxterms, coefs, "TRUE" if emit else "FALSE")
    return s + "".join("INVARIANT %s\n" % i for i in INVS)


def plan(chk):
    q = chk.quick
    seed = chk.seed
    runs = [
        # every single gate of the alphabet x placement x control sequence x token x width (idle qubits included)
        dict(name="singles", cfg=cfg("KCircuit", 3, 1, "TokAll", mc=2), workers=4),
        # every ordered pair over a reduced alphabet
        dict(name="pairs", cfg=cfg("KCircuit", 2 if q else 3, 2, "TokSmall", mc=1), workers=4),
        # eval(repr(g)): every gate x variational flag x index spelling x string parameter
        dict(name="repr", cfg=cfg("KGate", 3, 1, "TokAll", strtoks="StrAll", mc=2), workers=2),
        # operators: all words x coefficients (1 term), all pairs incl. duplicates that add up / cancel (2 terms)
        dict(name="ops1", cfg=cfg("KOp", 3, maxterms=1, coefs="CoefFull"), workers=2),
        dict(name="ops2", cfg=cfg("KOp", 2, maxterms=2, coefs="CoefSmall"), workers=2),
    ]
    runs.append(dict(name="singles_qasm", cfg=cfg("KCircuit", 3, 1, "TokAll", mc=1, fmts="FmtQasm"), workers=2))
    runs.append(dict(name="pairs_qasm", cfg=cfg("KCircuit", 2 if q else 3, 2, "TokSmall", mc=1, fmts="FmtQasm"), workers=2))
    # direct conversions between external formats: Export(f1) -> Convert(f1, f2) -> Import(f2) / compare with Export(f2)
    runs.append(dict(name="convert_singles", cfg=cfg("KCircuit", 3, 1, "TokOne", mc=2, fmts="FmtAll3", conv="ConvAll"), workers=4))
    runs.append(dict(name="convert_pairs", cfg=cfg("KCircuit", 2 if q else 3, 2, "TokOne", mc=1, fmts="FmtAll3", conv="ConvAll", minlen=2),
                     workers=4))
    # wide registers (widths 9..101): multi-digit qubit indices in targets and controls, many idle trailing qubits
    runs.append(dict(name="wide_singles", cfg=cfg("KCircuit", "WWide", 1, "TokOne", mc=1 if q else 2, fmts="FmtAll3"), workers=4))
    if q:   # two controls with multi-digit indices: only IonQ has them
        runs.append(dict(name="wide_singles_2c", cfg=cfg("KCircuit", "WWide2", 1, "TokOne", mc=2, fmts="FmtIonq"), workers=2))
    runs.append(dict(name="wide_sim", cfg=cfg("KCircuit", "WWide", 3, "TokSmall", mc=1, fmts="FmtAll3", minlen=2), workers=1,
                     simulate="num=%d" % (200 if q else 3000), depth=6, seed=seed + 307))
    for fi, fmt in enumerate(("FmtIonq", "FmtPq", "FmtQasm")):
        runs.append(dict(name="sim_" + fmt, cfg=cfg("KCircuit", 3, 3, "TokAll", mc=2, fmts=fmt, minlen=2), workers=1,
                         simulate="num=%d" % (1000 if q else 12000), depth=6, seed=seed + 101 + fi))
    runs.append(dict(name="sim_ops", cfg=cfg("KOp", 3, maxterms=5, coefs="CoefFull", minlen=3), workers=1,
                     simulate="num=%d" % (300 if q else 4000), depth=8, seed=seed + 211))
    if not q:
        runs.append(dict(name="triples", cfg=cfg("KCircuit", 2, 3, "TokOne", mc=1), workers=4))
    return runs


def negative_controls(jobs, verdicts):
    """Corrupt one recorded field per event type of accepted jobs: the trace spec must reject every one."""
    ctl = []

    def add(j, what):
        j = copy.deepcopy(j)
        j["id"] = 10 ** 7 + len(ctl)
        j["ctl"] = what
        ctl.append(j)
        return j

    done = set()
    for j in jobs:
        if verdicts.get(j["id"]) not in ("ok", "ok-refused"):
            continue
        k = j["kind"]
        if k == "circuit" and verdicts[j["id"]] == "ok" and j["gates"]:
            g0 = j["gates"][0]
            for what in ("width", "length", "name", "target", "control", "param", "refused", "import-raised", "source"):
                tag = (k, what)
                if tag in done:
                    continue
                if what == "control" and not g0["c"]:
                    continue
                if what == "param" and g0["p"] == -1:
                    continue
                done.add(tag)
                c = add(j, what)
                if what == "width":
                    c["out"]["n"] += 1
                elif what == "length":
                    c["out"]["gates"] = c["out"]["gates"][:-1]
                elif what == "name":
                    c["out"]["gates"][0]["name"] = "Y" if g0["name"] != "Y" else "Z"
                elif what == "target":
                    c["out"]["gates"][0]["t"] = [x + 1 for x in c["out"]["gates"][0]["t"]]
                elif what == "control":
                    c["out"]["gates"][0]["c"] = [x + 1 for x in c["out"]["gates"][0]["c"]]
                elif what == "param":
                    c["out"]["gates"][0]["p"] = 3 if g0["p"] == 1 else 1
                elif what == "refused":
                    c["status"] = "refused"
                elif what == "import-raised":
                    c["istatus"] = "import-raised"
                elif what == "source":
                    c["after"]["gates"] = c["after"]["gates"][1:]
        elif k == "circuit" and verdicts[j["id"]] == "ok-refused" and ("circuit", "accepted") not in done:
            done.add(("circuit", "accepted"))
            c = add(j, "accepted-unsupported-altered")
            c["status"], c["istatus"] = "exported", "imported"
            c["out"] = {"n": j["n"], "gates": [dict(g, name="X", c=[], p=-1) for g in j["gates"]]}
        elif k == "convert" and verdicts[j["id"]] == "ok" and j["gates"]:
            two_way = j["fmt2"] not in ("cirq", "sympy")
            for what in ("type", "conversion-refused", "target", "direct"):
                tag = (k, what)
                if tag in done or (what == "target" and not two_way) or (what == "direct" and two_way):
                    continue
                done.add(tag)
                c = add(j, what)
                if what == "type":
                    c["ctype"] = "tangelo-circuit"
                elif what == "conversion-refused":
                    c["cstatus"] = "refused"
                elif what == "target":
                    c["out"]["gates"][0]["t"] = [x + 1 for x in c["out"]["gates"][0]["t"]]
                else:
                    c["same_direct"] = False
        elif k == "gate":
            g0 = j["g"]
            for what in ("name", "target", "control", "param", "variational", "eval-raised"):
                tag = (k, what)
                if tag in done or (what == "control" and not g0["c"]) or (what == "param" and g0["p"] == -1):
                    continue
                done.add(tag)
                c = add(j, what)
                if what == "name":
                    c["out"]["name"] = "CX" if g0["name"] == "CNOT" else "CNOT"
                elif what == "target":
                    c["out"]["t"] = [x + 1 for x in g0["t"]]
                elif what == "control":
                    c["out"]["c"] = list(reversed(g0["c"])) if len(g0["c"]) > 1 else [g0["c"][0] + 5]
                elif what == "param":
                    c["out"]["p"] = -2
                elif what == "variational":
                    c["out"]["v"] = not g0["v"]
                else:
                    c["status"] = "eval-raised"
        elif k == "op" and j["terms"]:
            for what in ("coef", "letter", "dropped", "raised"):
                tag = (k, what)
                if tag in done or not j["out"]:
                    continue
                done.add(tag)
                c = add(j, what)
                if what == "coef":
                    c["out"][0]["c"]["c"] = [-x for x in c["out"][0]["c"]["c"]]
                elif what == "letter":
                    c["out"][0]["w"][0] = (c["out"][0]["w"][0] + 1) % 4
                elif what == "dropped":
                    c["out"] = c["out"][1:]
                else:
                    c["status"] = "raised"
    return ctl


def tight(j):
    """The circuit uses its last qubit (no idle trailing qubits)."""
    used = [q for g in j["gates"] for q in g["t"] + g["c"]]
    return bool(used) and max(used) + 1 == j["n"]


def key_of(j, v, bad_tight):
    """Label of the failing input class (labels only: the verdict itself is TLC's)."""
    k = j["kind"]
    if k == "circuit":
        fmt = j["fmt"] + ("-import" if j.get("writer") == "reference" else "")
        for g in j["gates"]:
            if (j["fmt"], gclass(g)) in bad_tight:          # this gate class already fails alone in a tight circuit
                return "%s:gate:%s:%s" % (fmt, gclass(g), v)
        if v == "altered-width" and not tight(j):
            return "%s:altered-width:idle-qubits" % fmt
        if len(j["gates"]) == 1:
            return "%s:gate:%s:%s" % (fmt, gclass(j["gates"][0]), v)
        return "%s:%s:interaction" % (fmt, v)
    if k == "convert":
        # a gate class that already fails alone in the plain round trip of one of the two formats keeps that key
        alias = {"CNOT": "CX", "CX": "CNOT"}
        for f in (j["fmt"], j["fmt2"]):
            for g0 in j["gates"]:
                # (an importer may hand the gate on under its documented alias: IonQ reads every controlled X as CX)
                cands = [g0] + ([dict(g0, name=alias[g0["name"]])] if g0["name"] in alias else [])
                for g in [x for x in cands if (f, gclass(x)) in bad_tight][:1]:
                    return "%s:gate:%s:%s" % (f + ("-import" if f == "openqasm" and j.get("writer") == "reference" else ""), gclass(g), v)
        pair = "%s>%s" % (j["fmt"], j["fmt2"])
        if len(j["gates"]) == 1:
            return "convert:%s:gate:%s:%s" % (pair, gclass(j["gates"][0]), v)
        return "convert:%s:%s" % (pair, v)
    if k == "gate":
        g = j["g"]
        return "repr:%s:%s%s" % (v, gclass(g), ":str" if g["p"] >= 100 else "")
    return "op:%s:%s" % (j["fmt"], v)


def run(chk):
    runs = plan(chk)
    res = tlc.run_many([dict(module="C17RoundTrip", name="c17/" + r["name"], timeout=3600,
                             **{k: v for k, v in r.items() if k != "name"}) for r in runs], max_parallel=PAR)
    trs = []
    for spec, r in zip(runs, res):
        if not r.ok:
            raise tlc.TLCError("C17RoundTrip: invariant violated in the specification itself (%s): %s\n%s" % (
                spec["name"], r.violated, r.out[-2000:]))
        chk.add_tlc(r, "S_" + spec["name"])
        t = r.prints("TR")
        for x in t:
            x["src"] = spec["name"]
        chk.part("S_" + spec["name"], emitted=len(t))
        trs += t
    # vacuity control: every action of the state machine was taken
    cov = tlc.run("C17RoundTrip", cfg("KAll", 2, 1, "TokSmall", strtoks="StrAll", mc=1, maxterms=1, emit=False, conv="ConvAll"),
                  "c17/coverage", workers=2, coverage=True)
    counts = cov.coverage_counts()
    need = ["AddGateStep", "ExportOK", "Refuse", "Import", "ConvertStep", "ConvertRefuseStep", "ReprStep", "AddTermStep", "OpRoundTrip"]
    chk.part("coverage", **{a: counts.get(a, (0, 0))[1] for a in need})
    if any(counts.get(a, (0, 0))[1] == 0 for a in need):
        raise tlc.TLCError("vacuity: an action of C17RoundTrip was never taken: %s" % counts)
    # deduplicate inputs (simulation repeats short behaviours)
    seen, uniq = set(), []
    for t in trs:
        k = (t["kind"], t["fmt"], t.get("fmt2", "none"), t["n"], t["style"], repr(t["obj"]))
        if k not in seen:
            seen.add(k)
            uniq.append(t)
    # ---- G: execute the implementation ---------------------------------------------------------------------------
    jobs = []
    skipped = 0
    for t in uniq:
        j = RUNNERS[t["kind"]](t)
        if j is None:
            skipped += 1
            continue
        j["id"] = len(jobs) + 1
        j["src"] = t["src"]
        jobs.append(j)
    # ---- V: TLC judges --------------------------------------------------------------------------------------------
    verdicts, results = tlc.judge("C17Trace", jobs, "c17/v", {"M": M}, timeout=3600, max_parallel=PAR)
    ctl = negative_controls(jobs, verdicts)
    cv, cres = tlc.judge("C17Trace", ctl, "c17/ctl", {"M": M}, max_parallel=2)
    accepted = [c["ctl"] + "/" + c["kind"] for c in ctl if cv[c["id"]] in OK_VERDICTS | DRIFT_VERDICTS]
    chk.part("negative_controls", corrupted=len(ctl), rejected=len(ctl) - len(accepted),
             kinds=sorted(set(c["kind"] + ":" + c["ctl"] for c in ctl)))
    any_bad = any(verdicts[j["id"]] not in OK_VERDICTS | DRIFT_VERDICTS for j in jobs
                  if not (j["kind"] == "circuit" and j["fmt"] == "projectq" and any(g["name"] == "MEASURE" for g in j["gates"])))
    # (too few controls is a vacuity alarm on a healthy tree only)
    if accepted or (len(ctl) < 19 and not any_bad):
        raise tlc.TLCError("binding failure: corrupted records accepted %s (controls built: %d)" % (accepted, len(ctl)))
    for r in results:
        chk.add_tlc(r)
    # singles first: attribute multi-gate failures to the gate class that already fails alone
    bad_single = set()
    for j in jobs:
        v = verdicts[j["id"]]
        if j["kind"] == "circuit" and len(j["gates"]) == 1 and tight(j) and v not in OK_VERDICTS | DRIFT_VERDICTS:
            bad_single.add((j["fmt"], gclass(j["gates"][0])))
    stat = {}
    for j in jobs:
        v = verdicts[j["id"]]
        part = "%s_%s" % (j["kind"], j.get("fmt", "repr") + (">" + j["fmt2"] if j["kind"] == "convert" else ""))
        chk.add_traces(1, part)
        stat.setdefault(part, {}).setdefault(v, 0)
        stat[part][v] += 1
        if v in OK_VERDICTS:
            continue
        if v in DRIFT_VERDICTS:
            chk.spec_drift("%s now exports and re-imports %s unchanged although the specification lists it as unsupported"
                           % (j["fmt"], sorted(set(gclass(g) for g in j["gates"]))))
            continue
        if v.startswith("malformed"):
            raise tlc.TLCError("malformed job %s" % j)
        case = {k: j[k] for k in j if k not in ("id",)}
        viol(chk, key_of(j, v, bad_single), "%s: %s %s" % (v, summary(j), j.get("info", "")), case)
    chk.part("verdicts", **stat)
    if have("qiskit"):
        chk.part("format_openqasm", status="full round trip through translate_circuit (qiskit importable)")
    else:
        chk.part("format_openqasm", skipped_inputs=skipped,
                 status="export NOT exercised (qiskit not importable); translate_c_from_openqasm exercised on documents "
                        "written by the driver's reference writer in qiskit's OpenQASM 2.0 layout (supported gates only)")
    for fmt in ("qiskit", "braket", "projectq-operator", "qulacs", "pennylane"):
        mod = {"projectq-operator": "projectq"}.get(fmt, fmt)
        try:
            __import__(mod)
            chk.part("format_" + fmt, status="package importable but no round-trip driver is bound: NOT exercised")
        except Exception:
            chk.part("format_" + fmt, status="not exercised (package %s not importable)" % mod)
    ok_circ = [j for j in jobs if j["kind"] == "circuit" and verdicts[j["id"]] == "ok" and len(j["gates"]) > 1]
    if ok_circ:
        chk.sample({"circuit": {k: ok_circ[0][k] for k in ("fmt", "n", "gates", "status", "out")}, "verdict": "ok"})
    og = [j for j in jobs if j["kind"] == "gate"]
    if og:
        chk.sample({"gate": og[len(og) // 2]["g"], "repr": og[len(og) // 2]["info"], "verdict": verdicts[og[len(og) // 2]["id"]]})
    oo = [j for j in jobs if j["kind"] == "op"]
    if oo:
        chk.sample({"op": {k: oo[-1][k] for k in ("fmt", "n", "terms", "out")}, "verdict": verdicts[oo[-1]["id"]]})
    chk.cov["rule"] = ("TLC explores C17RoundTrip: every single gate x placement x control sequence x parameter token x width, "
                       "wide registers (widths 9..101, multi-digit indices in targets and controls), "
                       "every ordered pair over a reduced alphabet, random circuits of <= 3 gates (-simulate), every gate x flag x "
                       "index spelling for repr, operators of <= 2 terms exhaustively and <= 5 terms sampled; each emitted input is "
                       "run through the real translators and the observation is judged by TLC (C17Trace)")
    chk.assumptions += [
        "parameters are uninterpreted tokens in the specification; the driver instantiates them with 0, pi/4, -pi/2, 2pi+pi/4, "
        "-7.5, int 1, 1e-07, 123456.789, 2pi, int 3 ('theta' for repr) and maps returned values back by exact equality",
        "controls are compared as sets, targets as sequences, CNOT == CX; the is_variational flag is not part of circuit "
        "equality for external formats (no format can carry it) but is part of eval(repr(g))",
        "Supported[fmt] is taken from the translators' documented dictionaries; Tangelo 'CX' (alias of CNOT) counts as supported by projectq",
        "direct conversions: cirq / sympy documents are compared with the direct export by the packages' own == (recorded boolean)",
        "OpenQASM / qiskit / braket / projectq-operator / qulacs / pennylane round trips are NOT exercised (packages absent)",
        "sympy Symbol / callable parameters are outside the repr alphabet (eval would need the symbol in scope)",
    ]


def summary(j):
    if j["kind"] == "convert":
        return "%s -> %s n=%d %s" % (j["fmt"], j["fmt2"], j["n"], [(g["name"], g["t"], g["c"], g["p"]) for g in j["gates"]])
    if j["kind"] == "circuit":
        return "%s n=%d %s" % (j["fmt"], j["n"], [(g["name"], g["t"], g["c"], g["p"]) for g in j["gates"]])
    if j["kind"] == "gate":
        return "%s style=%s" % (j["g"], j["style"])
    return "%s n=%d terms=%s" % (j["fmt"], j["n"], [(t["w"]) for t in j["terms"]])


def replay(chk, rec):
    case = rec["case"]
    kind = case["kind"]
    tr = {"kind": kind, "fmt": case.get("fmt", "repr"), "fmt2": case.get("fmt2", "none"), "n": case.get("n", 0),
          "style": case.get("style", "list"), "cls": "supported", "cls1": "supported",
          "obj": case["gates"] if kind in ("circuit", "convert") else ([case["g"]] if kind == "gate" else case["terms"])}
    j = RUNNERS[kind](tr)
    j["id"] = 1
    verdicts, _ = tlc.judge("C17Trace", [j], "c17/replay", {"M": M})
    print("input:", summary(j))
    print("observed: status=%s %s %s out=%s" % (j["status"], j.get("cstatus", "") + "/" + j.get("ctype", ""), j.get("istatus", ""), j["out"]))
    print("info:", j.get("info"))
    print("TLC verdict:", verdicts[1])
    return verdicts[1] in OK_VERDICTS | DRIFT_VERDICTS


if __name__ == "__main__":
    check.main("C17", run, replay)
