#!/venv/bin/python
"""C18 - measurement grouping and histogram processing conserve information.

Histogram part
 S: TLC model-checks spec/C18Histogram.tla: the conservation laws (Law* invariants) hold for every action on every
    histogram of the carrier and along every explored history.
 G: every explored transition ("all" mode: every histogram of the carrier x every action x every argument) and every
    behaviour (all histories of depth 3 over a small alphabet; -simulate depth 10 over the full alphabet) is replayed
    on real Histogram objects / helper functions; after EVERY step every live object is compared with the
    specification's heap: counts, n_shots, n_qubits, frequencies, parity expectation values of every Z-word
    (exact rationals from TLC), operands and constructor inputs unchanged.
 V: resampling is nondeterministic: the implementation's outcome is judged by TLC (C18Trace: total n, support within
    the original support, width unchanged, multiples of 1/n); the replay then continues from the specification's value.
Grouping part
 S: spec/C18Grouping.tla: frequency route == exact expectation for every basis/diagonal word; a first-fit grouping
    model is a partition with exact assembled value.
 V: group_qwc / map_measurements_qwc outputs for TLC-enumerated operators (seeds 0..3, n_repeat 1 and 3) are judged by
    TLC (IsQwcPartition, MapVerdict); for exact grid states TLC provides the exact distribution in every group basis
    and the exact value sum_j c_j <P_j>; exp_value_from_measurement_bases is run on those distributions.
"""
import copy
import json
import os
import zlib
import random
import sys
import warnings

sys.path.insert(0, os.path.join(os.path.dirname(os.path.abspath(__file__)), "..", "harness"))
import check  # noqa: E402
import tlc  # noqa: E402
from ring import to_complex  # noqa: E402
from enc import qubit_op_to_json, json_to_qubit_op, word_to_json, json_to_gate, OffGrid, LETTER_INV  # noqa: E402

import numpy as np  # noqa: E402

warnings.filterwarnings("ignore")
M = 8
PAR = int(os.environ.get("VERIF_PAR", "6"))      # parallel TLC JVMs
TOL = 1e-12

H_INV = ["WellFormedHeap", "LawFrame", "LawNew", "LawAdd", "LawAddReject", "LawRemove", "LawPostSelect", "LawFilter",
         "LawResample", "LawFResample", "LawFStrip", "LawFPostSelect", "LawFSplit", "LawFSplitLast", "LawAgg3", "LawAgg3Reject", "LawFSplitLastRagged", "EndOfBehaviour"]
H_ACTIONS = ["NewStep", "AddStep", "IAddStep", "RemoveStep", "PostSelectStep", "FilterStep", "ResampleStep",
             "FPostSelectStep", "FStripStep", "FSplitStep", "FSplitLastStep", "FResampleStep", "Agg3Step"]
ALL_OPS = ["new", "add", "iadd", "agg3", "remove", "postselect", "filter", "resample", "fpostselect", "fstrip", "fsplit",
           "fsplitlast", "fsplitlastragged", "fresample"]


_PER_KEY = {}


def viol(chk, key, detail, case):
    """At most 3 recorded samples per key: every distinct key keeps a replay file (check.py writes the first 50)."""
    k = (id(chk), key)
    _PER_KEY[k] = _PER_KEY.get(k, 0) + 1
    if _PER_KEY[k] <= 3 or chk.match_known(key) is not None:
        chk.violation(key, detail, case)


def hcfg(slots="S2", level=1, init="empty", nbset="NB12", maxcount=1, newcarrier=False, depth=3, resall=False,
         emit=False, emitbh=True, bigns="NoBig", bigcross=False):
    b = lambda x: "TRUE" if x else "FALSE"  # noqa: E731
    s = ("CONSTANTS\nSlots <- %s\nLevel = %d\nInitMode = \"%s\"\nNBSet <- %s\nMaxCount = %d\nNewCarrier = %s\nMaxDepth = %d\n"
         "ResampleAll = %s\nEmit = %s\nEmitBH = %s\nBigNs <- %s\nBigCross = %s\nINIT Init\nNEXT Next\n" % (
             slots, level, init, nbset, maxcount, b(newcarrier), depth, b(resall), b(emit), b(emitbh), bigns, b(bigcross)))
    return s + "".join("INVARIANT %s\n" % i for i in H_INV)


def gcfg(gn, mint, maxt, coefs, preps, emit=True):
    return ("CONSTANTS M = %d\nGN = %d\nGMinTerms = %d\nGMaxTerms = %d\nGCoefs <- %s\nGPreps <- %s\nGEmit = %s\nINIT Init\nNEXT Next\n"
            "INVARIANT FrequencyRouteExact\nINVARIANT GreedyIsPartition\nINVARIANT GreedyAssembledExact\n" % (
                M, gn, mint, maxt, coefs, preps, "TRUE" if emit else "FALSE"))


# ---- conversions between the specification's histogram values and Python dictionaries -----------------------------
def kstr(x, nb):
    return format(x, "0%db" % nb) if nb else ""


def spec_dict(h, zeros=False):
    return {kstr(i, h["nb"]): c for i, c in enumerate(h["cnt"]) if c > 0 or zeros}


def make_hist(h):
    from tangelo.toolboxes.post_processing.histogram import Histogram
    return Histogram(spec_dict(h))


def pred_fn(P):
    k = P["kind"]
    if k == "bit":
        return lambda bs: bs[P["q"]] == str(P["v"])
    if k == "parity":
        return lambda bs: bs.count("1") % 2 == P["v"]
    if k == "all":
        return lambda bs: True
    return lambda bs: False


def expected_dict(E):
    return {q: str(b) for q, b in enumerate(E) if b != 2}


def compare_obj(obj, hs, obs):
    """Real Histogram object vs the specification's value. Returns None or the failing clause."""
    nb = hs["nb"]
    if nb < 0:
        return None if obj is None else "object-exists-for-empty-slot"
    if obj is None:
        return "object-missing"
    counts = obj.counts
    for k in counts:
        if not isinstance(k, str) or len(k) != nb or set(k) - {"0", "1"}:
            return "counts:malformed-key %r (width %d)" % (k, nb)
    got = {k: v for k, v in counts.items() if v != 0}
    exp = spec_dict(hs)
    if got != exp:
        return "counts %r != %r" % (got, exp)
    if all(v != 0 for v in counts.values()):
        twin = make_hist(hs)
        if not (obj == twin) or (obj != twin if hasattr(type(obj), "__ne__") and type(obj).__ne__ is not object.__ne__ else False):
            return "__eq__ is False against a histogram with the same counts"
        if exp and nb >= 1:
            # same number of shots, different outcomes: the counts of the first key moved to its neighbour
            other = dict(exp)
            k0 = next(iter(other))
            k1 = k0[:-1] + ("1" if k0[-1] == "0" else "0")
            other[k1] = other.get(k1, 0) + other.pop(k0)
            if obj == type(obj)(other):
                return "__eq__ is True against a histogram with different counts"
    tot = obs["tot"]
    if obj.n_shots != tot:
        return "n_shots %r != %r" % (obj.n_shots, tot)
    if counts and obj.n_qubits != nb:
        return "n_qubits %r != %r" % (obj.n_qubits, nb)
    if tot > 0:
        fr = {k: v for k, v in obj.frequencies.items() if v != 0}
        if set(fr) != set(exp) or any(abs(fr[k] - exp[k] / tot) > TOL for k in exp):
            return "frequencies %r != counts/%d" % (fr, tot)
        if abs(sum(fr.values()) - 1) > 1e-9:
            return "frequencies-not-normalised"
        if nb >= 1:
            for m, num in enumerate(obs["par"]):
                term = tuple((q, "Z") for q in range(nb) if kstr(m, nb)[q] == "1")
                val = obj.get_expectation_value(term)
                if abs(val - num / tot) > 1e-10:
                    return "parity-expectation of %r: %r != %d/%d" % (term, val, num, tot)
            val2 = obj.get_expectation_value(term, 2.5 - 1j)
            if abs(val2 - (2.5 - 1j) * num / tot) > 1e-10:
                return "parity-expectation with coeff: %r != (2.5-1j)*%d/%d" % (val2, num, tot)
    return None


def compare_freqs(fd, hs):
    """Frequency dictionary returned by a helper vs the exact rationals cnt/Total of the specification."""
    if not isinstance(fd, dict):
        return "not-a-dict %r" % (fd,)
    nb = hs["nb"]
    tot = sum(hs["cnt"])
    for k in fd:
        if not isinstance(k, str) or len(k) != nb or set(k) - {"0", "1"}:
            return "malformed-key %r (width %d)" % (k, nb)
    got = {k: v for k, v in fd.items() if v != 0}
    exp = {k: c / tot for k, c in spec_dict(hs).items()} if tot else {}
    if set(got) != set(exp) or any(abs(got[k] - exp[k]) > TOL for k in exp):
        return "frequencies %r != %r" % (got, exp)
    return None


class Replayer:
    def __init__(self, chk, nslots, seed):
        self.chk = chk
        self.objs = [None] * nslots
        self.inputs = []          # (dict given to the constructor, snapshot)
        self.jobs = []            # resampling observations for the trace judge
        self.stat_fail = None     # 6-sigma band of a large resampling (statistical tail, reported separately)
        self.rng = random.Random(seed)

    def load(self, heap):
        self.objs = [make_hist(h) if h["nb"] >= 0 else None for h in heap]
        self.inputs = []

    def resample_job(self, kind, pre, n, out_dict, ctx):
        nb = pre["nb"]
        exact = True
        cnt = [0] * (2 ** nb)
        wrong_width = False
        for k, f in out_dict.items():
            v = f * n if kind == "freq" else f
            if abs(v - round(v)) > 1e-9 + 8 * abs(v) * 2.3e-16:      # a few ulps of v: (c / n) * n for n up to 2 * 10^7
                exact = False
            if not isinstance(k, str) or len(k) != nb or set(k) - {"0", "1"}:
                wrong_width = True
                continue
            cnt[int(k, 2) if nb else 0] += int(round(v))
        out = {"nb": -2 if wrong_width else nb, "cnt": cnt}
        if n >= 1000 and not wrong_width:
            # statistical tail (not decided by TLC): every outcome within 6 sigma of the distribution resampled from
            tot = sum(pre["cnt"])
            for x, c in enumerate(pre["cnt"]):
                p = c / tot
                if abs(cnt[x] / n - p) > 6 * (p * (1 - p) / n) ** 0.5 + 1.0 / n:
                    self.stat_fail = "outcome %s: frequency %.6f outside 6 sigma of %.6f at n=%d" % (kstr(x, nb), cnt[x] / n, p, n)
        self.jobs.append({"kind": "resample", "h": pre, "n": n, "out": out, "exact": exact, "ctx": ctx})

    def step(self, pre_heap, act, ret, post_heap, ctx):
        """Execute one action on the real objects. Returns None or (key, detail)."""
        from tangelo.toolboxes.post_processing.histogram import Histogram, filter_hist
        from tangelo.toolboxes.post_processing import post_selection as ps
        from tangelo.toolboxes.post_processing.bootstrapping import get_resampled_frequencies
        op = act["op"]
        o = self.objs
        try:
            if op == "new":
                h0 = act["h"]
                tot = sum(h0["cnt"])
                d = spec_dict(h0, zeros=act["zeros"])
                if act["mode"] == "freq":
                    d = {k: v / tot for k, v in d.items()}
                snap = dict(d)
                o[act["d"] - 1] = Histogram(d, n_shots=tot if act["mode"] == "freq" else 0, msq_first=act["msq"])
                self.inputs.append((d, snap))
            elif op in ("add", "iadd"):
                a, b = o[act["a"] - 1], o[act["b"] - 1]
                try:
                    if op == "add":
                        r = a + b
                    else:
                        a += b
                        r = a
                    raised = False
                except Exception as e:
                    raised, exc = True, e
                if ret["kind"] == "raise":
                    if not raised:
                        return ("%s:accepted-different-widths" % op, "histograms of different widths were aggregated")
                elif raised:
                    return ("%s:raised" % op, "%s: %s" % (type(exc).__name__, exc))
                else:
                    o[(act["d"] if op == "add" else act["a"]) - 1] = r
            elif op == "agg3":
                from tangelo.toolboxes.post_processing.histogram import aggregate_histograms
                try:
                    r = aggregate_histograms(o[act["a"] - 1], o[act["b"] - 1], o[act["c"] - 1])
                    raised = False
                except Exception as e:
                    raised, exc = True, e
                if ret["kind"] == "raise":
                    if not raised:
                        return ("agg3:accepted-different-widths", "histograms of different widths were aggregated")
                elif raised:
                    return ("agg3:raised", "%s: %s" % (type(exc).__name__, exc))
                else:
                    o[act["d"] - 1] = r
            elif op == "remove":
                o[act["a"] - 1].remove_qubit_indices(*act["I"])
            elif op == "postselect":
                o[act["a"] - 1].post_select(expected_dict(act["E"]))
            elif op == "filter":
                o[act["d"] - 1] = filter_hist(o[act["a"] - 1], pred_fn(act["P"]))
            elif op == "resample":
                np.random.seed(self.rng.randrange(2 ** 31))
                r = o[act["a"] - 1].resample(act["n"])
                self.resample_job("counts", pre_heap[act["a"] - 1], act["n"], dict(r.counts), ctx)
                if r.n_shots != act["n"]:
                    return ("resample:n_shots", "resample(%d).n_shots = %r" % (act["n"], r.n_shots))
                if self.stat_fail:
                    return ("resample:outside-6-sigma", self.stat_fail)
                o[act["d"] - 1] = make_hist(post_heap[act["d"] - 1])       # continue from the specification's choice
            elif op == "fsplitlastragged":
                ha, hb = pre_heap[act["a"] - 1], pre_heap[act["b"] - 1]
                tot = ret["tot"]
                freqs = {k: c / tot for k, c in spec_dict(ha).items()}
                freqs.update({k: c / tot for k, c in spec_dict(hb).items()})
                fsnap = dict(freqs)
                r1, r2 = ps.split_frequency_dict_for_last_n_digits(freqs, act["k"])
                exp1 = {k: c / tot for k, c in spec_dict(ret["ha"]).items()}
                exp1.update({k: c / tot for k, c in spec_dict(ret["hb"]).items()})
                exp2 = {k: c / tot for k, c in spec_dict(ret["h2"]).items()}
                for name, got, exp in (("leading part", r1, exp1), ("last-n part", r2, exp2)):
                    g = {k: v for k, v in got.items() if v != 0}
                    if set(g) != set(exp) or any(abs(g[k] - exp[k]) > TOL for k in exp):
                        return ("fsplitlastragged:result", "%s: %r != %r" % (name, g, exp))
                if freqs != fsnap:
                    return ("fsplitlastragged:input-mutated", "the frequency dictionary passed in was modified")
            else:
                freqs = o[act["a"] - 1].frequencies
                fsnap = dict(freqs)
                if op == "fpostselect":
                    bad = compare_freqs(ps.post_select(freqs, expected_dict(act["E"])), ret["h"])
                elif op == "fstrip":
                    bad = compare_freqs(ps.strip_post_selection(freqs, *act["I"]), ret["h"])
                elif op == "fsplit":
                    des = "".join(str(x) for x in act["des"]) if act["des"] else None
                    r1, r2 = ps.split_frequency_dict(freqs, list(act["idx"]), desired_measurement=des)
                    bad = compare_freqs(r1, ret["h1"])
                    bad = ("mid-circuit part: " + bad) if bad else compare_freqs(r2, ret["h2"])
                elif op == "fsplitlast":
                    r1, r2 = ps.split_frequency_dict_for_last_n_digits(freqs, act["k"])
                    bad = compare_freqs(r1, ret["h1"])
                    bad = ("leading part: " + bad) if bad else compare_freqs(r2, ret["h2"])
                    if not bad and (abs(sum(r1.values()) - 1) > 1e-9 or abs(sum(r2.values()) - 1) > 1e-9):
                        bad = "normalisation lost"
                elif op == "fresample":
                    np.random.seed(self.rng.randrange(2 ** 31))
                    r = get_resampled_frequencies(freqs, act["n"])
                    self.resample_job("freq", pre_heap[act["a"] - 1], act["n"], dict(r), ctx)
                    bad = None if abs(sum(r.values()) - 1) < 1e-9 else "resampled frequencies sum to %r" % sum(r.values())
                    if not bad and self.stat_fail:
                        return ("fresample:outside-6-sigma", self.stat_fail)
                else:
                    raise tlc.TLCError("unknown action %r" % op)
                if bad:
                    return ("%s:result" % op, bad)
                if freqs != fsnap:
                    return ("%s:input-mutated" % op, "the frequency dictionary passed in was modified")
        except tlc.TLCError:
            raise
        except Exception as e:
            return ("%s:raised" % op, "%s: %s" % (type(e).__name__, str(e)[:200]))
        return None

    def compare(self, act, post_heap, obs):
        op = act["op"]
        written = {"new": "d", "add": "d", "agg3": "d", "filter": "d", "resample": "d", "iadd": "a", "remove": "a", "postselect": "a"}.get(op)
        wslot = act[written] - 1 if written else -1
        for s, (hs, ob) in enumerate(zip(post_heap, obs)):
            if hs["nb"] >= 0 and sum(hs["cnt"]) == 0 and self.objs[s] is not None:
                # an empty histogram (everything post-selected away): only "no counts left" is defined
                if any(v != 0 for v in self.objs[s].counts.values()):
                    return ("%s:%s" % (op, "result" if s == wslot else "operand-mutated"), "slot %d: counts left %r" % (s + 1, self.objs[s].counts))
                continue
            bad = compare_obj(self.objs[s], hs, ob)
            if bad:
                obs_kind = [k for k in ("parity-expectation", "__eq__", "n_shots", "n_qubits", "frequencies") if bad.startswith(k)]
                what = obs_kind[0] if obs_kind else ("result" if s == wslot else "operand-mutated")
                return ("%s:%s" % (op, what), "slot %d: %s" % (s + 1, bad))
        for d, snap in self.inputs:
            if d != snap:
                return ("new:input-mutated", "the outcomes dictionary given to Histogram() was modified: %r -> %r" % (snap, d))
        return None


def content_seed(seed, obj):
    """Seed derived from the record itself: TLC's multi-worker output order must not influence the sampling."""
    return (zlib.crc32(json.dumps(obj, sort_keys=True).encode()) + 1000003 * seed) % (2 ** 31)


def replay_transition(chk, tr, seed, rp=None):
    rp = rp or Replayer(chk, len(tr["pre"]), seed)
    rp.load(tr["pre"])
    bad = rp.step(tr["pre"], tr["act"], tr["ret"], tr["heap"], {"tr": tr})
    if bad is None:
        bad = rp.compare(tr["act"], tr["heap"], tr["obs"])
    return bad, rp


def replay_behaviour(chk, bh, seed):
    nsl = len(bh[0]["heap"])
    rp = Replayer(chk, nsl, seed)
    pre = [{"nb": -1, "cnt": []}] * nsl
    for i, st in enumerate(bh):
        bad = rp.step(pre, st["act"], st["ret"], st["heap"], {"bh": bh[:i + 1]})
        if bad is None:
            bad = rp.compare(st["act"], st["heap"], st["obs"])
        if bad:
            return bad, i, rp
        pre = st["heap"]
    return None, len(bh), rp


# ---- end-to-end splitting: Backend.simulate with MEASURE / CMEASURE -------------------------------------------------
def scfg(sn, maxm, maxc, minmeas, maxu, cvars, emit=True):
    return ("CONSTANTS M = %d\nSN = %d\nMaxM = %d\nMaxC = %d\nMinMeas = %d\nMaxU = %d\nCVars <- %s\nSEmit = %s\nINIT Init\nNEXT Next\n"
            "INVARIANT BranchesSumToOne\nINVARIANT JointSupportOK\n" % (M, sn, maxm, maxc, minmeas, maxu, cvars, "TRUE" if emit else "FALSE"))


def prog_to_circuit(n, prog):
    from tangelo.linq import Gate, Circuit
    gates = []
    for h in prog:
        if h["name"] == "MEASURE":
            gates.append(Gate("MEASURE", h["t"][0]))
        elif h["name"] == "CMEASURE":
            gates.append(Gate("CMEASURE", h["t"][0], parameter={"0": [json_to_gate(g, M) for g in h["ctl"][0]],
                                                                 "1": [json_to_gate(g, M) for g in h["ctl"][1]]}))
        else:
            gates.append(json_to_gate(h, M))
    return Circuit(gates, n_qubits=n)


def freq_hist(fd, shots):
    """frequency dictionary -> integer histogram value [nb, cnt] (nb = -2 when the keys differ in length or are
    malformed) and whether every frequency is a multiple of 1/shots."""
    lens = set(len(k) for k in fd)
    if len(lens) != 1 or any((not isinstance(k, str)) or set(k) - {"0", "1"} for k in fd):
        return {"nb": -2, "cnt": []}, True
    nb = lens.pop()
    cnt = [0] * (2 ** nb)
    exact = True
    for k, f in fd.items():
        v = float(f) * shots
        if abs(v - round(v)) > 1e-6:
            exact = False
        cnt[int(k, 2) if nb else 0] += int(round(v))
    return {"nb": nb, "cnt": cnt}, exact


def split_kind(prog):
    m = any(h["name"] == "MEASURE" for h in prog)
    c = any(h["name"] == "CMEASURE" for h in prog)
    return "mixed" if m and c else "measure-only" if m else "cmeasure-only" if c else "no-measurement"


_sims = {}


def cirq_backend(n_shots=None):
    from tangelo.linq import get_backend
    if n_shots not in _sims:
        _sims[n_shots] = get_backend("cirq", n_shots=n_shots)
    return _sims[n_shots]


def run_split(chk, tr, seed, jobs, sampled):
    """Exact mode: every outcome string of non-zero probability as desired_meas_result, compared with TLC's exact branch
    table.  Sampled mode: the three histograms go to the trace judge (SplitJob)."""
    n, k, prog = tr["n"], tr["k"], tr["prog"]
    kind = split_kind(prog)
    case = {"kind": "split", "tr": {"n": n, "k": k, "prog": prog, "table": tr["table"]}}
    if k > 0:
        sim = cirq_backend(None)
        for row in tr["table"]:
            p = to_complex(row["p"], M).real
            if p < 1e-12:
                continue
            b = "".join(str(x) for x in row["b"])
            try:
                f, _ = sim.simulate(prog_to_circuit(n, prog), desired_meas_result=b)
                mid = dict(sim.mid_circuit_meas_freqs)
            except Exception as e:
                viol(chk, "split:exact:raised:" + kind, "desired_meas_result=%s: %s: %s" % (b, type(e).__name__, str(e)[:200]), case)
                continue
            chk.add_traces(1, "split_exact")
            bad = None
            if any(len(key) != n for key in f):
                bad = "final-key-width: keys %s for %d qubits" % (sorted(f), n)
            elif any(len(key) != k for key in mid):
                bad = "mid-key-width: keys %s for %d measurements" % (sorted(mid), k)
            elif abs(sum(f.values()) - 1) > 1e-9 or abs(sum(mid.values()) - 1) > 1e-9:
                bad = "normalisation: final sums to %r, mid-circuit to %r" % (sum(f.values()), sum(mid.values()))
            elif set(key for key, v in mid.items() if abs(v) > 1e-12) != {b}:
                bad = "mid-circuit frequencies %r for the desired outcome %s" % (mid, b)
            else:
                exp = {kstr(x, n): to_complex(e, M).real / p for x, e in enumerate(row["probs"])}
                err = max(abs(float(f.get(key, 0.0)) - v) for key, v in exp.items())
                if err > 1e-9:
                    bad = "final frequencies differ from the exact conditional distribution given %s (max err %.3g): %r" % (b, err, f)
            if bad:
                viol(chk, "split:exact:%s:%s" % (bad.split(":")[0].split(" ")[0], kind), "outcomes %s: %s" % (b, bad), case)
    if sampled and k > 0:
        shots = sampled
        sim = cirq_backend(shots)
        np.random.seed(seed)
        try:
            f, _ = sim.simulate(prog_to_circuit(n, prog), save_mid_circuit_meas=True)
            joint, e1 = freq_hist(sim.all_frequencies, shots)
            mid, e2 = freq_hist(sim.mid_circuit_meas_freqs, shots)
            fin, e3 = freq_hist(f, shots)
        except Exception as e:
            viol(chk, "split:sampled:raised:" + kind, "%s: %s" % (type(e).__name__, str(e)[:200]), case)
            return
        jobs.append({"kind": "split", "n": n, "prog": prog, "shots": shots, "joint": joint, "mid": mid, "final": fin,
                     "exact": e1 and e2 and e3, "ctx": case, "skind": kind})


# ---- grouping -------------------------------------------------------------------------------------------------------
def basis_word(basis, n):
    return word_to_json(basis, n)


def group_jobs(chk, trs):
    from tangelo.toolboxes.measurements.qubit_terms_grouping import group_qwc, map_measurements_qwc
    jobs, keep = [], {}
    for t in trs:
        n = t["n"]
        op = json_to_qubit_op(t["terms"], M)
        for seed, n_repeat in ((0, 1), (1, 1), (2, 1), (3, 1), (0, 3), (3, 3)):
            if True:
                info = {"n": n, "terms": t["terms"], "seed": seed, "n_repeat": n_repeat, "p": t["p"], "prep": t["prep"]}
                try:
                    g = group_qwc(op, seed, n_repeat)
                    mm = map_measurements_qwc(g)
                    groups = [{"b": basis_word(b, n), "terms": qubit_op_to_json(v, n, M)} for b, v in g.items()]
                    mp = [{"w": word_to_json(w, n), "bases": [basis_word(b, n) for b in bs]} for w, bs in mm.items()]
                except OffGrid as e:
                    viol(chk, "group_qwc:coefficient-changed", "a coefficient left the operator's own values: %s" % e, {"group": info})
                    continue
                except Exception as e:
                    viol(chk, "group_qwc:raised", "%s: %s" % (type(e).__name__, str(e)[:200]), {"group": info})
                    continue
                jid = len(jobs) + 1
                withd = (seed == 0 and n_repeat == 1) or (seed == 3 and n_repeat == 3)
                jobs.append({"id": jid, "kind": "group", "n": n, "terms": t["terms"], "groups": groups, "map": mp,
                             "withD": withd, "prep": t["prep"]})
                keep[jid] = (g, info)
    return jobs, keep


def check_expectations(chk, jobs, keep, results):
    from tangelo.toolboxes.measurements.qubit_terms_grouping import exp_value_from_measurement_bases
    byid = {j["id"]: j for j in jobs}
    n_ok = 0
    for r in results:
        for d in r.prints("D"):
            g, info = keep[d["id"]]
            n = info["n"]
            hists = {}
            for (basis, _), dist in zip(g.items(), d["dists"]):
                fr = {}
                for x, e in enumerate(dist):
                    z = to_complex(e, M)
                    if abs(z) > 1e-15:
                        fr[kstr(x, n)] = z.real
                hists[basis] = fr
            exact = to_complex(d["exact"], M)
            try:
                val = exp_value_from_measurement_bases(g, hists)
            except Exception as e:
                viol(chk, "exp_value_from_measurement_bases:raised", "%s: %s" % (type(e).__name__, e), {"group": info})
                continue
            chk.add_traces(1, "exp_value")
            if abs(complex(val) - exact) > 1e-9:
                viol(chk, "exp_value_from_measurement_bases:value", "assembled %r != exact sum_j c_j<P_j> = %r" % (val, exact),
                              {"group": info})
            else:
                n_ok += 1
    chk.part("exp_value", ok=n_ok)
    _ = byid


def group_controls(jobs, verdicts):
    ctl = []

    def add(j, what):
        c = copy.deepcopy(j)
        c["id"] = 10 ** 7 + len(ctl)
        c["ctl"] = what
        c["withD"] = False
        ctl.append(c)
        return c

    done = set()
    for j in jobs:
        if verdicts.get(j["id"]) != "ok" or len(j["groups"]) < 2:
            continue
        g0, g1 = j["groups"][0], j["groups"][1]
        nonid = [t for t in g0["terms"] if any(t["w"])]
        if "move" not in done and nonid and not all(a == 0 or a == b for a, b in zip(nonid[0]["w"], g1["b"])):
            done.add("move")
            c = add(j, "term-moved-to-incompatible-basis")
            t = [x for x in c["groups"][0]["terms"] if any(x["w"])][0]
            c["groups"][0]["terms"].remove(t)
            c["groups"][1]["terms"].append(t)
        if "drop" not in done:
            done.add("drop")
            c = add(j, "term-dropped")
            c["groups"][0]["terms"] = c["groups"][0]["terms"][1:]
        if "sign" not in done:
            done.add("sign")
            c = add(j, "coefficient-sign")
            c["groups"][1]["terms"][0]["c"]["c"] = [-x for x in c["groups"][1]["terms"][0]["c"]["c"]]
        if "dup" not in done:
            done.add("dup")
            c = add(j, "term-in-two-groups")
            c["groups"][1]["terms"].append(copy.deepcopy(c["groups"][0]["terms"][0]))
        if "map" not in done and j["map"] and len(j["map"][0]["bases"]) >= 1:
            done.add("map")
            c = add(j, "map-basis-dropped")
            c["map"][0]["bases"] = c["map"][0]["bases"][1:]
        if "mapkey" not in done and len(j["map"]) >= 2:
            done.add("mapkey")
            c = add(j, "map-key-dropped")
            c["map"] = c["map"][1:]
    return ctl


# ---- main -------------------------------------------------------------------------------------------------------------
def run(chk):
    q = chk.quick
    seed = chk.seed
    # ===== TLC: specification runs =====================================================================================
    hruns = [
        dict(name="h_paths", cfg=hcfg(depth=3 if q else 4), workers=4, kind="bh"),
        dict(name="h_all_012", cfg=hcfg(level=2, init="all", nbset="NB012", maxcount=2 if q else 3, depth=1, resall=True,
                                        emit=True, emitbh=False), workers=4, kind="tr"),
        dict(name="h_all_3", cfg=hcfg(level=2, init="all", nbset="NB3", maxcount=1, depth=1, emit=True, emitbh=False),
             workers=4, kind="tr"),
        dict(name="h_new", cfg=hcfg(level=2, init="empty", nbset="NB123", maxcount=1 if q else 2, newcarrier=True, depth=1,
                                    emit=True, emitbh=False), workers=2, kind="tr"),
        # shot numbers on the 10^7 chunk boundary of the sampler (each call costs seconds)
        dict(name="h_big", cfg=hcfg(level=2, init="big", depth=1, emit=True, emitbh=False, bigns="BigQuick" if q else "BigFull",
                                    bigcross=not q), workers=1, kind="tr"),
        dict(name="h_sim", cfg=hcfg(slots="S3", level=2, depth=10), workers=1, simulate="num=%d" % (60 if q else 1500),
             depth=12, seed=seed + 7, kind="bh"),
    ]
    if not q:
        hruns.append(dict(name="h_all_3b", cfg=hcfg(level=2, init="all", nbset="NB3", maxcount=2, depth=1, emit=False, emitbh=False),
                          workers=6, kind="s"))
    gruns = [
        dict(name="g_bfs", cfg=gcfg(2, 0, 2, "GCoefSmall", "GPrepOne" if q else "GPrepAll"), workers=4),
        dict(name="g_sim", cfg=gcfg(3, 3, 5, "GCoefFull", "GPrepAll"), workers=1, simulate="num=%d" % (150 if q else 2500),
             depth=8, seed=seed + 13),
    ]
    if not q:
        gruns.append(dict(name="g_bfs3", cfg=gcfg(3, 0, 1, "GCoefFull", "GPrepAll"), workers=2))
    sruns = [
        dict(name="s_bfs", cfg=scfg(2, 2, 2, 0, 0, "CV1" if q else "CV123"), workers=4),
        dict(name="s_sim", cfg=scfg(2, 2, 2, 2, 2, "CV123"), workers=1, simulate="num=%d" % (60 if q else 800), depth=10, seed=seed + 29),
    ]
    if not q:
        sruns.append(dict(name="s_bfs1", cfg=scfg(1, 2, 2, 0, 1, "CV123"), workers=2))
    alljobs = [dict(module="C18Histogram", name="c18/" + r["name"], timeout=7200, heap="6g",
                    **{k: v for k, v in r.items() if k not in ("name", "kind")}) for r in hruns]
    alljobs += [dict(module="C18Grouping", name="c18/" + r["name"], timeout=7200, **{k: v for k, v in r.items() if k != "name"})
                for r in gruns]
    alljobs += [dict(module="C18Split", name="c18/" + r["name"], timeout=7200, **{k: v for k, v in r.items() if k != "name"})
                for r in sruns]
    alljobs.append(dict(module="C18Histogram", name="c18/coverage", workers=2, coverage=True,
                        cfg=hcfg(slots="S2", level=2, depth=2, emitbh=False)))
    import time
    t0 = time.time()
    res = tlc.run_many(alljobs, max_parallel=PAR)
    t_tlc = time.time() - t0
    hres, gres, cov = res[:len(hruns)], res[len(hruns):len(hruns) + len(gruns)], res[-1]
    sres = res[len(hruns) + len(gruns):len(hruns) + len(gruns) + len(sruns)]
    for spec, r in zip(hruns + gruns + sruns, hres + gres + sres):
        if not r.ok:
            raise tlc.TLCError("C18 specification: a conservation law / S-invariant fails in the specification itself (%s): %s\n%s"
                               % (spec["name"], r.violated, r.out[-2000:]))
        chk.add_tlc(r, "S_" + spec["name"])
    counts = cov.coverage_counts()
    chk.part("coverage", **{a: counts.get(a, (0, 0))[1] for a in H_ACTIONS})
    if not cov.ok or any(counts.get(a, (0, 0))[1] == 0 for a in H_ACTIONS):
        raise tlc.TLCError("vacuity: an action of C18Histogram was never taken: %s" % counts)

    # ===== G: replay on real Histogram objects =========================================================================
    rjobs = []
    n_tr = n_bh = n_steps = 0
    ops_seen = {}
    sample_tr = None
    for spec, r in zip(hruns, hres):
        if spec["kind"] == "tr":
            trs = r.prints("TR")
            chk.part("S_" + spec["name"], emitted=len(trs))
            for i, tr in enumerate(trs):
                bad, rp = replay_transition(chk, tr, content_seed(seed, [tr["pre"], tr["act"]]))
                rjobs += rp.jobs
                n_tr += 1
                ops_seen[tr["act"]["op"]] = ops_seen.get(tr["act"]["op"], 0) + 1
                chk.add_traces(1, "transitions")
                if bad:
                    viol(chk, "hist:" + bad[0], bad[1], {"kind": "transition", "tr": tr})
                elif sample_tr is None and tr["act"]["op"] == "fsplit":
                    sample_tr = tr
        elif spec["kind"] == "bh":
            bhs = r.prints("BH")
            chk.part("S_" + spec["name"], emitted=len(bhs))
            for i, bh in enumerate(bhs):
                bad, upto, rp = replay_behaviour(chk, bh, content_seed(seed, [st["act"] for st in bh]))
                rjobs += rp.jobs
                n_bh += 1
                n_steps += upto
                for st in bh[:upto]:
                    ops_seen[st["act"]["op"]] = ops_seen.get(st["act"]["op"], 0) + 1
                chk.add_traces(1, "behaviours")
                if bad:
                    viol(chk, "hist:" + bad[0], "step %d: %s" % (upto + 1, bad[1]), {"kind": "behaviour", "bh": bh[:upto + 1]})
            if bhs and spec["name"] == "h_sim":
                chk.sample({"behaviour": [s["act"] for s in bhs[0]]})
    never = [o for o in ALL_OPS if not ops_seen.get(o)]
    if never:
        raise tlc.TLCError("vacuity: actions never replayed on the implementation: %s" % never)
    t_replay = time.time() - t0 - t_tlc
    chk.part("replay", transitions=n_tr, behaviours=n_bh, behaviour_steps=n_steps, by_action=ops_seen)
    if sample_tr:
        chk.sample({"transition": {k: sample_tr[k] for k in ("pre", "act", "ret")}})
    # comparator sensitivity (negative control of the G binding): a perturbed expectation must be noticed
    ctl_seen = 0
    for spec, r in zip(hruns, hres):
        if spec["name"] != "h_all_012":
            continue
        seen_ops = set()
        for tr in r.prints("TR"):
            op = tr["act"]["op"]
            if op in seen_ops or tr["ret"]["kind"] in ("raise", "nondet"):
                continue
            t2 = copy.deepcopy(tr)
            if op in ("fpostselect", "fstrip", "fsplit", "fsplitlast"):
                hh = t2["ret"]["h"] if "h" in t2["ret"] else t2["ret"]["h2"]
                if len(hh["cnt"]) < 2:
                    continue            # a one-outcome distribution cannot be perturbed (frequencies are normalised)
                i = [x for x, c in enumerate(hh["cnt"]) if c > 0][0]
                hh["cnt"][(i + 1) % len(hh["cnt"])] += 1
            else:
                s = t2["act"].get("d", t2["act"].get("a")) - 1
                t2["heap"][s]["cnt"][-1] += 1
                t2["obs"][s]["tot"] += 1
            seen_ops.add(op)
            bad, _ = replay_transition(chk, t2, 1)
            ctl_seen += 1
            if not bad:
                raise tlc.TLCError("binding failure: perturbed expectation for %s not noticed by the replay comparator" % op)
    chk.part("negative_controls_replay", perturbed=ctl_seen)
    if ctl_seen < 8 and not chk.violations:
        raise tlc.TLCError("too few replay controls (%d)" % ctl_seen)

    # ===== V: resampling observations + grouping, judged by TLC ========================================================
    # ===== end-to-end splitting through Backend.simulate (cirq) =========================================================
    sjobs, seen, n_prog = [], set(), {}
    for spec, r in zip(sruns, sres):
        t = r.prints("TR")
        chk.part("S_" + spec["name"], emitted=len(t))
        for tr in t:
            key = json.dumps(tr["prog"], sort_keys=True)
            if key in seen:
                continue
            seen.add(key)
            cs = content_seed(seed, tr["prog"])
            n_prog[split_kind(tr["prog"])] = n_prog.get(split_kind(tr["prog"]), 0) + 1
            run_split(chk, tr, cs, sjobs, 40 if (not q or cs % 2 == 0) else 0)
    for x, j in enumerate(sjobs):
        j["id"] = 2 * 10 ** 6 + x
    chk.part("split", programs=n_prog, sampled=len(sjobs))
    if not all(n_prog.get(kd) for kd in ("measure-only", "cmeasure-only", "mixed")):
        raise tlc.TLCError("vacuity: split programs do not cover measure-only / cmeasure-only / mixed: %s" % n_prog)
    t_split = time.time()
    gtrs = []
    for spec, r in zip(gruns, gres):
        t = r.prints("TR")
        chk.part("S_" + spec["name"], emitted=len(t))
        gtrs += t
    seen, ops = set(), []
    for t in gtrs:
        k = repr((t["n"], t["p"], t["terms"]))
        if k not in seen:
            seen.add(k)
            ops.append(t)
    gjobs, keep = group_jobs(chk, ops)
    # resample jobs: deduplicate
    seen, rj = set(), []
    for j in rjobs:
        k = repr((j["h"], j["n"], j["out"], j["exact"]))
        if k not in seen:
            seen.add(k)
            j = dict(j)
            ctx = j.pop("ctx")
            j["id"] = 10 ** 6 + len(rj)
            rj.append((j, ctx))
    jobs = gjobs + [j for j, _ in rj] + [{k: v for k, v in j.items() if k not in ("ctx", "skind")} for j in sjobs]
    verdicts, results = tlc.judge("C18Trace", jobs, "c18/v", {"M": M}, timeout=7200, max_parallel=PAR)
    for r in results:
        chk.add_tlc(r)
    stat = {}
    for j in gjobs:
        v = verdicts[j["id"]]
        stat[v] = stat.get(v, 0) + 1
        chk.add_traces(1, "group_qwc")
        if v == "spec-inconsistent":
            raise tlc.TLCError("C18Trace: assembled value of an accepted partition differs from the exact value (spec bug)")
        if v != "ok":
            fn = "map_measurements_qwc" if v.startswith("map-") else "group_qwc"
            viol(chk, "%s:%s" % (fn, v), "%s for operator %s seed=%d n_repeat=%d" % (
                v, [t["w"] for t in j["terms"]], keep[j["id"]][1]["seed"], keep[j["id"]][1]["n_repeat"]), {"group": keep[j["id"]][1]})
    chk.part("timing", tlc_spec_runs_s=round(t_tlc, 1), replay_s=round(t_replay, 1), split_s=round(t_split - t0 - t_tlc - t_replay, 1),
             group_and_judge_s=round(time.time() - t_split, 1))
    chk.part("group_verdicts", **stat)
    rstat = {}
    for j, ctx in rj:
        v = verdicts[j["id"]]
        rstat[v] = rstat.get(v, 0) + 1
        chk.add_traces(1, "resample")
        if v != "ok":
            viol(chk, "hist:resample:" + v, "%s: resampling %s to n=%d gave %s" % (v, j["h"], j["n"], j["out"]),
                          dict(ctx, kind="resample"))
    chk.part("resample_verdicts", **rstat)
    sstat = {}
    for j in sjobs:
        v = verdicts[j["id"]]
        sstat[v] = sstat.get(v, 0) + 1
        chk.add_traces(1, "split_sampled")
        if v != "ok":
            viol(chk, "split:sampled:%s:%s" % (v, j["skind"]), "%s: joint=%s mid=%s final=%s" % (v, j["joint"], j["mid"], j["final"]), j["ctx"])
    chk.part("split_verdicts", **sstat)
    check_expectations(chk, gjobs, keep, results)
    # trace-corruption controls
    ctl = group_controls(gjobs, verdicts)
    okr = [j for j, _ in rj if verdicts[j["id"]] == "ok" and sum(1 for c in j["h"]["cnt"] if c) < len(j["h"]["cnt"])]
    if okr:
        base = okr[0]
        z = [i for i, c in enumerate(base["h"]["cnt"]) if c == 0][0]
        nz = [i for i, c in enumerate(base["out"]["cnt"]) if c > 0][0]
        c1 = copy.deepcopy(base)
        c1.update(id=10 ** 7 + 500, ctl="resample-total")
        c1["out"]["cnt"][nz] += 1
        c2 = copy.deepcopy(base)
        c2.update(id=10 ** 7 + 501, ctl="resample-outside-support")
        c2["out"]["cnt"][nz] -= 1
        c2["out"]["cnt"][z] += 1
        c3 = copy.deepcopy(base)
        c3.update(id=10 ** 7 + 502, ctl="resample-inexact", exact=False)
        ctl += [c1, c2, c3]
    oks = ([j for j in sjobs if verdicts[j["id"]] == "ok" and j["skind"] == "mixed" and j["mid"]["nb"] >= 1]
           or [j for j in sjobs if verdicts[j["id"]] == "ok" and j["mid"]["nb"] >= 1])
    if oks:
        base = {k: v for k, v in oks[0].items() if k not in ("ctx", "skind")}
        nz = [x for x, c in enumerate(base["joint"]["cnt"]) if c > 0][0]
        for what in ("split-mid-lost-a-shot", "split-final-keeps-measurement-bits", "split-mid-misses-cmeasure-bits", "split-final-misaligned"):
            c = copy.deepcopy(base)
            c.update(id=10 ** 7 + 600 + len(ctl), ctl=what)
            if what == "split-mid-lost-a-shot":
                i = [x for x, v in enumerate(c["mid"]["cnt"]) if v > 0][0]
                c["mid"]["cnt"][i] -= 1
            elif what == "split-final-keeps-measurement-bits":
                c["final"] = {"nb": c["final"]["nb"] + 1, "cnt": c["final"]["cnt"] + [0] * len(c["final"]["cnt"])}
            elif what == "split-mid-misses-cmeasure-bits":
                half = len(c["mid"]["cnt"]) // 2
                c["mid"] = {"nb": c["mid"]["nb"] - 1, "cnt": [c["mid"]["cnt"][2 * x] + c["mid"]["cnt"][2 * x + 1] for x in range(half)]}
            else:
                c["final"]["cnt"] = list(reversed(c["final"]["cnt"]))
                if c["final"]["cnt"] == base["final"]["cnt"]:
                    c["final"]["cnt"][0] += 1
                    c["final"]["cnt"][-1] -= 1
            ctl.append(c)
        _ = nz
    cv, _ = tlc.judge("C18Trace", ctl, "c18/ctl", {"M": M}, max_parallel=2)
    accepted = [c["ctl"] for c in ctl if cv[c["id"]] == "ok"]
    chk.part("negative_controls_trace", corrupted=len(ctl), rejected=len(ctl) - len(accepted), kinds=[c["ctl"] for c in ctl])
    # (too few controls is a vacuity alarm on a healthy tree only: with violations at hand the accepted jobs the
    #  controls are derived from may legitimately be missing)
    if accepted or (len(ctl) < 11 and not chk.violations):
        raise tlc.TLCError("binding failure: corrupted records accepted %s (controls built: %d)" % (accepted, len(ctl)))
    if gjobs:
        j = gjobs[len(gjobs) // 2]
        chk.sample({"group_qwc": {"terms": [t["w"] for t in j["terms"]], "groups": [{"b": g["b"], "words": [t["w"] for t in g["terms"]]} for g in j["groups"]]},
                    "verdict": verdicts[j["id"]]})
    chk.cov["rule"] = ("TLC explores C18Histogram (every histogram of the carrier x every action x every argument; every history of "
                       "depth 3 over a small alphabet; -simulate depth 10) and C18Grouping (operators of <= 2 terms exhaustively on "
                       "2 qubits, 3..5 terms sampled on 3 qubits, three exact state preparations); transitions/behaviours are replayed "
                       "on real Histogram objects with every live object compared after every step; grouping outputs and resampling "
                       "outcomes are judged by TLC (C18Trace); C18Split builds programs with MEASURE/CMEASURE in every order and "
                       "Backend.simulate's mid-circuit/final split is compared with the exact branch table (exact) and judged by TLC (sampled)")
    chk.assumptions += [
        "a key with count 0 and an absent key denote the same histogram (the abstraction drops zero entries)",
        "actions on an empty histogram (every shot post-selected away) are not explored: frequencies / n_qubits are undefined there; "
        "the functional helpers are explored only where the selected mass is positive (renormalisation is part of their contract)",
        "Histogram(frequencies, n_shots) is exercised with frequencies that are exact multiples of 1/n_shots",
        "index sets / expected-outcome dictionaries are valid (indices inside the key width)",
        "resampling is judged on its support/total/width contract and the 1/n grid; at n >= 1000 a 6-sigma band per outcome is "
        "added (statistical tail)",
        "splitting through Backend.simulate: cirq backend, 2 qubits, CMEASURE with dictionary parameters, no nesting; exact mode "
        "is a float comparison (1e-9) with TLC's exact conditional distribution",
        "exp_value_from_measurement_bases: float comparison (1e-9) with the exact value TLC computed; states on the 2pi/8 grid",
        "group_qwc with n_repeat > 1 re-seeds from the OS: any outcome must be a partition, which is what is judged",
    ]


def replay(chk, rec):
    case = rec["case"]
    kind = case.get("kind")
    if kind == "transition":
        bad, rp = replay_transition(chk, case["tr"], 1)
        print("transition", case["tr"]["act"], "->", bad)
        return bad is None
    if kind == "behaviour":
        bad, upto, rp = replay_behaviour(chk, case["bh"], 1)
        print("behaviour", [s["act"] for s in case["bh"]], "->", bad, "at step", upto + 1)
        return bad is None
    if kind == "resample":
        if "tr" in case:
            bad, rp = replay_transition(chk, case["tr"], 1)
        else:
            bad, upto, rp = replay_behaviour(chk, case["bh"], 1)
        jobs = [dict({k: v for k, v in j.items() if k != "ctx"}, id=i + 1) for i, j in enumerate(rp.jobs)]
        verdicts, _ = tlc.judge("C18Trace", jobs, "c18/replay", {"M": M})
        print("resampling outcomes judged by TLC:", [(j["out"], verdicts[j["id"]]) for j in jobs], "replay:", bad)
        return bad is None and all(v == "ok" for v in verdicts.values())
    if kind == "split":
        c2 = check.Check("C18", ["quick"])
        c2.known = []
        sj = []
        run_split(c2, case["tr"], content_seed(chk.seed, case["tr"]["prog"]), sj, 40)
        jobs = [dict({k: v for k, v in j.items() if k not in ("ctx", "skind")}, id=i + 1) for i, j in enumerate(sj)]
        verdicts, _ = tlc.judge("C18Trace", jobs, "c18/replay", {"M": M}) if jobs else ({}, None)
        print("program:", [(h["name"], h["t"]) for h in case["tr"]["prog"]])
        print("exact mode:", [v[:2] for v in c2.violations] or "conforms", "| sampled mode (TLC verdict):", list(verdicts.values()))
        return not c2.violations and all(v == "ok" for v in verdicts.values())
    if "group" in case:
        info = case["group"]
        c2 = check.Check("C18", ["quick"])
        c2.known = []
        t = {"n": info["n"], "p": info["p"], "prep": info["prep"], "terms": info["terms"]}
        jobs, keep = group_jobs(c2, [t])
        for j in jobs:
            j["withD"] = True
        verdicts, results = tlc.judge("C18Trace", jobs, "c18/replay", {"M": M})
        check_expectations(c2, jobs, keep, results)
        print("group verdicts:", sorted(set(verdicts.values())), "violations:", [v[:2] for v in c2.violations])
        return all(v == "ok" for v in verdicts.values()) and not c2.violations
    print(rec)
    return False


if __name__ == "__main__":
    check.main("C18", run, replay)
