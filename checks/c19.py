#!/venv/bin/python
"""C19 - noisy simulation applies exactly the specified channels.

S: TLC checks spec/Density.tla (DensityCheck.tla: channels are trace preserving / Hermiticity preserving, p = 0 is the
   identity, Depol(p) on k qubits = uniform Pauli mixture = cirq.depolarize(p(4^k-1)/4^k, k) for k <= 3) and model-checks
   spec/C19Noise.tla: the NoiseModel object (AddError accepted / rejected), TLC-built circuits over {X, H, RZ, CNOT, CRZ,
   CSWAP, Toffoli (CNOT / CX with two controls), doubly controlled RZ} and the noisy run over exact density matrices
   (invariants: trace 1, Hermitian, no non-zero channel applied => rho = |psi><psi| of the noiseless run).
G: every finished behaviour (calls, circuit, final rho, tr(rho P) for all Pauli words, tr(rho H)) is replayed:
   add_quantum_error call by call (malformed ones must raise and leave the model unchanged), translate_circuit(...,
   noise_model) + cirq.DensityMatrixSimulator: rho compared entrywise (1e-9); get_backend("cirq", n_shots, noise_model):
   density matrix, sampled frequencies (6 sigma of diag rho), expectation_value_from_prepared_state = tr(rho H) (1e-9),
   get_expectation_value / get_variance within 6 sigma; zero-rate == noiseless backend; every entry point receives the
   behaviour's initial_statevector (|0..0> or an entangled exact ring state chosen by Init); n_shots in {1, 10, 100, 2000};
   circuits with MEASURE: save_mid_circuit_meas / desired_meas_result / one shot + state under noise against the spec's
   outcome-resolved states rho_d; backend configurations without support /
   without n_shots must refuse a noise model.
"""
import copy
import math
import os
import random
import sys
import warnings

sys.path.insert(0, os.path.join(os.path.dirname(os.path.abspath(__file__)), "..", "harness"))
import check  # noqa: E402
import tlc  # noqa: E402
from ring import to_complex  # noqa: E402
from enc import json_to_gate, json_to_qubit_op  # noqa: E402

import numpy as np  # noqa: E402

M = 8
TOL = 1e-9
MULTI_CNOT = "noise:multi-controlled-CNOT"

CFG = """CONSTANTS M = 8
N = %(N)d
MaxCalls = %(calls)d
MaxGates = %(gates)d
RateSet <- %(rates)s
WithBad = %(bad)s
WithMeasure = %(meas)s
Budget = %(budget)d
Sources = "%(src)s"
Focus = %(focus)s
SameGate = %(same)s
Export = TRUE
INIT Init
NEXT Next
INVARIANT TracePreserved
INVARIANT Hermitian
INVARIANT NoNoiseIsNoiseless
INVARIANT DiagReal
INVARIANT ModelWellFormed
INVARIANT ModelIsAcceptedCalls
INVARIANT CondSumsToRho
INVARIANT AlphabetOK
"""
ACTIONS = ["AddError", "EndModel", "AddGate", "EndCircuit", "Step", "Finish"]


def tf(b):
    return "TRUE" if b else "FALSE"


def cfg(N, calls, gates, rates="RatesFull", bad=False, meas=False, budget=20, focus=True, same=False, src="both"):
    return CFG % dict(src=src, N=N, calls=calls, gates=gates, rates=rates, bad=tf(bad), meas=tf(meas), budget=budget, focus=tf(focus), same=tf(same))



class Res:
    """Light-weight view of a TLC result (what the driver needs); cacheable for mutation experiments
    (VERIF_DEV_CACHE=<dir> is a development aid only: the registered commands never set it)."""
    def __init__(self, d):
        self.__dict__.update(d)

    def prints(self, tag):
        return self.p.get(tag, [])

    def tuples(self, tag):
        return self.t.get(tag, [])

    def coverage_counts(self):
        return self.cov


def run_jobs(jobs, tags, ttags, cache_name, max_parallel=int(os.environ.get("VERIF_MAXPAR", "10"))):
    import json as _json
    cdir = os.environ.get("VERIF_DEV_CACHE")
    path = os.path.join(cdir, cache_name + ".json") if cdir else None
    if path and os.path.exists(path):
        with open(path) as f:
            return [Res(d) for d in _json.load(f)]
    rs = tlc.run_many(jobs, max_parallel=max_parallel)
    out = [dict(name=r.name, ok=r.ok, violated=r.violated, out=r.out[-2500:], generated=r.generated, distinct=r.distinct, wall=r.wall,
                p={t: r.prints(t) for t in tags}, t={t: r.tuples(t) for t in ttags}, cov=r.coverage_counts()) for r in rs]
    if path:
        os.makedirs(cdir, exist_ok=True)
        with open(path, "w") as f:
            _json.dump(out, f)
    return [Res(d) for d in out]

def bitstr(i, n):
    return format(i, "0%db" % n)


def rate(r):
    return r[0] / float(2 ** r[1])


def py_params(kind, v):
    return [rate(r) for r in v] if kind == "list" else rate(v[0])


def prepare(nr):
    n = nr["n"]
    d = 2 ** n
    rho = np.zeros((d, d), dtype=complex)
    for c in range(d):
        for r in range(d):
            rho[r, c] = to_complex(nr["rho"][c][r], M)
    nr["_rho"] = rho
    nr["_tw"] = {tuple(x["w"]): to_complex(x["v"], M) for x in nr["tw"]}
    nr["_ops"] = [(o["terms"], to_complex(o["v"], M)) for o in nr["ops"]]
    nr["_psi"] = np.array([to_complex(e, M) for e in nr["psi"]], dtype=complex)
    nr["_s0"] = np.array([to_complex(e, M) for e in nr["s0"]], dtype=complex)
    nr["_zero"] = bool(abs(nr["_s0"][0] - 1) < 1e-15)
    nr["_cond"] = {}
    for c in nr.get("cond", []):
        m = np.zeros((d, d), dtype=complex)
        for cc in range(d):
            for r in range(d):
                m[r, cc] = to_complex(c["rho"][cc][r], M)
        nr["_cond"]["".join(str(x) for x in c["d"])] = m
    return nr


def init_vec(nr):
    """initial_statevector option: None for |0..0> (default), the exact ring state otherwise."""
    return None if nr["_zero"] else np.array(nr["_s0"], dtype=complex)


def strip(nr):
    return {k: v for k, v in nr.items() if not k.startswith("_") and k not in ("tw",)}


def circuit_of(nr):
    from tangelo.linq import Circuit, Gate
    gs = []
    for g in nr["gates"]:
        gs.append(Gate("MEASURE", g["t"][0]) if g["name"] == "MEASURE" else json_to_gate(g, M))
    return Circuit(gs, n_qubits=nr["n"])


def use_circuit(name, n):
    from tangelo.linq import Circuit, Gate
    g = {"X": Gate("X", 0), "H": Gate("H", 0), "RZ": Gate("RZ", 0, parameter=math.pi / 2),
         "CNOT": Gate("CNOT", 1, control=0) if n >= 2 else None, "CX": Gate("CX", 1, control=0) if n >= 2 else None,
         "CRZ": Gate("CRZ", 1, control=0, parameter=math.pi / 2) if n >= 2 else None,
         "CSWAP": Gate("CSWAP", [0, 1], control=2) if n >= 3 else None}[name]
    return Circuit([g], n_qubits=n)


def state_of(nm):
    return copy.deepcopy(getattr(nm, "_quantum_errors", None)), set(nm.noisy_gates)


def build_model(nr):
    """Replay the add_quantum_error calls. Returns (NoiseModel of the accepted calls, list of (aspect, detail))."""
    from tangelo.linq.noisy_simulation import NoiseModel
    from tangelo.linq import get_backend
    nm = NoiseModel()
    fails = []
    for c in nr["calls"]:
        before = state_of(nm)
        par = py_params(c["kind"], c["params"])
        raised = None
        try:
            nm.add_quantum_error(c["gate"], c["type"], par)
        except Exception as e:
            raised = e
        if c["verdict"] == "accept":
            if raised is not None:
                fails.append(("model:accepted-call-raised", "add_quantum_error(%r, %r, %r) raised %s: %s" % (c["gate"], c["type"], par, type(raised).__name__, raised)))
                return None, fails
        elif c["verdict"] == "reject":
            if raised is None:
                fails.append(("model:malformed-accepted", "add_quantum_error(%r, %r, %r) did not raise" % (c["gate"], c["type"], par)))
                return None, fails
            if state_of(nm) != before:
                fails.append(("model:rejected-call-changed-model", "model changed by the rejected call add_quantum_error(%r, %r, %r)" % (c["gate"], c["type"], par)))
        else:       # reject-by-use: refused here or, at the latest, when a circuit with that gate is simulated
            if raised is None:
                try:
                    with warnings.catch_warnings():
                        warnings.simplefilter("ignore")
                        sim = get_backend("cirq", n_shots=10, noise_model=nm)
                        sim.simulate(use_circuit(c["gate"], nr["n"]))
                    fails.append(("model:out-of-range-rates-simulated", "rates %r (%s on %s) were accepted and simulated" % (par, c["type"], c["gate"])))
                except Exception:
                    pass
                # rebuild the model of the accepted calls only
                nm = NoiseModel()
                for c2 in nr["calls"]:
                    if c2["verdict"] == "accept":
                        nm.add_quantum_error(c2["gate"], c2["type"], py_params(c2["kind"], c2["params"]))
            elif state_of(nm) != before:
                fails.append(("model:rejected-call-changed-model", "model changed by the rejected call"))
    exp_gates = {m["gate"] for m in nr["model"]}
    if set(nm.noisy_gates) != exp_gates:
        fails.append(("model:noisy_gates", "noisy_gates %s != accepted calls %s" % (sorted(nm.noisy_gates), sorted(exp_gates))))
    return nm, fails


def model_repr_drift(nm, nr):
    exp = [(m["gate"], [(e["type"], [rate(r) for r in e["params"]] if e["type"] == "pauli" else rate(e["params"][0])) for e in m["errs"]])
           for m in nr["model"]]
    got = [(g, [(t, p) for t, p in errs]) for g, errs in getattr(nm, "_quantum_errors", {}).items()]
    return None if got == exp else "internal representation %s differs from the spec's model %s" % (got, exp)


def klass(nr):
    names = {m["gate"] for m in nr["model"]}
    if names & {"CNOT", "CX"} and any(g["name"] == "CNOT" and len(g["c"]) > 1 for g in nr["gates"]):
        return MULTI_CNOT
    return "noise"


def dm_err(a, b):
    a = np.array(a, dtype=complex)
    if a.shape != b.shape:
        return float("inf")
    return float(np.max(np.abs(a - b)))


def band(got, exp, shots, what):
    exp = {k: v for k, v in exp.items() if v > 1e-12}
    if abs(sum(got.values()) - 1) > 1e-9:
        return "%s sum to %r" % (what, sum(got.values()))
    for k in got:
        if k not in exp:
            return "%s: sampled key %r outside the exact support %s" % (what, k, sorted(exp))
    for k in set(exp) | set(got):
        p, f = exp.get(k, 0.0), got.get(k, 0.0)
        if abs(f - p) > 6 * math.sqrt(max(p * (1 - p), 0) / shots) + 1.5 / shots:
            return "%s: frequency %.4f of %r outside the 6-sigma band of p=%.6f (n_shots=%d)" % (what, f, k, p, shots)
    return None


def _cz(c):
    return c if isinstance(c, complex) else to_complex(c, M)


def replay_run(nr, nm, shots, seed, perturb=None):
    """Replay one behaviour with the model nm. Returns list of (aspect, detail)."""
    import cirq
    from tangelo.linq import get_backend, translate_circuit
    n = nr["n"]
    rho = nr["_rho"]
    has_meas = any(g["name"] == "MEASURE" for g in nr["gates"])
    fails = []
    iv = init_vec(nr)
    with warnings.catch_warnings():
        warnings.simplefilter("ignore")
        # ---- path A: translator + density matrix simulator -------------------------------------------
        if not has_meas:
            try:
                tc = translate_circuit(circuit_of(nr), "cirq", output_options={"noise_model": nm})
                dm = cirq.DensityMatrixSimulator(dtype=np.complex128).simulate(tc, initial_state=(0 if iv is None else iv)).final_density_matrix
                err = dm_err(dm, rho)
                if err > TOL:
                    fails.append(("translate:density-matrix", "translate_circuit(noise_model)+DensityMatrixSimulator: rho differs from the "
                                  "specified channels by %.3g (max entry)" % err))
            except Exception as e:
                fails.append(("translate:exception", "%s: %s" % (type(e).__name__, str(e)[:200])))
        # ---- path B: backend -------------------------------------------------------------------------------
        try:
            sim = get_backend("cirq", n_shots=shots, noise_model=nm)
            np.random.seed(seed)
            f, dm = sim.simulate(circuit_of(nr), return_statevector=True, initial_statevector=iv)
            np.random.seed(seed + 7)
            f2, none = sim.simulate(circuit_of(nr), initial_statevector=iv)          # the same entry point without the matrix
        except Exception as e:
            fails.append(("backend:exception", "%s: %s" % (type(e).__name__, str(e)[:200])))
            return fails
        err = dm_err(dm, rho)
        if err > TOL:
            fails.append(("backend:density-matrix", "get_backend('cirq', n_shots, noise_model).simulate: final density matrix differs by %.3g" % err))
        bad = band(f, {bitstr(i, n): rho[i, i].real for i in range(2 ** n)}, shots, "frequencies")
        if bad:
            fails.append(("backend:frequencies", bad))
        bad = band(f2, {bitstr(i, n): rho[i, i].real for i in range(2 ** n)}, shots, "frequencies (no matrix requested)")
        if bad or none is not None:
            fails.append(("backend:frequencies", bad or "a state was returned although return_statevector=False"))
        # ---- expectation values -----------------------------------------------------------------------------
        for terms, val in nr["_ops"]:
            op = json_to_qubit_op(terms, M)
            if perturb == "op":
                val = val + 0.25
            try:
                e1 = sim.expectation_value_from_prepared_state(op, n, np.array(dm))
                e2 = sim.expectation_value_from_prepared_state(op, n, np.array(rho))
            except Exception as e:
                fails.append(("expectation:exception", "%s: %s" % (type(e).__name__, str(e)[:200])))
                continue
            if abs(e2 - val.real) > TOL:
                fails.append(("expectation:prepared-state", "expectation_value_from_prepared_state on the exact rho = %r, tr(rho H) = %r" % (e2, val.real)))
            if abs(e1 - val.real) > TOL:
                fails.append(("expectation:prepared-state-own", "expectation_value_from_prepared_state on the backend's density matrix = %r, tr(rho H) = %r" % (e1, val.real)))
            if not has_meas:
                merged = {}
                for t in terms:             # for n = 1 two-letter words collapse: duplicates are summed like in the QubitOperator
                    merged[tuple(t["w"])] = merged.get(tuple(t["w"]), 0) + to_complex(t["c"], M)
                terms = [{"w": list(w), "c": c} for w, c in merged.items()]
                var = sum(abs(_cz(t["c"])) ** 2 * max(0.0, 1 - abs(nr["_tw"][tuple(t["w"])]) ** 2) for t in terms if any(t["w"]))
                try:
                    np.random.seed(seed + 1)
                    e3 = sim.get_expectation_value(op, circuit_of(nr), initial_statevector=iv)
                    csum = sum(abs(_cz(t["c"])) for t in terms if any(t["w"]))
                    if abs(e3 - val.real) > 6 * math.sqrt(var / shots) + 3.0 * csum / shots:
                        fails.append(("expectation:sampled", "get_expectation_value = %r outside 6 sigma (%.4g) of tr(rho H) = %r"
                                      % (e3, math.sqrt(var / shots), val.real)))
                    # get_variance: sum_j c_j^2 (1 - tr(rho P_j)^2), each term estimated from n_shots samples of the noisy state
                    np.random.seed(seed + 2)
                    v3 = sim.get_variance(op, circuit_of(nr), initial_statevector=iv)
                    slack = 0.0
                    for t in terms:
                        if any(t["w"]):
                            c2, tj = abs(_cz(t["c"])) ** 2, abs(nr["_tw"][tuple(t["w"])])
                            sg = 6 * math.sqrt(max(0.0, 1 - tj ** 2) / shots) + 3.0 / shots
                            slack += c2 * (2 * tj * sg + sg ** 2)
                    if abs(v3 - var) > slack + 1e-9:
                        fails.append(("variance:sampled", "get_variance = %r, sum c_j^2 (1 - tr(rho P_j)^2) = %r (allowed deviation %.4g)" % (v3, var, slack)))
                except Exception as e:
                    fails.append(("expectation:exception", "get_expectation_value: %s: %s" % (type(e).__name__, str(e)[:200])))
        # ---- zero-rate model == noiseless simulation -----------------------------------------------------------
        if not nr["noisy"] and nr["pure"]:
            try:
                _, sv = get_backend("cirq").simulate(circuit_of(nr), return_statevector=True, initial_statevector=iv)
                sv = np.array(sv, dtype=complex).ravel()
                err = dm_err(np.outer(sv, sv.conj()), np.array(dm, dtype=complex))
                if err > TOL:
                    fails.append(("zero-noise", "density matrix under a zero-rate / non-matching model differs from the noiseless statevector by %.3g" % err))
            except Exception as e:
                fails.append(("zero-noise:exception", "%s: %s" % (type(e).__name__, str(e)[:200])))
        # ---- measurement options combined with a noise model (circuits with MEASURE gates) --------------------------
        if has_meas and nr["_cond"]:
            fails += measure_options(nr, nm, iv, seed)
    return fails


def measure_options(nr, nm, iv, seed):
    """desired_meas_result / save_mid_circuit_meas under noise: the outcome-resolved states rho_d of the spec (unnormalised,
    tr rho_d = probability of d)."""
    from tangelo.linq import get_backend
    n = nr["n"]
    fails = []
    probs = {d: float(np.trace(m).real) for d, m in nr["_cond"].items()}
    joint = {d + bitstr(i, n): m[i, i].real for d, m in nr["_cond"].items() for i in range(2 ** n)}
    # (1) all shots with saved mid-circuit measurements
    shots = 1000
    try:
        sim = get_backend("cirq", n_shots=shots, noise_model=nm)
        np.random.seed(seed + 11)
        f, _ = sim.simulate(circuit_of(nr), save_mid_circuit_meas=True, initial_statevector=iv)
        for what, got, exp in (("all_frequencies", sim.all_frequencies, joint), ("mid_circuit_meas_freqs", sim.mid_circuit_meas_freqs, probs),
                               ("frequencies", f, {bitstr(i, n): nr["_rho"][i, i].real for i in range(2 ** n)})):
            bad = band(dict(got), exp, shots, what)
            if bad:
                fails.append(("measure:save_mid", bad))
    except Exception as e:
        fails.append(("measure:exception", "save_mid_circuit_meas with noise: %s: %s" % (type(e).__name__, str(e)[:200])))
    # (2) requested outcome string: the returned density matrix is the normalised rho_d
    d = max(probs, key=lambda x: (probs[x], x))
    shots = 300
    for sv in (True, False):
        try:
            sim = get_backend("cirq", n_shots=shots, noise_model=nm)
            np.random.seed(seed + 12 + sv)
            f, dm = sim.simulate(circuit_of(nr), desired_meas_result=d, return_statevector=sv, initial_statevector=iv)
        except Exception as e:
            fails.append(("measure:exception", "desired_meas_result=%r with noise: %s: %s" % (d, type(e).__name__, str(e)[:200])))
            continue
        cond = nr["_cond"][d] / probs[d]
        allf = dict(sim.all_frequencies)
        n_succ = int(round(shots * sum(v for k, v in allf.items() if k.startswith(d))))
        if n_succ == 0:
            continue
        bad = band(dict(f), {bitstr(i, n): cond[i, i].real for i in range(2 ** n)}, n_succ, "frequencies given %r" % d)
        if bad:
            fails.append(("measure:desired", bad))
        if sv:
            err = dm_err(dm, cond)
            if err > TOL:
                fails.append(("measure:desired-density-matrix", "density matrix returned for desired_meas_result=%r differs from the normalised "
                              "outcome-resolved state by %.3g" % (d, err)))
    # (3) one shot with saved measurements and the state
    try:
        sim = get_backend("cirq", n_shots=1, noise_model=nm)
        np.random.seed(seed + 15)
        f, dm = sim.simulate(circuit_of(nr), save_mid_circuit_meas=True, return_statevector=True, initial_statevector=iv)
        keys = list(sim.mid_circuit_meas_freqs)
        if len(keys) != 1 or probs.get(keys[0], 0.0) < 1e-12:
            fails.append(("measure:oneshot", "one shot reported the outcome strings %s, live ones are %s" % (keys, sorted(k for k, v in probs.items() if v > 1e-12))))
        else:
            err = dm_err(dm, nr["_cond"][keys[0]] / probs[keys[0]])
            if err > TOL:
                fails.append(("measure:oneshot", "density matrix after the sampled outcomes %r differs from the outcome-resolved state by %.3g" % (keys[0], err)))
    except Exception as e:
        fails.append(("measure:exception", "one shot with noise: %s: %s" % (type(e).__name__, str(e)[:200])))
    return fails


_seen = {}


def viol(chk, key, detail, case):
    if chk.match_known(key) is None:
        _seen[key] = _seen.get(key, 0) + 1
        if _seen[key] > 2:
            return
    chk.violation(key, detail, case)


def replay_behaviour(chk, nr, shots, seed, part):
    nm, fails = build_model(nr)
    if nm is not None:
        d = model_repr_drift(nm, nr)
        if d:
            chk.spec_drift("NoiseModel: " + d)
        fails += replay_run(nr, nm, shots, seed)
    chk.add_traces(1, part)
    k = klass(nr)
    for aspect, detail in fails:
        key = aspect if aspect.startswith("model:") else "%s:%s" % (k, aspect)
        viol(chk, key, "[n=%d, gates=%s, model=%s] %s" % (nr["n"], [(g["name"], g["t"], g["c"]) for g in nr["gates"]],
                                                            [(m["gate"], [(e["type"], [rate(r) for r in e["params"]]) for e in m["errs"]]) for m in nr["model"]], detail),
             {"kind": "run", "nr": strip(nr), "tw": nr["tw"], "shots": shots, "seed": seed})
    return fails


def backend_rows(chk, rows):
    from tangelo.linq import get_backend
    from tangelo.linq.noisy_simulation import NoiseModel
    for row in rows:
        nm = None
        if row["noise"]:
            nm = NoiseModel()
            nm.add_quantum_error("X", "depol", 0.25)
        raised = None
        try:
            with warnings.catch_warnings():
                warnings.simplefilter("ignore")
                get_backend(row["backend"], n_shots=(100 if row["shots"] else None), noise_model=nm)
        except Exception as e:
            raised = e
        chk.add_traces(1, "backend_rows")
        if row["accept"] and raised is not None:
            viol(chk, "backend:config-refused", "get_backend(%r, n_shots=%s, noise=%s) raised %r" % (row["backend"], row["shots"], row["noise"], raised), {"kind": "row", "row": row})
        if not row["accept"] and raised is None:
            viol(chk, "backend:noise-accepted:%s" % row["backend"], "get_backend(%r, n_shots=%s) accepted a noise model" % (row["backend"], 100 if row["shots"] else None),
                 {"kind": "row", "row": row})


def negative_controls(chk, nrs, shots):
    """A perturbed model rate / operator value must be noticed by the comparison."""
    tried = caught = op_tried = op_caught = 0
    for nr in nrs:
        if not nr["noisy"] or klass(nr) != "noise" or any(g["name"] == "MEASURE" for g in nr["gates"]):
            continue
        nm0, f0 = build_model(nr)
        if nm0 is None or f0 or replay_run(nr, nm0, shots, 1):
            continue            # only behaviours whose unperturbed replay is clean (failures are reported by the replay itself)
        q = copy.deepcopy(nr)
        # perturb the first non-zero rate of a channel that was actually applied (a Z error on a diagonal state etc. is
        # legitimately invisible: the control demands that MOST perturbations are noticed)
        used = {g["name"] for g in q["gates"]}
        done = False
        for m in q["model"]:
            if m["gate"] not in used or done:
                continue
            for e in m["errs"]:
                for r in e["params"]:
                    if r[0] != 0 and not done:
                        r[0], r[1] = (1, r[1] + 1) if r[0] == 1 else (1, 3)
                        done = True
        if not done:
            continue
        q["calls"] = [dict(gate=m["gate"], type=e["type"], kind="list" if e["type"] == "pauli" else "float", params=e["params"], verdict="accept")
                      for m in q["model"] for e in m["errs"]]
        nm, fails = build_model(q)
        if nm is None:
            continue
        fails = replay_run(nr, nm, shots, 1)
        tried += 1
        if any(a in ("translate:density-matrix", "backend:density-matrix") for a, _ in fails):
            caught += 1
        if op_tried < 4:
            nm, _ = build_model(nr)
            fails = replay_run(nr, nm, shots, 1, perturb="op")
            op_tried += 1
            if any(a.startswith("expectation:prepared-state") for a, _ in fails):
                op_caught += 1
        if tried >= 16:
            break
    if tried >= 4 and (caught * 2 < tried or op_caught != op_tried):
        raise tlc.TLCError("binding failure: perturbed error rates noticed %d/%d, shifted expectation values %d/%d" % (caught, tried, op_caught, op_tried))
    tried, caught = tried + op_tried, caught + op_caught
    chk.part("negative_controls", corrupted=tried, noticed=caught)


def run(chk):
    rng = random.Random(chk.seed)
    quick = chk.quick
    jobs = [dict(module="DensityCheck", cfg="CONSTANT M = 8\nINIT Init\nNEXT Next\n", name="c19/density_check", timeout=1800)]
    plan = []
    # exhaustive: one call (all verdicts) x all circuits of <= 2 gates on one qubit
    plan.append(("bfs_n1", dict(cfg=cfg(1, 1, 2, "RatesSmall", bad=True, focus=False), workers=4, coverage=True)))
    k = 1 if quick else 6
    plan += [("sim_n1", dict(cfg=cfg(1, 3, 4, "RatesFull"), simulate="num=%d" % (25 * k), depth=40)),
             ("sim_n2", dict(cfg=cfg(2, 3, 4, "RatesFull"), simulate="num=%d" % (70 * k), depth=40)),
             ("sim_n3", dict(cfg=cfg(3, 3, 4, "RatesFull"), simulate="num=%d" % (70 * k), depth=40)),
             ("sim_n3_mid", dict(cfg=cfg(3, 2, 4, "RatesMid"), simulate="num=%d" % (40 * k), depth=40)),
             ("sim_both", dict(cfg=cfg(3, 3, 3, "RatesMid", same=True), simulate="num=%d" % (40 * k), depth=40)),
             ("sim_both_n2", dict(cfg=cfg(2, 2, 4, "RatesFull", same=True), simulate="num=%d" % (30 * k), depth=40)),
             ("sim_bad", dict(cfg=cfg(2, 3, 2, "RatesSmall", bad=True, focus=False), simulate="num=%d" % (40 * k), depth=40)),
             ("sim_zero", dict(cfg=cfg(3, 2, 4, "RatesZero"), simulate="num=%d" % (15 * k), depth=40)),
             ("sim_meas", dict(cfg=cfg(2, 2, 4, "RatesFull", meas=True), simulate="num=%d" % (30 * k), depth=40)),
             ("sim_meas2", dict(cfg=cfg(2, 2, 3, "RatesSmall", meas=True, focus=False), simulate="num=%d" % (40 * k), depth=40))]
    if not quick:
        plan.append(("bfs_n2", dict(cfg=cfg(2, 1, 2, "RatesSmall", bad=False, focus=True), workers=4)))
    for i, (name, kw) in enumerate(plan):
        jobs.append(dict(module="C19Noise", name="c19/" + name, seed=chk.seed + 13 * i + 3, heap="4g", timeout=7200, **kw))
    results = run_jobs(jobs, ["NR", "BR"], ["LC"], "c19_" + chk.tier + "_%d" % chk.seed)
    dres = results[0].tuples("LC")
    if len(dres) < 15 or any(t[1] is not True for t in dres):
        raise tlc.TLCError("Density.tla self-check failed: %s" % [t for t in dres if t[1] is not True])
    chk.part("density_selfcheck", checks=len(dres), lemma="Depol(p) on k qubits = Pauli mixture with weight p/4^k per word = cirq.depolarize(p(4^k-1)/4^k, k), k <= 3",
             wall_s=round(results[0].wall, 1))
    cov, rows = {}, None
    runs = {}
    for (name, kw), r in zip(plan, results[1:]):
        if not r.ok:
            raise tlc.TLCError("C19Noise: invariant violated in the specification itself: %s\n%s" % (r.violated, r.out[-2500:]))
        chk.add_tlc(r, name)
        runs[name] = [prepare(x) for x in r.prints("NR")]
        rows = rows or (r.prints("BR") or [None])[0]
        for a, c in r.coverage_counts().items():
            if a in ACTIONS:
                cov[a] = cov.get(a, 0) + c[1]
    missing = [a for a in ACTIONS if not cov.get(a)]
    if missing:
        raise tlc.TLCError("vacuity: actions never taken in the coverage run: %s" % missing)
    chk.part("action_coverage", **cov)
    shots = 2000 if quick else 10000
    stats = dict(behaviours=0, noisy=0, both_types_on_one_gate=0, malformed_calls=0, multi_qubit_noisy=0)
    for name, nrs in runs.items():
        if name.startswith("bfs"):
            keep = 250 if quick else 2500
            bad = [x for x in nrs if any(c["verdict"] != "accept" for c in x["calls"])]
            good = [x for x in nrs if all(c["verdict"] == "accept" for c in x["calls"])]
            nrs = rng.sample(bad, min(len(bad), keep // 2)) + rng.sample(good, min(len(good), keep // 2))
        for nr in nrs:
            # n_shots is an option too: every fourth behaviour runs with 1, 10 or 100 shots (support / coarse bands)
            n_done = stats["behaviours"]
            sh = shots if n_done % 4 else (1, 10, 100)[(n_done // 4) % 3]
            replay_behaviour(chk, nr, sh, rng.randrange(2 ** 31), name)
            stats["behaviours"] += 1
            stats["noisy"] += bool(nr["noisy"])
            stats["generic_initial_statevector"] = stats.get("generic_initial_statevector", 0) + (not nr["_zero"])
            stats["measure_options_under_noise"] = stats.get("measure_options_under_noise", 0) + bool(nr["_cond"])
            stats["both_types_on_one_gate"] += any(len(m["errs"]) == 2 for m in nr["model"])
            stats["malformed_calls"] += any(c["verdict"] != "accept" for c in nr["calls"])
            stats["multi_qubit_noisy"] += any(len(g["t"]) + len(g["c"]) >= 3 and g["name"] in {m["gate"] for m in nr["model"]} for g in nr["gates"])
    if rows is None:
        raise tlc.TLCError("backend configuration table not exported")
    backend_rows(chk, rows)
    negative_controls(chk, runs["sim_n2"] + runs["sim_n3"], shots)
    chk.part("behaviours", **stats)
    for name in ("sim_n3", "sim_bad"):
        if runs[name]:
            x = runs[name][len(runs[name]) // 2]
            chk.sample({"n": x["n"], "gates": x["gates"], "calls": x["calls"], "noisy": x["noisy"]})
    chk.cov["rule"] = ("TLC builds noise models (add_quantum_error calls incl. malformed ones) and circuits, runs the exact density-matrix "
                       "semantics; every finished behaviour is replayed on the translator + cirq.DensityMatrixSimulator and on the cirq backend")
    chk.assumptions += ["error rates are dyadic (0, 1/8, 1/4, 1/2, 1): channel outputs are affine in each rate, so agreement at >= 2 rates per "
                        "channel type fixes the map; circuits <= 4 gates on n <= 3 qubits at RZ/CRZ angles pi/2, 3pi/2",
                        "a denominator budget (20 bits) cuts behaviours whose exact integers would approach 2^31; cut behaviours are not replayed",
                        "rho compared entrywise at 1e-9; sampled frequencies / expectation values within 6 sigma under a fixed numpy seed",
                        "well-typed rates outside [0,1] may be refused either by add_quantum_error or when the circuit is simulated"]


def replay(chk, rec):
    case = rec["case"]
    if case["kind"] == "row":
        c2 = check.Check("C19", ["quick"])
        c2.known = []
        backend_rows(c2, [case["row"]])
        print(case["row"], "->", [v[:2] for v in c2.violations])
        return not c2.violations
    nr = dict(case["nr"])
    nr["tw"] = case["tw"]
    nr = prepare(nr)
    nm, fails = build_model(nr)
    if nm is not None:
        fails += replay_run(nr, nm, case["shots"], case["seed"])
    print("gates:", nr["gates"])
    print("calls:", nr["calls"])
    for a, d in fails:
        print("  FAIL", a, "-", d)
    return not fails


if __name__ == "__main__":
    check.main("C19", run, replay)
